"""Api.tla programs (C09, C13): TLC generates programs (exhaustive small depth + simulation), the harness replays them."""
import os, json, hashlib
from verif import *


def harness_lines(out):
    return [json.loads(l) for l in out.splitlines() if l.startswith("{")]


def programs(chk, cfg, simulate=None, depth=None, cap=400, label=""):
    r = tlc("Api", cfg, workers=1, simulate=simulate, depth=depth, seed=chk.seed if simulate else None, timeout=900)
    if r.violation:
        chk.finding("Api:model:" + r.violation, {"stage": "MC", "config": cfg, "counterexample": r.cex})
        return []
    if r.error:
        raise ToolError("%s: %s" % (cfg, r.error))
    rows = [p for t, p in r.printed if t == "REPLAY"]
    seen, uniq = set(), []
    for p in rows:
        k = json.dumps(p, sort_keys=True)
        if k not in seen:
            seen.add(k)
            uniq.append(p)
    if not simulate:
        chk.add_tlc(cfg, r, {"what": label})
    else:
        chk.cov["configs"].append({"config": cfg, "mode": "simulate num=%d depth=%d" % (simulate, depth),
                                   "programs": len(uniq), "wall_s": round(r.wall, 1)})
    if len(uniq) > cap:
        # deterministic thinning: keep programs spread over the whole enumeration
        step = len(uniq) / float(cap)
        uniq = [uniq[int(i * step)] for i in range(cap)]
    return uniq


def replay(chk, yv, tag, progs, mode="all"):
    wd = workdir(tag)
    f = os.path.join(wd, "programs.ndjson")
    write_ndjson(f, progs)
    lines = harness_lines(run_harness(yv, ["api-replay", f, chk.seed, mode], timeout=3000))
    for m in lines:
        if m.get("kind") == "mismatch":
            chk.finding(m["key"], {"stage": "A:replay", "ctx": m.get("ctx")})
    summ = [l for l in lines if l.get("kind") == "summary"][0]
    chk.stage("A:" + tag, programs=len(progs), program_runs=summ["extra"]["runs"], typed_runs=summ["extra"]["typed_runs"],
              comparisons=summ["checked"], subjects=summ["extra"]["subjects"])
    chk.cov["replayed_behaviours"] += summ["extra"]["runs"]
    chk.cov["traces_validated_against_impl"] += summ["extra"]["runs"]
    if progs:
        chk.sample({"direction": "A", "program": progs[len(progs) // 2]})
