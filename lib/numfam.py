"""Numeric families (finite-window C02, recursive C03): recording + trace validation with Trace_Num."""
import os, json
from verif import *


def harness_lines(out):
    return [json.loads(l) for l in out.splitlines() if l.startswith("{")]


def record_validate(chk, yv, tag, jobs, cfg="Trace_Num.cfg", nproc=14, spec="Trace_Num", recorder="num-record"):
    """jobs: list of (family, seed, programs, steps, big, [subject]) -> one trace file each, validated in parallel."""
    wd = workdir(tag)

    def one(ij):
        i, j = ij
        f = os.path.join(wd, "trace_%d.ndjson" % i)
        args = [recorder, j[0], j[1], j[2], j[3], j[4], f] + list(j[5:])
        out = harness_lines(run_harness(yv, args))
        n = out[0]["events"]
        ok, info, r = tlc_trace(spec, cfg, f, timeout=3000)
        return (f, n, ok, info, r, j)

    total = 0
    subjects = {}
    for f, n, ok, info, r, j in parallel(list(enumerate(jobs)), one, nproc=nproc):
        evs = read_ndjson(f)
        for e in evs:
            if e["ev"] == "new":
                subjects[e["subject"]] = subjects.get(e["subject"], 0) + 1
        if ok:
            total += n
            chk.cov["transitions"] += r.generated
            chk.cov["states"] += r.distinct
        else:
            k = info["matched"]
            start = max(i for i in range(k + 1) if evs[i]["ev"] == "new")
            prog = evs[start]
            ev = evs[k]
            site = ev["ev"]
            cls = "value"
            if isinstance(ev.get("y"), dict) and "panic" in ev["y"]:
                cls = "panic"
            elif isinstance(ev.get("y"), dict) and "k" in ev["y"]:
                cls = "nonfinite"
            chk.finding("%s:%s:%s" % (prog["subject"], site, cls),
                        {"stage": "B:trace", "trace": f, "rejected_event_index": k, "event": ev, "program": prog,
                         "step_in_program": k - start, "recorder_args": list(j)})
    chk.cov["events_validated"] += total
    chk.cov["traces_validated_against_impl"] += len(jobs)
    chk.stage("B:" + tag, traces=len(jobs), events=total, programs_per_subject=subjects)
    return subjects
