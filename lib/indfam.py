"""Indicator traces (C05 values, C06 signals, C12 ranges; C11 shape is an invariant of all of them)."""
import os, json
from verif import *


def harness_lines(out):
    return [json.loads(l) for l in out.splitlines() if l.startswith("{")]


def cfg_for(mode, tstrength_doc=False):
    p = os.path.join(workdir("cfg"), "Trace_Ind_%s%s.cfg" % (mode, "_doc" if tstrength_doc else ""))
    open(p, "w").write("CONSTANTS\n  F32 = FALSE\n  CHECK_VALUES = %s\n  CHECK_SIGNALS = %s\n  CHECK_RANGES = %s\n  TSTRENGTH_DOC = %s\nSPECIFICATION Spec\nINVARIANT NotDone\n"
                       "POSTCONDITION TraceAccepted\nCHECK_DEADLOCK FALSE\n" % (tuple("TRUE" if mode == m else "FALSE" for m in ("values", "signals", "ranges"))
                                                                                + ("TRUE" if tstrength_doc else "FALSE",)))
    return p


def record(chk, yv, tag, nfiles, programs, steps, exclude=(), only=None, force_drop=False, range_regimes=False):
    wd = workdir(tag)
    files = []
    os.environ["YV_EXCLUDE"] = ",".join(exclude)
    if force_drop:
        os.environ["YV_FORCE_DROP"] = "1"
    if range_regimes:
        os.environ["YV_RANGE_REGIMES"] = "1"
    for i in range(nfiles):
        f = os.path.join(wd, "trace_%s%d.ndjson" % (only or "", i))
        n = harness_lines(run_harness(yv, ["ind-record", chk.seed * 100 + i, programs, steps, 1, f] + ([only] if only else [])))[0]["events"]
        files.append((f, n))
    os.environ["YV_EXCLUDE"] = ""
    os.environ.pop("YV_FORCE_DROP", None)
    os.environ.pop("YV_RANGE_REGIMES", None)
    return files


def validate(chk, files, mode, site, nproc=12, classify=None):
    cfg = cfg_for(mode)

    def val(job):
        ok, info, r = tlc_trace("Trace_Ind", cfg, job[0], timeout=3000)
        return job, ok, info, r
    per = {}
    for job, ok, info, r in parallel(files, val, nproc=nproc):
        evs = read_ndjson(job[0])
        for e in evs:
            if e["ev"] == "ind_new":
                per[e["name"]] = per.get(e["name"], 0) + 1
        if ok:
            chk.cov["events_validated"] += job[1]
            chk.cov["states"] += r.distinct
            chk.cov["transitions"] += r.generated
        else:
            k = info["matched"]
            start = max(i for i in range(k + 1) if evs[i]["ev"] == "ind_new")
            p = evs[start]
            ev = evs[k]
            cls = "panic" if "panic" in ev else ("init" if ev["ev"] == "ind_new" else site)
            if classify and cls == site:
                cls = cls + classify(p["name"], evs, start, k)      # refinement of the key by the circumstances of the rejection
            chk.finding("%s:%s" % (p["name"], cls), {"stage": "B:trace(%s)" % mode, "trace": job[0], "config": p["raw_cfg"],
                                                     "step_in_program": k - start, "rejected_event": {kk: ev[kk] for kk in ev if kk not in ("o",)}})
    chk.cov["traces_validated_against_impl"] += len(files)
    chk.stage("B:" + mode, traces=len(files), programs_per_indicator=per)
