"""C02 Sliding-window numeric methods equal their from-scratch definition
(spec/Big.tla, Linear.tla, NumSubjects.tla, Trace_Num.tla)."""
from verif import *
import numfam


def run(chk):
    quick = chk.tier == "quick"
    yv = build_harness()
    s = chk.seed
    if quick:
        # 14 traces: 19 subjects x small lengths, plus big lengths with short streams
        jobs = [("fin", s * 100 + i, 19, 70, 0) for i in range(10)] + [("fin", s * 100 + 50 + i, 10, 24, 1) for i in range(4)] + \
               [("fin", s * 100 + 90, 19, 1100, 0)]        # every subject once beyond 1024 steps (periodic housekeeping, counters)
    else:
        jobs = [("fin", s * 100 + i, 38, 300, 0) for i in range(24)] + [("fin", s * 100 + 50 + i, 19, 300, 1) for i in range(24)] + \
               [("fin", s * 100 + 90 + i, 19, 4200, 0) for i in range(2)]
    subs = numfam.record_validate(chk, yv, "c02", jobs)
    ev = read_ndjson(os.path.join(workdir("c02"), "trace_0.ndjson"))
    chk.sample({"direction": "B", "events": ev[1:4]})
    chk.assumptions += ["inputs and outputs are converted to the nearest multiple of 10^-24 (relative error < 10^-17 inside the input band)",
                        "the rounding allowance of DESIGN.md section 4 (eps*(16k+8t)*S) separates rounding from formula errors",
                        "the pure-TLA+ big-number library Big.tla (self-tested against Python integers by bin/selftest)"]
import os
