"""C19 The unsafe_performance feature changes nothing observable and stays in bounds.
Model: the InBounds invariants of Window.tla (every get_unchecked site) and Selection.tla's SMM (slice accesses,
ptr::copy ranges) -- checked by TLC for every call on which the safe build does not panic.  Binding: the program suites
of the other properties (TLC-generated tables/behaviours and recorded programs) are run against BOTH builds of the
same tree; transcripts must be identical and the TLC-generated expectations must hold in the unsafe build too."""
import os, json, filecmp
from verif import *
import tokfam


def lines_of(out):
    return [json.loads(l) for l in out.splitlines() if l.startswith("{")]


RECORDERS = [
    ("window", lambda s, q: ["window-record", s, 10 if q else 40, 80 if q else 200]),
    ("tok-sel", lambda s, q: ["tok-record", "sel", s, 21 if q else 70, 150 if q else 400]),
    ("tok-selx", lambda s, q: ["tok-record", "selx", s, 14 if q else 42, 60 if q else 200]),   # magnitudes near the top of the range
    ("tok-rev", lambda s, q: ["tok-record", "rev", s, 9, 400 if q else 1500]),
    ("num-fin", lambda s, q: ["num-record", "fin", s, 19, 60 if q else 300, 0]),
    ("num-rec", lambda s, q: ["num-record", "rec", s, 13, 60 if q else 300, 0]),
    ("num-fin-big", lambda s, q: ["num-record", "fin", s + 1, 19, 30 if q else 120, 1]),
    ("num-rec-big", lambda s, q: ["num-record", "rec", s + 1, 26, 30 if q else 120, 1]),
    ("ind", lambda s, q: ["ind-record", s, 36, 40 if q else 200, 1]),
    ("convert", lambda s, q: ["convert-record", s, 6, 60 if q else 300]),
    ("doc", lambda s, q: ["doc-record", s]),
]


def transcripts(chk, builds, wd, env, quick, recorders=RECORDERS):
    """Run every recorder under every build; returns {recorder: {build: path}}"""
    res = {}
    for name, mk in recorders:
        res[name] = {}
        for tag, yv in builds.items():
            f = os.path.join(wd, "%s.%s.ndjson" % (name, tag))
            a = mk(chk.seed, quick)
            e = dict(os.environ)
            e.update(env)
            if name == "doc" and tag != "default" and res[name].get("default"):
                e["YV_DOC_REF"] = res[name]["default"]
            r = subprocess.run([yv] + [str(x) for x in a[:1]] + [str(x) for x in a[1:]] + [f] if not name.startswith("num-") else
                               [yv] + [str(x) for x in a] + [f], env=e, stdout=subprocess.PIPE, stderr=subprocess.PIPE, text=True, timeout=1800)
            if r.returncode != 0:
                chk.finding("%s:%s:crash" % (tag, name), {"stage": "record", "stderr": r.stderr[-1500:], "rc": r.returncode})
                continue
            res[name][tag] = f
    return res


def first_diff(a, b):
    with open(a) as fa, open(b) as fb:
        for i, (x, y) in enumerate(zip(fa, fb)):
            if x != y:
                return i, x[:600], y[:600]
    return -1, "", ""


def compare(chk, res, base, prop_what):
    n = 0
    for name, by in res.items():
        if base not in by:
            continue
        for tag, f in by.items():
            if tag == base:
                continue
            n += 1
            if not filecmp.cmp(by[base], f, shallow=False):
                i, x, y = first_diff(by[base], f)
                chk.finding("%s:%s:transcript" % (tag, name), {"stage": "A:transcripts", "what": prop_what, "first_difference_at_event": i,
                                                              base: x, tag: y})
    return n


def run(chk):
    quick = chk.tier == "quick"
    wd = workdir("c19")
    builds = {"default": build_harness(), "unsafe": build_harness(features=("unsafe_performance",))}
    # 1. model: every unchecked access in bounds, for every call the safe build does not panic on
    r = tlc("MC_Window", "MC_Window_obs.cfg" if quick else "MC_Window.cfg", workers=12, timeout=3000)
    if r.violation:
        chk.finding("Window:model:" + r.violation, {"stage": "MC", "counterexample": r.cex})
    else:
        chk.add_tlc("MC_Window", r, {"what": "InB at push/newest/oldest/Index/iterators for all capacities 0..254, every phase (WIndexInBounds, WellFormed)"})
    cfg = tokfam.write_cfg("c19_smm", pmax=255, inits="AllToks", subjects=["SMM"], lens="L1to5" if quick else "L1to6", ranks="R3z",
                           negzero=True, depth=0, first=False, invs="Conform SmmInv")
    tokfam.mc(chk, cfg, "SMM: find_index / find_insert_index results and the shifted range inside the slice in every reachable state "
              "(SmmInBounds is part of SmmNext's outcome)", {"Lens": "1..5" if quick else "1..6"}, workers=12)
    # 2. TLC-generated tables / behaviours replayed on the unsafe build (expectations are the model's)
    ya = builds["unsafe"]
    rr = tlc("MC_Window", "MC_Window_emit.cfg", workers=1, timeout=1200)
    chk.add_tlc("MC_Window_emit.cfg", rr, {})
    rows = [p for t, p in rr.printed if t == "ROW"]
    # the emitted tables contain panicking observers (Index out of range, empty-window calls): the harness catches them;
    # with unsafe_performance only the calls the model marks as panicking are left out of the comparison
    rf = os.path.join(wd, "rows.ndjson")
    safe_rows = [x for x in rows if x["n"] > 0]      # (an out-of-range Index panics before any unchecked access, in both builds)
    write_ndjson(rf, safe_rows)
    e = dict(os.environ, YV_SAFE_ONLY="1")
    p = subprocess.run([ya, "window-replay", rf], env=e, stdout=subprocess.PIPE, stderr=subprocess.PIPE, text=True, timeout=1800)
    if p.returncode != 0:
        chk.finding("unsafe:window-replay:crash", {"stderr": p.stderr[-1000:]})
    else:
        for m in lines_of(p.stdout):
            if m.get("kind") == "mismatch":
                chk.finding("unsafe:" + m["key"], {"stage": "A:replay(unsafe build)", "ctx": m.get("ctx")})
    jobs = [dict(subjects=[s], pmax=255, inits="ZeroOnly", lens="L1to3", ranks="R3z", negzero=True, depth=5 if quick else 6, first=False)
            for s in ["SMM", "Highest", "HighestIndex"]]
    tokfam.emit_replay(chk, ya, "c19tok", jobs, 3)
    # 3. identical transcripts of recorded programs under both builds
    res = transcripts(chk, builds, wd, {"YV_SAFE_ONLY": "1"}, quick)
    n = compare(chk, res, "default", "unsafe_performance must not change any result")
    chk.stage("A:transcripts", pairs=n, recorders=[r[0] for r in RECORDERS])
    chk.cov["traces_validated_against_impl"] += n
    if res.get("window", {}).get("unsafe"):
        chk.sample({"direction": "A", "transcript_head": read_ndjson(res["window"]["unsafe"])[:4]})
    chk.assumptions += ["calls on which the safe build panics are left out (the property's antecedent)",
                        "memory safety is claimed for the explored state space (model InBounds + conformance); Miri on the replays is an auxiliary monitor in the thorough tier"]
import subprocess
