"""C07 Accuracy does not decay with the length of the stream.
(i)  counters: reversal detectors with a scaled-down PeriodType explored by TLC far beyond saturation (MC_Tok_rev),
     and recorded streams of thousands of inputs on the real u8 counters validated against the definitions (Trace_Tok);
(ii) running sums / recurrences: instances that have processed 10^5 (quick) / 10^7 (thorough) inputs with regime changes
     are checkpointed: the spec rebuilds its state from the recent inputs alone and checks the following outputs against
     the definition with the allowance at step t (Trace_Num's ckpt action) -- i.e. a long past behaves like a fresh
     instance primed with the last window, and the error stays inside the linear bound of DESIGN section 4;
(iii) subjects whose state cannot be rebuilt from a window (Vidya and the other recurrences; every indicator): streams of
     thousands of steps made of LONG regimes (steady rallies / declines of > PeriodType::MAX bars without a pullback, flat
     stretches, scale jumps) validated from the first step against the recurrences (Trace_Num) and the indicator
     state machines (Trace_Ind, values and signals)."""
import os, json
from verif import *
import tokfam, numfam, indfam


def lines_of(out):
    return [json.loads(l) for l in out.splitlines() if l.startswith("{")]


ANCHORED = ["ParabolicSAR", "ChandeMomentumOscillator", "MoneyFlowIndex", "RelativeStrengthIndex"]
# signals driven by position counters (reversal detectors, highest/lowest indices)
COUNTER_SIGNALS = ["AwesomeOscillator", "PivotReversalStrategy", "Aroon", "TrendStrengthIndex", "DonchianChannel", "PriceChannelStrategy"]


def long_indicators(chk, yv, quick):
    wd = workdir("c07ind")
    names = [c["name"] for c in json.loads(run_harness(yv, ["ind-catalog"]))]
    os.environ["YV_LONG_REGIMES"] = "1"
    vfiles, sfiles = [], []
    try:
        for n in names:
            f = os.path.join(wd, "long_%s.ndjson" % n)
            # (the twin-peaks counters of AwesomeOscillator need ~800 bars of trend with ripple: every other stream starts with one)
            progs = (4 if n == "AwesomeOscillator" else 2 if n in ANCHORED else 1) if quick else 6
            ne = lines_of(run_harness(yv, ["ind-record", chk.seed * 100 + 7, progs, 1500 if quick else 5000, 1, f, n]))[0]["events"]
            vfiles.append((f, ne))
            if not quick or n in ANCHORED or n in COUNTER_SIGNALS:
                sfiles.append((f, ne))
    finally:
        os.environ.pop("YV_LONG_REGIMES", None)
    indfam.validate(chk, vfiles, "values", "long-stream-values", nproc=8 if quick else 14)
    indfam.validate(chk, sfiles, "signals", "long-stream-signals", nproc=8 if quick else 14)
    chk.stage("B:long-indicator-streams", indicators=len(names), steps_per_program=1500 if quick else 5000,
              regimes="steady rally/decline of 270..470 bars, flat, volatile, scale jumps")


def run(chk):
    quick = chk.tier == "quick"
    yv = build_harness()
    yr = yv if quick else build_harness(release=True)
    wd = workdir("c07")
    # long token streams over tiny alphabets full of signed zeros and ties (recorded first: the switch is an environment variable)
    os.environ["YV_TOK_ZEROS"] = "1"
    try:
        tokfam.record_validate(chk, yv, "c07z", "sel", 1 if quick else 4, 21, 1500 if quick else 6000, 4)
    finally:
        os.environ.pop("YV_TOK_ZEROS", None)
    # long token streams (selection / crossing / reversal) on the real counters
    f1 = background(tokfam.record_validate, chk, yv, "c07", "rev", 3 if quick else 8, 9, 1500 if quick else 20000, 4)
    f2 = background(tokfam.record_validate, chk, yv, "c07", "sel", 2 if quick else 6, 14, 1500 if quick else 20000, 4)
    # model: far beyond counter saturation, every stream
    tokfam.mc(chk, "MC_Tok_rev.cfg", "reversal detectors, PMAX scaled to 7: every stream of any length (state graph complete), "
              "positions renumbered before saturation", {"PMAX": 7}, workers=6)
    if not quick:
        tokfam.mc(chk, "MC_Tok_rev15.cfg", "same with PMAX = 15", {"PMAX": 15}, workers=10)
    # (iii) long streams validated from the first step
    s = chk.seed
    if quick:
        rjobs = [("rec", s * 100 + 70 + i, 4, 3000, 0, "Vidya") for i in range(3)] + [("rec", s * 100 + 80, 13, 1500, 0)]
    else:
        rjobs = [("rec", s * 100 + 70 + i, 4, 20000, 0, "Vidya") for i in range(6)] + [("rec", s * 100 + 80 + i, 13, 8000, 0) for i in range(4)]
    f3 = background(numfam.record_validate, chk, yv, "c07rec", rjobs, nproc=4)
    f4 = background(long_indicators, chk, yv, quick)
    # soak checkpoints: one trace per subject and run (a rejection of one subject does not cut short the others)
    jobs = []
    SOAK = ["SMA", "WMA", "SWMA", "TRIMA", "HMA", "LinReg", "Integral", "StDev", "MeanAbsDev", "LinearVolatility", "Momentum", "Derivative",
            "EMA", "DMA", "TMA", "DEMA", "TEMA", "RMA", "WSMA"]

    def rec(arg):
        i, subj = arg
        tf = os.path.join(wd, "soak_%d_%s.ndjson" % (i, subj))
        steps = (100000 + 7777 * i) if (quick or i >= 3) else (10000000 + 7777 * i)
        n = lines_of(run_harness(yr, ["soak-record", chk.seed * 10 + i, steps, tf, "small" if quick else "full", subj], timeout=3000))[0]["events"]
        return (tf, n, steps)
    for job in parallel([(i, sj) for i in (range(2) if quick else [0, 1, 2, 3, 4]) for sj in SOAK], rec, nproc=8):   # thorough: three 1e7-step runs + two 1e5-step ones
        jobs.append(job)

    def val(job):
        ok, info, r = tlc_trace("Trace_Num", "Trace_Num.cfg", job[0], timeout=6000)
        return job, ok, info, r
    for job, ok, info, r in parallel(jobs, val, nproc=8):
        if ok:
            chk.cov["events_validated"] += job[1]
            chk.cov["states"] += r.distinct
            chk.cov["transitions"] += r.generated
        else:
            evs = read_ndjson(job[0])
            k = info["matched"]
            st = max(i for i in range(k + 1) if evs[i]["ev"] == "ckpt")
            p = evs[st]
            # the key carries the length class of the soak: the open drift findings (WMA / HMA) concern 1e7-step streams only,
            # a rejection of a 1e5-step checkpoint is a different violation and must not be absorbed by them
            scale = "1e7" if job[2] >= 5000000 else "1e5"
            chk.finding("%s:soak:%s@%s" % (p["subject"], "panic" if p.get("panic") else "value", scale),
                        {"stage": "B:soak", "trace": job[0], "steps": job[2], "params": p["params"], "rejected_at": {kk: info[kk] for kk in ("matched", "total")}})
    chk.cov["traces_validated_against_impl"] += len(jobs)
    chk.stage("B:soak", traces=len(jobs), steps_per_instance=sorted(set(j[2] for j in jobs)), subjects=19, instances_per_subject=4)
    f1.result()
    f2.result()
    f3.result()
    f4.result()
    chk.sample({"direction": "B", "checkpoint": {k: v for k, v in [e for e in read_ndjson(jobs[0][0]) if e["ev"] == "ckpt"][0].items() if k != "warm"}})
    chk.assumptions += ["exponential kinds: inputs older than 24/alpha steps weigh < e^-48 and are dropped from the checkpoint",
                        "the allowance at step t is eps*(16k+8t)*S (linear in t); a design whose error grows faster would be rejected at 10^7 steps"]
