"""C20 PeriodType width and ValueType precision are only capacity and precision choices.
(a) builds with period_type_u16/u32/u64 (+ unsafe_performance) produce bit-identical transcripts to the default build for
    programs whose parameters fit the default type (generators pinned to PMAX = 255 through YV_PMAX);
(b) with period_type_u16, window lengths beyond 255 satisfy the same definitional specs: Window.tla (trace validation
    with PMAX = 65535), Tok subjects (Trace_Tok), numeric methods (Trace_Num);
(c) a value_type_f32 build satisfies the numeric specs at single precision (Trace_Num / Trace_Laws with F32 = TRUE).
The model side: MC_Window with the wider PMAX for capacities around 255/256 and at the top of the range."""
import os, json
from verif import *
from checks import c19
import numfam, tokfam


def lines_of(out):
    return [json.loads(l) for l in out.splitlines() if l.startswith("{")]


def cfg_file(name, text):
    p = os.path.join(workdir("cfg"), name)
    open(p, "w").write(text)
    return p


def run(chk):
    quick = chk.tier == "quick"
    wd = workdir("c20")
    feats = [("u16", ("period_type_u16",)), ("u32", ("period_type_u32",))] + ([] if quick else [("u64", ("period_type_u64",)), ("u16unsafe", ("period_type_u16", "unsafe_performance"))])
    builds = {"default": build_harness()}
    for tag, f in feats:
        builds[tag] = build_harness(features=f)
    f32 = build_harness(features=("value_type_f32",))
    # (a) identical transcripts for parameters that fit u8
    res = c19.transcripts(chk, builds, wd, {"YV_PMAX": "255", "YV_SAFE_ONLY": "1"}, quick)
    n = c19.compare(chk, res, "default", "a wider PeriodType must not change any result for parameters that fit the default type")
    chk.stage("A:transcripts", pairs=n, builds=list(builds))
    chk.cov["traces_validated_against_impl"] += n
    # model: Window for a 16-bit PeriodType around the old limit and at the top
    mc = cfg_file("c20_window.cfg", "CONSTANTS\n  PMAX = 65535\n  Caps <- WideCaps\n  FullIter <- NoCaps\n  EmitCaps <- NoCaps\nSPECIFICATION Spec\n"
                  "INVARIANTS TypeOK PushInv ObserverInv\nCHECK_DEADLOCK FALSE\n")
    # the ring arithmetic of Window for an ARBITRARY PeriodType width (PMAX any natural >= 3, any capacity): TLAPS lemmas over
    # the same definitions (WindowCore.tla) that MC_Window checks exhaustively for the 8-bit type
    nob = tlaps("Window_proofs", ["WindowCore", "Period"])
    chk.stage("TLAPS:Window_proofs", obligations_proved=nob, what="NewRing, PosInRange, SliceIndexRing, PushRing, EndsRing, IterRing for every PMAX and capacity")
    r = tlc("MC_Window", mc, workers=12, timeout=3000)
    if r.violation:
        chk.finding("Window:model16:" + r.violation, {"stage": "MC", "counterexample": r.cex})
    else:
        chk.add_tlc("MC_Window(PMAX=65535)", r, {"PMAX": 65535, "what": "capacities 254..257, 300, 1000 (every phase) with 16-bit period arithmetic"})
    # (b) lengths beyond 255 on the u16 build, validated against the same specs with PMAX = 65535
    y16 = builds["u16"]
    env16 = dict(os.environ, YV_PMAX="1000")
    jobs = []
    tw = os.path.join(wd, "w16.ndjson")
    subprocess.run([y16, "window-record", str(chk.seed), "8" if quick else "30", "60" if quick else "150", tw], env=env16, check=True, stdout=subprocess.DEVNULL)
    tcfg = cfg_file("Trace_Window16.cfg", "CONSTANTS\n  PMAX = 65535\nSPECIFICATION Spec\nINVARIANTS CapOK NotDone\nPOSTCONDITION TraceAccepted\nCHECK_DEADLOCK FALSE\n")
    jobs.append(("Trace_Window", tcfg, tw, "Window"))
    tt = os.path.join(wd, "tok16.ndjson")
    subprocess.run([y16, "tok-record", "sel", str(chk.seed), "7" if quick else "21", "300" if quick else "700", tt], env=dict(os.environ, YV_PMAX="300"), check=True, stdout=subprocess.DEVNULL)
    kcfg = cfg_file("Trace_Tok16.cfg", "CONSTANTS\n  PMAX = 65535\n  SMM_TOTAL_ORDER = TRUE\n  REV_REBASE = TRUE\nSPECIFICATION Spec\nINVARIANT NotDone\nPOSTCONDITION TraceAccepted\nCHECK_DEADLOCK FALSE\n")
    jobs.append(("Trace_Tok", kcfg, tt, "selection methods"))
    # numeric methods with lengths up to 999 (the O(n) definitions; the O(n^2) ones -- TRIMA, HMA, medians -- up to 299)
    tn = os.path.join(wd, "num16_SMA.ndjson")
    for subj, pmax in [("SMA", 1000), ("WMA", 1000), ("HMA", 400), ("LinReg", 1000), ("StDev", 1000), ("Momentum", 1000), ("TRIMA", 300), ("MedianAbsDev", 300)][: 5 if quick else 8]:
        tn2 = os.path.join(wd, "num16_%s.ndjson" % subj)
        subprocess.run([y16, "num-record", "fin", str(chk.seed), "2", "10" if quick else "30", "1", tn2, subj], env=dict(os.environ, YV_PMAX=str(pmax)),
                       check=True, stdout=subprocess.DEVNULL)
        jobs.append(("Trace_Num", "Trace_Num.cfg", tn2, "numeric " + subj))
    # (c) single precision
    ncfg = cfg_file("Trace_Num32.cfg", "CONSTANTS\n  F32 = TRUE\n  CHECK_NONNEG = FALSE\nSPECIFICATION Spec\nINVARIANT NotDone\nPOSTCONDITION TraceAccepted\nCHECK_DEADLOCK FALSE\n")
    for i, fam in enumerate(["fin", "rec", "fin", "rec"][: 2 if quick else 4]):
        tf = os.path.join(wd, "f32_%d.ndjson" % i)
        subprocess.run([f32, "num-record", fam, str(chk.seed * 10 + i), "57", "40" if quick else "200", "0", tf], check=True, stdout=subprocess.DEVNULL)
        jobs.append(("Trace_Num", ncfg, tf, "value_type_f32 " + fam))

    # selections (incl. the median's sorted slice and binary searches) at single precision: positive and negative values, ties, +-0
    for fam in ["sel", "rev"]:
        tt32 = os.path.join(wd, "tok32_%s.ndjson" % fam)
        subprocess.run([f32, "tok-record", fam, str(chk.seed + 5), "14" if quick else "42", "200" if quick else "600", tt32], check=True, stdout=subprocess.DEVNULL)
        jobs.append(("Trace_Tok", "Trace_Tok.cfg", tt32, "value_type_f32 " + fam))
    # Action::from(ValueType) at single precision: the From<f64> step function of MC_Action replayed on the f32 build
    ar = tlc("MC_Action", "MC_Action_float.cfg", workers=4, timeout=1200, tags=("BAD", "FROW"))
    if ar.error or ar.violation:
        raise ToolError("MC_Action_float: %s" % (ar.error or ar.violation))
    frows = [p for t, p in ar.printed if t == "FROW"]
    af = os.path.join(wd, "frows.ndjson")
    write_ndjson(af, frows)
    for m in lines_of(run_harness(f32, ["action-replay", af])):
        if m.get("kind") == "mismatch":
            chk.finding("f32build:" + m["key"], {"stage": "A:action-replay(value_type_f32)", "ctx": m.get("ctx"), "expected": m.get("expected"), "actual": m.get("actual")})
    chk.add_tlc("MC_Action_float.cfg", ar, {"what": "Action::from(ValueType) step function, replayed on the value_type_f32 build"})
    chk.cov["replayed_behaviours"] += len(frows)

    def val(j):
        ok, info, r = tlc_trace(j[0], j[1], j[2], timeout=3000)
        return j, ok, info, r
    for j, ok, info, r in parallel(jobs, val, nproc=8):
        if ok:
            chk.cov["states"] += r.distinct
            chk.cov["transitions"] += r.generated
            chk.cov["events_validated"] += r.distinct
        else:
            evs = read_ndjson(j[2])
            k = info["matched"]
            news = [i for i in range(k + 1) if evs[i].get("ev") in ("new",)]
            subj = evs[news[-1]].get("subject", j[3]) if news else j[3]
            chk.finding("%s:%s:trace" % (j[3].split()[0], subj), {"stage": "B:trace", "spec": j[0], "cfg": os.path.basename(j[1]), "trace": j[2], "rejected_at": info})
    chk.cov["traces_validated_against_impl"] += len(jobs)
    chk.stage("B", traces=[j[3] for j in jobs])
    chk.sample({"direction": "B", "events": read_ndjson(tn)[:3]})
    chk.assumptions += ["generators are pinned to PMAX = 255 for the identity comparison and to 1000 for the beyond-255 runs",
                        "f32 runs use eps = 2^-23 in the allowance; inputs are the f32 values exactly"]
import subprocess
