"""C05 Indicator raw values equal the documented formulas (spec/I_*.tla via Trace_Ind, CHECK_VALUES)."""
from verif import *
import indfam


def run(chk):
    quick = chk.tier == "quick"
    yv = build_harness()
    files = indfam.record(chk, yv, "c05", 12 if quick else 48, 36, 60 if quick else 250)
    indfam.validate(chk, files, "values", "values")
    chk.sample({"direction": "B", "events": read_ndjson(files[0][0])[:2]})
    chk.assumptions += ["every indicator has a TLA+ module spec/I_<Name>.tla carrying its own state from init in exact fixed point",
                        "allowance eps*(16K+8t)*scale with K = sum of the configuration's periods; quotients by cross-multiplication, exempt near a zero denominator",
                        "configurations: default and randomised valid ones reached through set(name, text), all MA kinds"]
