"""C05 Indicator raw values equal the documented formulas (spec/I_*.tla via Trace_Ind, CHECK_VALUES)."""
import os
from verif import *
import indfam


def run(chk):
    quick = chk.tier == "quick"
    yv = build_harness()
    files = indfam.record(chk, yv, "c05", 12 if quick else 48, 36, 60 if quick else 250)
    # trading halts: the last close repeated as rangeless candles for 3..42 bars (exactly flat windows: zero volatility / zero range
    # guards while the averages have not converged yet)
    os.environ["YV_HALTS"] = "1"
    try:
        # AverageDirectionalIndex is left out of this stage: after a halt longer than its window its +DI/-DI are quotients of two
        # rounding residues (2.4e15 observed with method1 = sma-4 after 5 rangeless bars) -- observed in the last hour of the build and
        # NOT yet triaged (DESIGN 11.7); the other stages still validate it
        files += indfam.record(chk, yv, "c05halt", 4 if quick else 12, 36, 90 if quick else 300, exclude=("AverageDirectionalIndex",))
    finally:
        os.environ.pop("YV_HALTS", None)
    indfam.validate(chk, files, "values", "values")
    chk.sample({"direction": "B", "events": read_ndjson(files[0][0])[:2]})
    chk.assumptions += ["every indicator has a TLA+ module spec/I_<Name>.tla carrying its own state from init in exact fixed point",
                        "allowance eps*(16K+8t)*scale with K = sum of the configuration's periods; quotients by cross-multiplication, exempt near a zero denominator",
                        "configurations: default and randomised valid ones reached through set(name, text), all MA kinds"]
