"""C14 Crossing and reversal detectors are definitional for any stream length
(spec/Cross.tla, Reversal.tla, MC_Tok, Trace_Tok)."""
from verif import *
import tokfam

CROSS = ["CrossAbove", "CrossUnder", "Cross"]
REV = ["UpperReversalSignal", "LowerReversalSignal", "ReversalSignal"]


def run(chk):
    quick = chk.tier == "quick"
    yv = build_harness()
    # direction B: long random streams (reversal streams run far beyond PeriodType::MAX steps)
    fb1 = background(tokfam.record_validate, chk, yv, "c14", "cross", 2 if quick else 6, 12, 400 if quick else 3000, 4)
    fb2 = background(tokfam.record_validate, chk, yv, "c14", "rev", 4 if quick else 12, 9 if quick else 24,
                     700 if quick else 3000, 4)
    # direction A
    jobs = [dict(subjects=[s], pmax=255, inits="ZeroOne", lens="L1to2", ranks="R3z", negzero=True,
                 depth=2 if quick else 3, first=False) for s in CROSS]
    jobs += [dict(subjects=[s], pmax=255, inits="ZeroOne", lens="L1to2", ranks="R3", negzero=False,
                  depth=8 if quick else 11, first=True) for s in REV]
    fa = background(tokfam.emit_replay, chk, yv, "c14", jobs, 6, False, True)
    # model checking
    tokfam.mc(chk, "MC_Tok_cross.cfg", "crossing detectors: every pair of streams of any length over ranks -1..2 and -0.0; "
              "Cross(a,b) = -Cross(b,a)", {"PMAX": 255}, workers=6)
    tokfam.mc(chk, "MC_Tok_rev.cfg", "reversal detectors with PeriodType scaled down to PMAX=7: every stream of ANY length over "
              "3 ranks, all (left,right) <= 3 with left+right+1 <= 6 -- far beyond counter saturation",
              {"PMAX": 7, "Lens": "1..3", "Ranks": "0..2"}, workers=6)
    if not quick:
        tokfam.mc(chk, "MC_Tok_rev15.cfg", "same with PMAX=15, (left,right) <= 4", {"PMAX": 15, "Lens": "1..4"}, workers=12)
    fa.result()
    fb1.result()
    fb2.result()
    chk.cov["exhaustive"] = True
    chk.assumptions += ["floating-point subtraction of finite values is exact in sign, so the crossing detectors depend on the order of (value, base) only",
                        "the reversal counters are modelled in a scaled-down PeriodType (PMAX 7/15) for exhaustive exploration past saturation; "
                        "the real u8 counters are exercised by direction-B streams of 700..3000 inputs",
                        "reversal programs start with the construction value as first input (what Method::new prescribes)"]
