"""C01 Window is a faithful fixed-capacity FIFO (spec/Window.tla, MC_Window, Trace_Window)."""
import os, json
from verif import *


def harness_lines(out):
    return [json.loads(l) for l in out.splitlines() if l.startswith("{")]


def report_mismatches(chk, lines, stage):
    for m in lines:
        if m.get("kind") == "mismatch":
            chk.finding(m["key"], {"stage": stage, "ctx": m.get("ctx"), "expected": m.get("expected"),
                                   "actual": m.get("actual")})


def run(chk):
    quick = chk.tier == "quick"
    yv = build_harness()
    wd = workdir("c01")

    # single-worker jobs (table emission, trace validation) run beside the 16-worker model check
    fa = background(stage_a, chk, yv, wd)
    fb = background(stage_b, chk, yv, wd, quick)

    # 1. model checking: implementation-shaped window == abstract sequence, all capacities/phases
    if quick:
        cfgs = [("MC_Window_obs.cfg", "all capacities 0..254, every phase: push/newest/oldest/get/index/len"),
                ("MC_Window_quick.cfg", "capacities 0..24,127,128: + every iterator split, from_parts, serde")]
    else:
        cfgs = [("MC_Window.cfg", "all capacities 0..254, every phase, all invariants; every iterator split for "
                                  "0..24,63,64,127,128,253,254")]
    for cfg, what in cfgs:
        r = tlc("MC_Window", cfg, workers=12, timeout=3000)
        if r.violation:
            chk.finding("Window:model:" + r.violation, {"stage": "MC", "config": cfg, "counterexample": r.cex})
        else:
            chk.add_tlc(cfg, r, {"PMAX": 255, "what": what})
    chk.cov["exhaustive"] = True
    fa.result()
    fb.result()
    chk.assumptions += ["TLC 1.8.0; labels stand for all element values (Window is parametric in T)",
                        "harness adapters (observe/record) report the real API's results faithfully"]


def stage_a(chk, yv, wd):
    # 2. direction A: TLC prints the observer table of every state for small/boundary capacities;
    #    the harness replays them on Window<u32|String|(u8,u64)|f64>
    r = tlc("MC_Window", "MC_Window_emit.cfg", workers=1, timeout=1200)
    chk.add_tlc("MC_Window_emit.cfg", r, {"PMAX": 255, "EmitCaps": "0..9,254"})
    rows = [p for t, p in r.printed if t == "ROW"]
    if len(rows) != r.distinct or not rows:
        raise ToolError("emit: %d rows for %d states" % (len(rows), r.distinct))
    rows_file = os.path.join(wd, "rows.ndjson")
    write_ndjson(rows_file, rows)
    lines = harness_lines(run_harness(yv, ["window-replay", rows_file], timeout=1200))
    report_mismatches(chk, lines, "A:replay")
    summ = [l for l in lines if l.get("kind") == "summary"][0]
    chk.stage("A", rows=len(rows), comparisons=summ["checked"], mismatches=summ["mismatches"], element_types=4)
    chk.cov["replayed_behaviours"] += len(rows) * 4
    chk.cov["traces_validated_against_impl"] += len(rows) * 4
    small = [x for x in rows if x["n"] == 3 and x["p"] == 4][0]
    chk.sample({"direction": "A", "row": {k: small[k] for k in ("n", "p", "pushout", "newest", "oldest", "get", "index", "buf")}})


def stage_b(chk, yv, wd, quick):
    # 3. direction B: random programs on the real type, validated against the abstract machine
    nfiles = 3 if quick else 16
    programs, steps = (12, 60) if quick else (40, 120)
    jobs = []
    for i in range(nfiles):
        f = os.path.join(wd, "trace_%d.ndjson" % i)
        out = harness_lines(run_harness(yv, ["window-record", chk.seed * 1000 + i, programs, steps, f]))
        jobs.append((f, out[0]["events"]))

    def validate(job):
        f, n = job
        ok, info, r = tlc_trace("Trace_Window", "Trace_Window.cfg", f)
        return (f, n, ok, info, r)

    total = 0
    for f, n, ok, info, r in parallel(jobs, validate, nproc=3 if quick else 8):
        if ok:
            total += n
            chk.cov["transitions"] += r.generated
            chk.cov["states"] += r.distinct
        else:
            ev = info.get("event", {})
            chk.finding("Window:%s:trace" % ev.get("ev", "?"), {"stage": "B:trace", "trace": f, "rejected_at": info})
    chk.cov["events_validated"] += total
    chk.cov["traces_validated_against_impl"] += len(jobs)
    chk.stage("B", traces=len(jobs), events=total)
    first = read_ndjson(jobs[0][0])[:6]
    chk.sample({"direction": "B", "events": first})
