"""C03 Recursive methods follow their documented recurrences
(spec/Recursive.tla, NumSubjects.tla, Trace_Num.tla)."""
import os
from verif import *
import numfam


def run(chk):
    quick = chk.tier == "quick"
    yv = build_harness()
    s = chk.seed
    if quick:
        jobs = [("rec", s * 100 + i, 13, 110, 0) for i in range(8)] + [("rec", s * 100 + 50 + i, 13, 60, 1) for i in range(4)] + \
               [("rec", s * 100 + 90, 13, 1100, 0)]         # every subject once beyond 1024 steps (periodic housekeeping, counters)
    else:
        jobs = [("rec", s * 100 + i, 26, 400, 0) for i in range(24)] + [("rec", s * 100 + 50 + i, 26, 400, 1) for i in range(16)]
    numfam.record_validate(chk, yv, "c03", jobs)
    ev = read_ndjson(os.path.join(workdir("c03"), "trace_0.ndjson"))
    chk.sample({"direction": "B", "events": ev[1:4]})
    chk.assumptions += ["the spec carries the recurrence state from construction in 24-decimal fixed point (truncation 1e-24 per operation, contractive recurrences)",
                        "allowance of DESIGN.md section 4 with D = 0 for contractive recurrences"]
