"""C16 Action is a consistent signed-strength algebra (spec/Action.tla, MC_Action)."""
import os, json
from verif import *


def lines_of(out):
    return [json.loads(l) for l in out.splitlines() if l.startswith("{")]


def run(chk):
    yv = build_harness()
    wd = workdir("c16")
    # 1. complete model check: 513 actions, 263 169 pairs, edge triples, From<f64> grid
    bad = []
    rows = []
    for mode, what in [("pairs", "all 513 actions and all 263169 pairs: Neg, Sub, ratio, analog/sign, Eq laws, Cmp antisymmetry"),
                       ("triples", "15^3 triples over boundary strengths: transitivity of Eq and Cmp"),
                       ("float", "From<f64> as a step function on every v = k/1020, k in -1300..1300: totality, sign, monotonicity, saturation, fixed points")]:
        r = tlc("MC_Action", "MC_Action_%s.cfg" % mode, workers=8, timeout=1200, tags=("BAD", "FROW"))
        if r.violation:
            chk.finding("Action:model:" + r.violation, {"stage": "MC", "mode": mode, "counterexample": r.cex})
            continue
        chk.add_tlc("MC_Action_%s.cfg" % mode, r, {"what": what})
        bad += [p for t, p in r.printed if t == "BAD"]
        rows += [p for t, p in r.printed if t == "FROW"]
    chk.cov["exhaustive"] = True
    # 2. laws the as-coded model violates: each violating tuple is confirmed on the real type before it is reported
    by_law = {}
    for b in bad:
        by_law.setdefault(b["law"], set()).add((b["a"], b["b"]) if b["law"] != "cmp-transitive" else (b["a"], b["b"], b["c"]))
    for law in ("eq-ord-consistent", "cmp-transitive"):
        real = lines_of(run_harness(yv, ["action-probe", law]))[0]["violations"]
        real = set(tuple(x) for x in real)
        model = by_law.get(law, set())
        if real != model:
            chk.finding("Action:%s:model-vs-code" % law, {"stage": "probe", "only_model": sorted(model - real)[:10],
                                                          "only_code": sorted(real - model)[:10]})
        for t in sorted(real):
            key = "Action:%s:%s" % (law, "/".join(str(x) for x in sorted(t)))
            chk.finding(key, {"stage": "MC+probe", "law": law, "tuple": list(t),
                              "codes": "Buy(s)=s, Sell(s)=-1-s, None=600",
                              "what": "the law fails in the as-coded TLA+ model and on the real type"})
        chk.stage("probe:" + law, model_violations=len(model), real_violations=len(real))
    # 3. direction A: complete tables replayed on the real type
    r = tlc("MC_Action", "MC_Action_emit.cfg", workers=1, timeout=600)
    chk.add_tlc("MC_Action_emit.cfg", r, {"what": "per action: neg, ratio, analog, Sub/Eq/Cmp rows against all 513 actions"})
    arows = [p for t, p in r.printed if t == "ROW"]
    if len(arows) != 513 or len(rows) != 2601:
        raise ToolError("emit: %d action rows, %d float rows" % (len(arows), len(rows)))
    f = os.path.join(wd, "rows.ndjson")
    write_ndjson(f, arows + rows)
    lines = lines_of(run_harness(yv, ["action-replay", f]))
    for m in lines:
        if m.get("kind") == "mismatch":
            chk.finding(m["key"], {"stage": "A:replay", "ctx": m.get("ctx"), "expected": m.get("expected"), "actual": m.get("actual")})
    summ = [l for l in lines if l.get("kind") == "summary"][0]
    chk.stage("A", action_rows=len(arows), float_rows=len(rows), comparisons=summ["checked"])
    chk.cov["replayed_behaviours"] += len(arows) + len(rows)
    chk.cov["traces_validated_against_impl"] += len(arows) + len(rows)
    chk.sample({"direction": "A", "row": {k: (v if not isinstance(v, list) else v[:8]) for k, v in arows[5].items()}})
    chk.sample({"direction": "A", "float_row": rows[1500]})
    # 4. direction B: From<f32> / From<f64> as a step function of the bit pattern. Every non-NaN f32 pattern (4 278 190 082)
    #    and every f32 NaN is visited; the maximal runs of equal results are decided by Trace_ActionSteps (exact arithmetic on
    #    the runs' end points, tiling of the whole line); f64: windows of consecutive patterns around every break point,
    #    fixed point, +-1, +-0, subnormals, +-inf (window 3000 quick / 200000 thorough patterns each side)
    f = os.path.join(wd, "steps.ndjson")
    summ = lines_of(run_harness(yv, ["action-steps", f, "3000" if chk.tier == "quick" else "200000"], timeout=1800))[-1]
    ok, info, r = tlc_trace("Trace_ActionSteps", "Trace_ActionSteps.cfg", f, timeout=1200)
    if ok:
        chk.add_tlc("Trace_ActionSteps.cfg", r, {"what": "runs of equal From<f32>/From<f64> results, end points decided exactly"})
    else:
        ev = info.get("event", {})
        chk.finding("Action:from_%s:steps" % ev.get("ty", "?"), {"stage": "B:steps", "matched": info.get("matched"), "event": ev,
                    "what": "a maximal run of equal results is not the run the specification's step function gives (end points as m*2^e), "
                            "or the runs do not tile the line / the Option and reference forms disagree / a NaN is not None"})
    chk.stage("B:steps", **{k: v for k, v in summ.items() if k != "kind"})
    chk.cov["traces_validated_against_impl"] += summ["runs"]
    chk.sample({"direction": "B", "steps": summ})
    chk.assumptions += ["the f32 sweep relies on the monotonicity of the SPECIFIED step function between the two end points of a run "
                        "(the implementation is observed at every pattern)"]
    chk.assumptions += ["actions coded as integers (Buy(s)=s, Sell(s)=-1-s, None=600)",
                        "From<f64> is specified as a step function of the exact real value; at the rational break points (2k+1)/510 either neighbour is admitted"]
