"""C17 Timeseries converters keep the information they claim to keep
(spec/Convert.tla, MC_Convert, Trace_Convert; HeikinAshi's recursion and validity in Trace_Num)."""
import os, json
from verif import *
import numfam


def lines_of(out):
    return [json.loads(l) for l in out.splitlines() if l.startswith("{")]


def run(chk):
    quick = chk.tier == "quick"
    yv = build_harness()
    wd = workdir("c17")
    # HeikinAshi: recursion + "valid in => valid out" on recorded executions (Trace_Num's candle kind)
    fb = background(numfam.record_validate, chk, yv, "c17ha", [("rec", chk.seed * 100 + i, 4 if quick else 12, 150 if quick else 600, 0, "HeikinAshi")
                                                               for i in range(2 if quick else 6)], "Trace_Num.cfg", 4)
    # CollapseTimeframe: impl-shaped = definition on every stream (MC), behaviours replayed (streaming, over, both batch forms)
    r = tlc("MC_Convert", "MC_Convert.cfg", workers=1, timeout=900)
    if r.violation:
        chk.finding("Convert:model:" + r.violation, {"stage": "MC", "counterexample": r.cex})
    else:
        chk.add_tlc("MC_Convert.cfg", r, {"what": "CollapseTimeframe periods 1..3, every stream of 6 candles over a 4-candle alphabet; batch = streaming; "
                                                  "RenkoOutput iterator protocol for every (len<=4, pos, n<=6)"})
        rows = [p for t, p in r.printed if t == "REPLAY"]
        f = os.path.join(wd, "behaviours.ndjson")
        write_ndjson(f, rows)
        lines = lines_of(run_harness(yv, ["convert-replay", f], timeout=1200))
        for m in lines:
            if m.get("kind") == "mismatch":
                chk.finding(m["key"], {"stage": "A:replay", "ctx": m.get("ctx"), "expected": m.get("expected"), "actual": m.get("actual")})
        chk.stage("A", behaviours=len(rows))
        chk.cov["replayed_behaviours"] += len(rows)
        chk.cov["traces_validated_against_impl"] += len(rows)
        chk.sample({"direction": "A", "behaviour": {k: rows[100][k] for k in ("period", "xs", "batch")}})
    # Renko + CollapseTimeframe with large periods on float data (direction B)
    jobs = []
    for i in range(4 if quick else 16):
        tf = os.path.join(wd, "trace_%d.ndjson" % i)
        n = lines_of(run_harness(yv, ["convert-record", chk.seed * 100 + i, 9 if quick else 30, 120 if quick else 500, tf]))[0]["events"]
        jobs.append((tf, n))

    def val(job):
        ok, info, r = tlc_trace("Trace_Convert", "Trace_Convert.cfg", job[0], timeout=3000)
        return job, ok, info, r
    for job, ok, info, r in parallel(jobs, val, nproc=8):
        if ok:
            chk.cov["events_validated"] += job[1]
            chk.cov["states"] += r.distinct
            chk.cov["transitions"] += r.generated
        else:
            ev = info["event"]
            site = {"ct_new": "CollapseTimeframe:new", "ct_next": "CollapseTimeframe:next", "rk_new": "Renko:new", "rk_next": "Renko:next",
                    "rk_iter": "RenkoOutput:iter"}.get(ev["ev"], ev["ev"])
            cls = "panic" if (ev.get("panic") or ev.get("len") == -1 or ev.get("hint") == -1 or (isinstance(ev.get("y"), dict) and "panic" in ev["y"])) else "value"
            chk.finding("%s:%s" % (site, cls), {"stage": "B:trace", "trace": job[0], "rejected_at": info})
    chk.cov["traces_validated_against_impl"] += len(jobs)
    chk.stage("B", traces=len(jobs))
    chk.sample({"direction": "B", "events": [e for e in read_ndjson(jobs[0][0]) if e["ev"] == "rk_next" and e["len"] > 0][:1]})
    fb.result()
    chk.assumptions += ["Renko prices are aimed exactly at, one ulp below and one ulp above the instance's current boundaries, read through Serialize (input generation only)",
                        "threshold decisions within the rounding allowance of the boundary are exempt from the which-side claim, never from the structural ones"]
