"""C06 Indicator signals fire exactly under their documented conditions (spec/I_*.tla via Trace_Ind, CHECK_SIGNALS)."""
import os
from verif import *
import indfam


COUNTERS = ["WoodiesCCI", "AwesomeOscillator", "PivotReversalStrategy", "Aroon", "TrendStrengthIndex", "FisherTransform", "Kaufman"]


def run(chk):
    quick = chk.tier == "quick"
    yv = build_harness()
    files = indfam.record(chk, yv, "c06", 12 if quick else 48, 36, 90 if quick else 300)
    # indicators whose signals are driven by internal counters / position indices also run on long-regime streams (rallies and
    # declines of hundreds of bars: a counter of PeriodType width must not wrap into a second signal)
    os.environ["YV_LONG_REGIMES"] = "1"
    try:
        for name in COUNTERS:
            files += indfam.record(chk, yv, "c06long", 1 if quick else 3, 2, 1200 if quick else 4000, only=name)
            # more configurations on shorter regime streams (parameter orders the defaults never have: over_zone_period > period, ...)
            os.environ["YV_CFG_WIDE"] = "1"
            try:
                files += indfam.record(chk, yv, "c06cfg", 1 if quick else 3, 9, 600 if quick else 1500, only=name)
            finally:
                os.environ.pop("YV_CFG_WIDE", None)
    finally:
        os.environ.pop("YV_LONG_REGIMES", None)
    indfam.validate(chk, files, "signals", "signals")
    # known finding: TrendStrengthIndex's signals contradict their documentation (inverted polarity; the second signal is gated by
    # the price window instead of the value).  The module carries both rules; the documented one is validated on a dedicated trace:
    # as long as the code rejects it, the finding is re-observed.
    import subprocess
    tf = os.path.join(workdir("c06"), "tstrength.ndjson")
    run_harness(yv, ["ind-record", chk.seed, 4, 120, 0, tf, "TrendStrengthIndex"])
    ok, info, r = tlc_trace("Trace_Ind", indfam.cfg_for("signals", tstrength_doc=True), tf, timeout=1200)
    if not ok:
        chk.finding("TrendStrengthIndex:signals:documented-rule", {"stage": "B:trace(documented rule)", "trace": tf, "rejected_at": info})
    chk.sample({"direction": "B", "events": read_ndjson(files[0][0])[:2]})
    chk.assumptions += ["signals are specified as state machines over the indicator's own logged values, the candle and the config: exact comparisons of logged floats "
                        "through their ordering keys; comparisons against float-computed thresholds branch when within rounding"]
