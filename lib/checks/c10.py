"""C10 Invalid parameters are rejected with an error; accepted instances never panic
(spec/Params.tla, MC_Params: complete outcome tables replayed on the real constructors)."""
import os, json
from verif import *


def lines_of(out):
    return [json.loads(l) for l in out.splitlines() if l.startswith("{")]


def panic_classes(rows):
    """model-level panics: subject -> class string describing exactly which parameter values panic"""
    res = {}
    for r in rows:
        name = ("MA::" if r.get("ma") else "") + r["subject"]
        if "outs" in r:
            for b, o in enumerate(r["outs"]):
                if o == "panic":
                    res.setdefault(name, []).append((r["a"], b))
        elif r["out"] == "panic":
            res.setdefault(name, []).append((r["a"],))
    out = {}
    for name, vals in res.items():
        vals.sort()
        if len(vals[0]) == 1:
            out[name] = "length=" + ",".join(str(v[0]) for v in vals)
        else:
            sums = set(a + b for a, b in vals)
            out[name] = ("left+right=%d" % sums.pop()) if len(sums) == 1 else "pairs=" + ";".join("%d/%d" % v for v in vals[:40])
    return out


def run(chk):
    quick = chk.tier == "quick"
    yv = build_harness()
    wd = workdir("c10")
    r = tlc("MC_Params", "MC_Params.cfg", workers=1, timeout=900)
    if r.violation:
        chk.finding("Params:model:" + r.violation, {"stage": "MC", "counterexample": r.cex})
        return
    chk.add_tlc("MC_Params.cfg", r, {"PMAX": 255, "what": "every method constructor and MA::init on all 256 lengths (+256, 300 for counts); all 65536 pairs for TSI and the reversal detectors"})
    chk.cov["exhaustive"] = True
    rows = [p for t, p in r.printed if t == "ROW"]
    f = os.path.join(wd, "rows.ndjson")
    write_ndjson(f, rows)
    lines = lines_of(run_harness(yv, ["params-replay", f, chk.seed, 700 if quick else 3000], timeout=3000))
    for m in lines:
        if m.get("kind") == "mismatch":
            ctx = m.get("ctx") or {}
            key = m["key"]
            if key.endswith(":outcome"):
                key += "@" + json.dumps(ctx.get("params", ctx.get("a", ctx.get("length"))))
            chk.finding(key, {"stage": "A:replay", "ctx": ctx, "expected": m.get("expected"), "actual": m.get("actual")})
    summ = [l for l in lines if l.get("kind") == "summary"][0]
    # the model's own verdict: parameter values on which a constructor panics (confirmed by the replay above: the real
    # outcome equals the model's on every value, else an outcome mismatch has been reported)
    for name, cls in sorted(panic_classes(rows).items()):
        chk.finding("%s:new:panic@%s" % (name, cls), {"stage": "MC+A", "subject": name, "class": cls,
                                                      "what": "the constructor panics (dev profile) instead of returning Err"})
    # text parsing of parameters never panics: Parse.tla's enumerated texts (canonical, single edits, short strings)
    prow = []
    for cfg in ("MC_Parse_canon.cfg", "MC_Parse_edit.cfg") + (() if quick else ("MC_Parse_short.cfg",)):
        pr = tlc("MC_Parse", cfg, workers=1, timeout=900)
        if pr.error or pr.violation:
            raise ToolError("%s: %s" % (cfg, pr.error or pr.violation))
        chk.add_tlc(cfg, pr, {"what": "texts for MA::from_str / Source::from_str with the grammar's verdict"})
        prow += [p for t, p in pr.printed if t == "ROW"]
    pf = os.path.join(wd, "texts.ndjson")
    write_ndjson(pf, prow)
    for m in lines_of(run_harness(yv, ["candle-replay", pf], timeout=1200)):
        # a wrong parse result is C18's business; a panic on any text is C10's
        if m.get("kind") == "mismatch" and m["key"].endswith(":panic"):
            chk.finding(m["key"], {"stage": "A:texts", "ctx": m.get("ctx")})
    chk.stage("A:texts", texts=len(prow))
    # indicator level: validate = false => init Err; init never panics; accepted instances never panic (MC_IndParams enumerates
    # every single- and two-field deviation from the default configuration over a boundary grid)
    cat = os.path.join(wd, "catalog.json")
    open(cat, "w").write(run_harness(yv, ["ind-catalog"]))
    ir = tlc("MC_IndParams", "MC_IndParams.cfg", workers=1, env={"CATALOG": cat}, timeout=1200)
    if ir.error or ir.violation:
        raise ToolError("MC_IndParams: %s" % (ir.error or ir.violation))
    chk.add_tlc("MC_IndParams.cfg", ir, {"what": "36 indicators: every 1- and 2-field deviation from default over boundary grids per parameter type"})
    irows = [p for t, p in ir.printed if t == "REPLAY"]
    inf = os.path.join(wd, "indparams.ndjson")
    write_ndjson(inf, irows)
    ilines = lines_of(run_harness(yv, ["indparams-replay", inf, chk.seed, 200 if quick else 1000], timeout=3000))
    for m in ilines:
        if m.get("kind") == "mismatch":
            chk.finding(m["key"], {"stage": "A:indicator-configs", "ctx": m.get("ctx")})
    isumm = [l for l in ilines if l.get("kind") == "summary"][0]
    # accepted selection methods never panic on ANY stream over ordered tokens with ties and signed zeros: the TLC-enumerated
    # behaviours of MC_Tok (as in C04) replayed, panics only (a wrong value without a panic is C04's finding, not C10's)
    import tokfam
    tjobs = [dict(subjects=[sj], pmax=255, inits="ZeroOnly", lens="L1to3", ranks="R3z", negzero=True, depth=6, first=False)
             for sj in ["SMM", "Highest", "Lowest", "HighestIndex", "LowestIndex", "HighestLowestDelta"]]
    tokfam.emit_replay(chk, yv, "c10tok", tjobs, 6, False, False, lambda key: ":panic" in key or ":rejected" in key)
    # ... and on long random token streams (ties, plateaus, signed zeros, every length class): a caught panic is logged as the
    # sentinel [-999] with "panic": true
    tok_steps = 0
    for ti, (zeros, progs, steps) in enumerate([(False, 140 if quick else 560, 1500), (True, 630 if quick else 2520, 400)]):
        tf = os.path.join(wd, "tok_long_%d.ndjson" % ti)
        if zeros:
            os.environ["YV_TOK_ZEROS"] = "1"      # tiny alphabets of signed zeros and ties, windows of 1..29
        try:
            run_harness(yv, ["tok-record", "sel", chk.seed * 100 + 9 + ti, progs, steps, tf], timeout=3000)
        finally:
            os.environ.pop("YV_TOK_ZEROS", None)
        cur = None
        for l in open(tf):
            if '"new"' in l:
                cur = json.loads(l)
            elif '"panic":true' in l:
                chk.finding("%s:next:panic" % cur["subject"], {"stage": "A:token-streams", "params": cur["params"], "trace": tf})
                break
            else:
                tok_steps += 1
    chk.stage("A:token-streams", steps=tok_steps)
    # accepted instances on LONG streams (trends with ripple: hundreds of local peaks on one side of zero; steady rallies of
    # > PeriodType::MAX bars): internal counters of PeriodType width must not overflow
    os.environ["YV_LONG_REGIMES"] = "1"
    try:
        lf = os.path.join(wd, "long.ndjson")
        run_harness(yv, ["ind-record", chk.seed * 100 + 3, 180 if quick else 540, 1500 if quick else 4000, 1, lf], timeout=3000)
    finally:
        os.environ.pop("YV_LONG_REGIMES", None)
    cur = None
    long_steps = 0
    for l in open(lf):
        if '"ind_new"' in l:
            cur = json.loads(l)
        elif '"panic"' in l:
            e = json.loads(l)
            msg = e.get("panic", "")
            cls = "arithmetic-overflow" if "overflow" in msg else ("index-out-of-range" if "out of range" in msg or "out of bounds" in msg else "other")
            chk.finding("%s:next:panic[%s]" % (cur["name"], cls), {"stage": "A:long-streams", "config": cur["raw_cfg"], "msg": msg[:300], "trace": lf})
        else:
            long_steps += 1
    chk.stage("A:indicators", configs=len(irows), accepted=isumm["extra"]["accepted"], long_stream_steps=long_steps)
    chk.cov["replayed_behaviours"] += len(irows)
    chk.cov["traces_validated_against_impl"] += len(irows)
    chk.stage("A", rows=len(rows), constructed=summ["extra"]["constructed"], comparisons=summ["checked"])
    chk.cov["replayed_behaviours"] += summ["extra"]["constructed"]
    chk.cov["traces_validated_against_impl"] += summ["extra"]["constructed"]
    chk.sample({"direction": "A", "rows": [rows[3], [x for x in rows if "outs" in x][0]["subject"]]})
    chk.assumptions += ["dev profile (debug assertions and overflow checks on), as the repository's own tests run",
                        "accepted instances are driven with valid finite inputs for 700 (quick) / 3000 (thorough) steps"]
