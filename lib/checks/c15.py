"""C15 Moving averages are averages: affine-equivariant, range-preserving, linear (spec/Trace_Laws.tla)."""
import os, json
from verif import *


def lines_of(out):
    return [json.loads(l) for l in out.splitlines() if l.startswith("{")]


def run(chk):
    quick = chk.tier == "quick"
    yv = build_harness()
    wd = workdir("c15")
    jobs = []
    for i in range(6 if quick else 24):
        tf = os.path.join(wd, "laws_%d.ndjson" % i)
        n = lines_of(run_harness(yv, ["laws-record", chk.seed * 100 + i, 4 if quick else 10, 60 if quick else 300, tf]))[0]["events"]
        jobs.append((tf, n, "laws"))
    # the adaptive kind (its factor is a quotient of running sums of changes) on many more programs, all small lengths
    for i in range(2 if quick else 6):
        tf = os.path.join(wd, "laws_vidya_%d.ndjson" % i)
        n = lines_of(run_harness(yv, ["laws-record", chk.seed * 100 + 70 + i, 30 if quick else 60, 80 if quick else 300, tf, "Vidya"]))[0]["events"]
        jobs.append((tf, n, "laws"))
    # the laws at late positions of a stream (beyond 1024 steps: periodic internal resynchronisation, counters)
    for i in range(2 if quick else 6):
        tf = os.path.join(wd, "laws_long_%d.ndjson" % i)
        n = lines_of(run_harness(yv, ["laws-record", chk.seed * 100 + 50 + i, 1, 1100 if quick else 2600, tf]))[0]["events"]
        jobs.append((tf, n, "laws"))
    # impulse response = documented weight profile, every length (quick: boundary + small lengths)
    ranges = [(1, 12), (31, 33), (63, 64), (126, 128), (253, 254)] if quick else [(a, min(a + 7, 254)) for a in range(1, 255, 8)]
    for (a, b) in ranges:
        tf = os.path.join(wd, "impulse_%d_%d.ndjson" % (a, b))
        n = lines_of(run_harness(yv, ["laws-impulse", a, b, tf]))[0]["events"]
        jobs.append((tf, n, "impulse"))

    # late impulses: the unit input arrives after a number of quiet steps chosen so that the impulse is still inside the window
    # when the step counter passes a round number (256, 512, 1000, 1024, 2048, 4096, 65536: periodic housekeeping)
    for (a, b, pre) in ([(5, 6, 1020), (100, 100, 1020), (8, 8, 252), (9, 9, 995)] if quick else
                        [(4, 9, 1020), (100, 101, 1020), (254, 254, 1000), (7, 8, 2044), (7, 8, 4092), (6, 7, 508), (6, 7, 252), (9, 10, 995), (6, 6, 8188)]):
        tf = os.path.join(wd, "impulse_late_%d_%d_%d.ndjson" % (a, b, pre))
        n = lines_of(run_harness(yv, ["laws-impulse", a, b, tf, pre]))[0]["events"]
        jobs.append((tf, n, "impulse"))

    def val(job):
        ok, info, r = tlc_trace("Trace_Laws", "Trace_Laws.cfg", job[0], timeout=3000)
        return job, ok, info, r
    for job, ok, info, r in parallel(jobs, val, nproc=12):
        evs = read_ndjson(job[0])
        if ok:
            chk.cov["events_validated"] += job[1]
            chk.cov["states"] += r.distinct
            chk.cov["transitions"] += r.generated
        else:
            k = info["matched"]
            start = max(i for i in range(k + 1) if evs[i]["ev"] == "law_new")
            p = evs[start]
            chk.finding("%s:law:%s" % (p["kind"], p["law"]), {"stage": "B:trace", "trace": job[0], "program": p, "rejected_at": info,
                                                              "step_in_program": k - start})
    chk.cov["traces_validated_against_impl"] += len(jobs)
    chk.stage("B", traces=len(jobs), lengths_with_impulse="quick: 1..12,31..33,63,64,126..128,253,254" if quick else "all 1..254")
    chk.sample({"direction": "B", "events": read_ndjson(jobs[0][0])[:3]})
    chk.assumptions += ["the laws are relations between real executions; the spec needs no evaluation of the average itself",
                        "impulse profiles are exact rationals (FIR kinds) or the exact recurrence (exponential kinds)"]
