"""C18 Candle helpers satisfy their textbook identities; text forms round-trip
(spec/Candle.tla, MC_Candle, Parse.tla, MC_Parse, Trace_Candle)."""
import os, json
from verif import *


def lines_of(out):
    return [json.loads(l) for l in out.splitlines() if l.startswith("{")]


def run(chk):
    quick = chk.tier == "quick"
    yv = build_harness()
    wd = workdir("c18")
    rows = []
    for mod, cfg, what, tags in [
        ("MC_Candle", "MC_Candle_validate.cfg", "validate as coded = the statement's predicate on all (o,h,l,c,v) in {NaN,-Inf,-1,0,1,2,3,+Inf}^5", ("ROW",)),
        ("MC_Candle", "MC_Candle_tr.cfg", "single-subtraction true range = three-way maximum for all (h,l,pc) in 0..8^3 with h >= l", ("TR",)),
        ("MC_Candle", "MC_Candle_add.cfg", "Candle + Candle associative on all triples of candles over {1,2}^5", ("ADD",)),
        ("MC_Candle", "MC_Candle_seq.cfg", "Sequence<ValueType>::validate = every item finite, on all triples over {NaN,+-Inf,-1..3,+-HUGE} (HUGE+HUGE overflows) and their prefixes", ("SEQ",)),
        ("MC_Parse", "MC_Parse_canon.cfg", "canonical texts of every MA kind x boundary lengths and every source name parse back", ("ROW",)),
        ("MC_Parse", "MC_Parse_edit.cfg", "every single-character deletion/substitution/insertion of canonical texts", ("ROW",)),
        ("MC_Parse", "MC_Parse_short.cfg", "every text of length <= 4 over {s,m,a,-,2,5,+,space}", ("ROW",)),
    ]:
        r = tlc(mod, cfg, workers=1, timeout=900, tags=tags)
        if r.violation:
            chk.finding("%s:model:%s" % (mod, r.violation), {"stage": "MC", "config": cfg, "counterexample": r.cex})
            continue
        chk.add_tlc(cfg, r, {"what": what})
        got = [p for t, p in r.printed]
        if len(got) != r.distinct:
            raise ToolError("%s: %d rows for %d states" % (cfg, len(got), r.distinct))
        rows += got
    chk.cov["exhaustive"] = True
    f = os.path.join(wd, "rows.ndjson")
    write_ndjson(f, rows)
    lines = lines_of(run_harness(yv, ["candle-replay", f], timeout=1200))
    for m in lines:
        if m.get("kind") == "mismatch":
            chk.finding(m["key"], {"stage": "A:replay", "ctx": m.get("ctx"), "expected": m.get("expected"), "actual": m.get("actual")})
    summ = [l for l in lines if l.get("kind") == "summary"][0]
    chk.stage("A", rows=len(rows), comparisons=summ["checked"])
    chk.cov["replayed_behaviours"] += len(rows)
    chk.cov["traces_validated_against_impl"] += len(rows)
    chk.sample({"direction": "A", "row": [x for x in rows if "text" in x][40]})
    # numeric identities on arbitrary finite candles (direction B)
    jobs = []
    for i in range(2 if quick else 8):
        tf = os.path.join(wd, "trace_%d.ndjson" % i)
        n = lines_of(run_harness(yv, ["candle-record", chk.seed * 100 + i, 150 if quick else 1500, tf]))[0]["events"]
        jobs.append((tf, n))

    def val(job):
        ok, info, r = tlc_trace("Trace_Candle", "Trace_Candle.cfg", job[0])
        return job, ok, info, r
    for job, ok, info, r in parallel(jobs, val, nproc=4):
        if ok:
            chk.cov["events_validated"] += job[1]
            chk.cov["states"] += r.distinct
            chk.cov["transitions"] += r.generated
        else:
            chk.finding("Candle:%s:trace" % info["event"]["ev"], {"stage": "B:trace", "trace": job[0], "rejected_at": info})
    chk.cov["traces_validated_against_impl"] += len(jobs)
    chk.sample({"direction": "B", "events": read_ndjson(jobs[0][0])[:1]})
    chk.assumptions += ["texts are tuples of characters; the harness joins them", "-0.0 is replayed for every 0 of the validate grid"]
