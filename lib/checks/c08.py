"""C08 The construction value acts as an infinite constant prehistory (spec/Trace_Prefix.tla)."""
import os, json
from verif import *


def lines_of(out):
    return [json.loads(l) for l in out.splitlines() if l.startswith("{")]


def run(chk, recorder="prefix-record", tag="c08"):
    quick = chk.tier == "quick"
    yv = build_harness()
    wd = workdir(tag)
    jobs = []
    for i in range(8 if quick else 32):
        tf = os.path.join(wd, "trace_%d.ndjson" % i)
        n = lines_of(run_harness(yv, [recorder, chk.seed * 100 + i, 2 if quick else 6, 50 if quick else 200, tf]))[0]["events"]
        jobs.append((tf, n))

    # indicators: initialised with a candle and fed that candle (values constant up to rounding, signals constant while the
    # values are bit-constant); k extra leading copies do not change the later results
    if recorder == "prefix-record":
        # indicators with an open known finding on their SIGNALS get their own traces: values on random programs, signals on the
        # recorded witness (so the finding does not cut short the validation of the others, and is observed on every run)
        special = {k["key"].split(":")[0]: k for k in chk.known if k.get("status", "open") == "open" and k["key"].endswith(":prehistory:signals")}
        os.environ["YV_EXCLUDE"] = ",".join(sorted(special))
        try:
            for i in range(4 if quick else 16):
                tf = os.path.join(wd, "ind_%d.ndjson" % i)
                n = lines_of(run_harness(yv, ["ind-prefix-record", chk.seed * 100 + i, 3 if quick else 6, 80 if quick else 300, tf]))[0]["events"]
                jobs.append((tf, n))
        finally:
            os.environ["YV_EXCLUDE"] = ""
        for name, kf in special.items():
            os.environ["YV_PREFIX_NOSIG"] = "1"
            try:
                tf = os.path.join(wd, "ind_values_%s.ndjson" % name)
                n = lines_of(run_harness(yv, ["ind-prefix-record", chk.seed * 100 + 50, 12 if quick else 48, 80 if quick else 300, tf, name]))[0]["events"]
                jobs.append((tf, n))
            finally:
                os.environ.pop("YV_PREFIX_NOSIG", None)
            # ... and their signals on random programs as well, ONE PROGRAM PER TRACE: the finding (a rounding residue instead of an
            # exact 0 steps the 0-seeded detector) can only be at work in a program whose constant phase shows a non-zero value; a
            # signal discrepancy in a program whose constant-phase values are all exactly 0 is a different violation (see below)
            for i in range(12 if quick else 48):
                tf = os.path.join(wd, "ind_signals_%s_%d.ndjson" % (name, i))
                n = lines_of(run_harness(yv, ["ind-prefix-record", chk.seed * 1000 + 500 + i, 1, 80 if quick else 300, tf, name]))[0]["events"]
                jobs.append((tf, n))
            tf = os.path.join(wd, "ind_witness_%s.ndjson" % name)
            os.environ["YV_PREFIX_WITNESS"] = json.dumps(kf["witness_doc"])
            try:
                n = lines_of(run_harness(yv, ["ind-prefix-record", 1, 1, 5, tf, name]))[0]["events"]
            finally:
                os.environ.pop("YV_PREFIX_WITNESS", None)
            jobs.append((tf, n))

    def val(job):
        ok, info, r = tlc_trace("Trace_Prefix", "Trace_Prefix.cfg", job[0], timeout=3000)
        return job, ok, info, r
    for job, ok, info, r in parallel(jobs, val, nproc=12):
        if ok:
            chk.cov["events_validated"] += job[1]
            chk.cov["states"] += r.distinct
            chk.cov["transitions"] += r.generated
        else:
            evs = read_ndjson(job[0])
            k = info["matched"]
            start = max(i for i in range(k + 1) if evs[i]["ev"] == "pre_new")
            p = evs[start]
            phase = "constant" if evs[k]["ev"] == "pre_const" else "later-outputs"
            if p.get("class") == "ind" and "s" in evs[k]:
                first = evs[start + 1]
                if (evs[k]["ev"] == "pre_pair" and evs[k]["s"] != evs[k]["sk"]) or (evs[k]["ev"] == "pre_const" and evs[k]["s"] != first.get("s")):
                    phase = "signals"
                    if recorder == "prefix-record" and p["subject"] in special:
                        const = []
                        for e in evs[start + 1:]:
                            if e["ev"] != "pre_const":
                                break
                            const.append(e)
                        big = len(p.get("scale", {}).get("m", [])) >= 6          # scale >= 1e-4: a residue is visible at 1e-24
                        if const and big and all(y["s"] == 0 for e in const for y in e.get("y", [])):
                            phase = "signals@zero-values"
            chk.finding("%s:prehistory:%s" % (p["subject"], phase), {"stage": "B:trace", "trace": job[0], "program": p,
                                                                    "rejected_at": info, "step_in_program": k - start})
    chk.cov["traces_validated_against_impl"] += len(jobs)
    chk.stage("B:" + tag, traces=len(jobs))
    chk.sample({"direction": "B", "events": read_ndjson(jobs[0][0])[:3]})
    chk.assumptions += ["exact class (selections, signals, counters): bit-equal values; arithmetic class: rounding allowance without drift term",
                        "exempt as the property states: windowless Integral/ADI, CollapseTimeframe, Renko volume"]
