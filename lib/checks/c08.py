"""C08 The construction value acts as an infinite constant prehistory (spec/Trace_Prefix.tla)."""
import os, json
from verif import *


def lines_of(out):
    return [json.loads(l) for l in out.splitlines() if l.startswith("{")]


def run(chk, recorder="prefix-record", tag="c08"):
    quick = chk.tier == "quick"
    yv = build_harness()
    wd = workdir(tag)
    jobs = []
    for i in range(8 if quick else 32):
        tf = os.path.join(wd, "trace_%d.ndjson" % i)
        n = lines_of(run_harness(yv, [recorder, chk.seed * 100 + i, 2 if quick else 6, 50 if quick else 200, tf]))[0]["events"]
        jobs.append((tf, n))

    # indicators: initialised with a candle and fed that candle (values constant up to rounding, signals constant while the
    # values are bit-constant); k extra leading copies do not change the later results
    if recorder == "prefix-record":
        for i in range(4 if quick else 16):
            tf = os.path.join(wd, "ind_%d.ndjson" % i)
            n = lines_of(run_harness(yv, ["ind-prefix-record", chk.seed * 100 + i, 3 if quick else 6, 80 if quick else 300, tf]))[0]["events"]
            jobs.append((tf, n))

    def val(job):
        ok, info, r = tlc_trace("Trace_Prefix", "Trace_Prefix.cfg", job[0], timeout=3000)
        return job, ok, info, r
    for job, ok, info, r in parallel(jobs, val, nproc=12):
        if ok:
            chk.cov["events_validated"] += job[1]
            chk.cov["states"] += r.distinct
            chk.cov["transitions"] += r.generated
        else:
            evs = read_ndjson(job[0])
            k = info["matched"]
            start = max(i for i in range(k + 1) if evs[i]["ev"] == "pre_new")
            p = evs[start]
            phase = "constant" if evs[k]["ev"] == "pre_const" else "later-outputs"
            if p.get("class") == "ind" and "s" in evs[k] and evs[k]["ev"] == "pre_pair" and evs[k]["s"] != evs[k]["sk"]:
                phase = "later-signals"
            chk.finding("%s:prehistory:%s" % (p["subject"], phase), {"stage": "B:trace", "trace": job[0], "program": p,
                                                                    "rejected_at": info, "step_in_program": k - start})
    chk.cov["traces_validated_against_impl"] += len(jobs)
    chk.stage("B:" + tag, traces=len(jobs))
    chk.sample({"direction": "B", "events": read_ndjson(jobs[0][0])[:3]})
    chk.assumptions += ["exact class (selections, signals, counters): bit-equal values; arithmetic class: rounding allowance without drift term",
                        "exempt as the property states: windowless Integral/ADI, CollapseTimeframe, Renko volume"]
