"""C09 Streaming, batch and chunked evaluation agree; clones are independent (spec/Api.tla)."""
from verif import *
import apifam


def run(chk):
    quick = chk.tier == "quick"
    yv = build_harness()
    progs = apifam.programs(chk, "Api_mc.cfg", cap=500 if quick else 4000,
                            label="every program of <= 4 operations over 3 handles, chunk sizes 0..2")
    progs += apifam.programs(chk, "Api_sim.cfg", simulate=150 if quick else 1500, depth=20, cap=150 if quick else 1500)
    progs += apifam.programs(chk, "Api_deep.cfg", cap=100000, label="one handle, chunks of any size 0..24, then peek / another chunk: every position of the stream")
    apifam.replay(chk, yv, "c09", progs)
    # indicator level: init, next, over, init_fn / into_fn, clones -- static and dyn, every indicator
    from checks import c11
    for m in c11.ind_api(chk, yv, "c09ind", quick):
        if any(t in m["key"] for t in (":next:", ":over:", ":new_over:", ":fncall:", ":init_fn:", ":clone:")):
            chk.finding(m["key"], {"stage": "A:ind-api", "ctx": m.get("ctx")})
    chk.assumptions += ["methods are deterministic transducers, so a handle's abstract state is the number of inputs consumed",
                        "the reference outputs are produced by element-wise next() on a fresh real instance",
                        "pair/candle-input subjects run bulk operations through element-wise next (their generic bulk API is not available for unsized inputs)"]
