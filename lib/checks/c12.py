"""C12 Documented value ranges and ordering invariants hold on every valid stream
(spec/Ranges.tla evaluated on recorded executions by Trace_Ind (CHECK_RANGES) and Trace_Num / Trace_Candle)."""
import os, json
import json
from verif import *
import indfam, numfam


RANGED = ["Aroon", "BollingerBands", "ChaikinMoneyFlow", "ChandeMomentumOscillator", "DonchianChannel", "Envelopes", "KeltnerChannel",
          "MoneyFlowIndex", "ParabolicSAR", "PriceChannelStrategy", "RelativeStrengthIndex", "SMIErgodicIndicator", "StochasticOscillator",
          "TrueStrengthIndex"]


def fx(j):
    n = 0
    for limb in reversed(j["m"]):
        n = n * 10000 + limb
    return j["s"] * n / 1e24


def residue_class(name, evs, start, k):
    """The open range findings (ChandeMomentumOscillator, RelativeStrengthIndex) are about ROUNDING RESIDUE left in running sums
    once the recent price changes are negligible against earlier ones (flat stretch, drop of the price scale). A rejection is
    attributed to them only when its excess over the documented interval is explained by such a residue:
        excess <= 16 r / S   with  r = 64 eps t H,  H = largest one-step change of the source so far,
                                   S = sum of the one-step changes over the last n steps (n = the configured period: the reach of the running sums);
    otherwise the key gets the suffix '@beyond-residue', which no finding lists."""
    try:
        cfg = json.loads(evs[start]["raw_cfg"])
        n = cfg.get("period") or max([v for v in (cfg.get("ma") or {}).values() if isinstance(v, int)] + [1])
        cs = [e["c"] for e in evs[start:k + 1] if "c" in e]
        def src(c):
            o, h, l, cl, v = (fx(c[f]) for f in "ohlcv")
            kind = cfg.get("source", "close")
            return {"close": cl, "open": o, "high": h, "low": l, "tp": (h + l + cl) / 3, "hl2": (h + l) / 2, "ohlc4": (o + h + l + cl) / 4,
                    "volume": v, "volumed_price": (h + l + cl) / 3 * v}[kind]
        series = [[src(c) for c in cs]]
        d = [[abs(x[i] - x[i - 1]) for i in range(1, len(x))] for x in series]
        H = max([max(x) for x in d if x] + [0.0])
        W = n
        S = max([sum(x[-W:]) for x in d] + [0.0])
        t = len(cs)
        r = 64 * 2.220446049250313e-16 * t * H
        v0 = evs[k]["v"][0] if evs[k].get("v") else None
        v = fx(v0) if isinstance(v0, dict) and "m" in v0 else float("nan")       # non-finite values are logged as {"k": "inf" | "nan"}
        lo, hi = (-1.0, 1.0) if name == "ChandeMomentumOscillator" else (0.0, 1.0)
        if v != v:
            excess = float("inf")
        else:
            excess = max(0.0, v - hi, lo - v)
        if S <= 16 * r or excess <= 16 * r / S:
            return ""
        return "@beyond-residue"
    except Exception as ex:            # an event without the expected fields: do not attribute it to a listed finding
        return "@unclassified"


def run(chk):
    quick = chk.tier == "quick"
    yv = build_harness()
    # regime-shaped candle streams (volatile -> exactly flat -> volatile, zero-volume bars) on every indicator / config
    # indicators with an open known finding get their own traces, so that the finding does not cut short the others' validation
    special = sorted(set(k["key"].split(":")[0] for k in chk.known if k.get("status", "open") == "open" and k["key"].endswith(":range")))
    files = indfam.record(chk, yv, "c12", 4 if quick else 16, 36, 140 if quick else 500, exclude=tuple(special))
    # the indicators with a documented range / ordering get many more programs each, on streams with one-sided stretches
    # (closes at the high / low: clv = +-1), untraded stretches (runs of zero-volume bars) and small windows
    for name in RANGED:
        if name not in special:
            files += indfam.record(chk, yv, "c12", 2 if quick else 6, 9, 140 if quick else 500, only=name, range_regimes=True)
    # trading halts (the last close repeated for 3..42 bars, then trading resumes) on every ranged indicator; the indicators with
    # an open finding one program per trace, so that a residue-explained rejection does not hide what comes later in other programs
    os.environ["YV_HALTS"] = "1"
    try:
        for name in RANGED:
            if name in special:
                files += indfam.record(chk, yv, "c12halt", 12 if quick else 40, 1, 200 if quick else 600, only=name)
            else:
                files += indfam.record(chk, yv, "c12halt", 1 if quick else 4, 6, 200 if quick else 600, only=name)
    finally:
        os.environ.pop("YV_HALTS", None)
    for name in special:
        files += indfam.record(chk, yv, "c12", 2 if quick else 6, 6, 200 if quick else 600, only=name, force_drop=True)
        # the recorded witness of the finding (its configuration on a scripted stream: volatile, scale drop, exactly flat, volatile)
        for kf in chk.known:
            if kf["key"] == name + ":range" and kf.get("witness_sets"):
                wf = os.path.join(workdir("c12"), "witness_%s.ndjson" % name)
                os.environ["YV_WITNESS_SETS"] = kf["witness_sets"]
                try:
                    n = indfam.harness_lines(run_harness(yv, ["ind-record", 1, 1, 330, 0, wf, name]))[0]["events"]
                finally:
                    os.environ.pop("YV_WITNESS_SETS", None)
                files.append((wf, n))
    indfam.validate(chk, files, "ranges", "range", classify=lambda name, evs, start, k: residue_class(name, evs, start, k) if name in special else "")
    # dispersion measures are never negative up to the rounding allowance: implied by the two-sided acceptance around a non-negative exact value;
    # Trace_Candle's acceptance already bounds them two-sidedly around a non-negative exact value; here the sign is asserted
    # on flat-after-volatile streams
    jobs = [("fin", chk.seed * 100 + i, 6, 200 if quick else 800, 0, s) for i, s in enumerate(["LinearVolatility", "StDev", "MeanAbsDev", "MedianAbsDev"])]
    jobs += [("rec", chk.seed * 100 + 9, 6, 200 if quick else 800, 0, "TR")]
    numfam.record_validate(chk, yv, "c12num", jobs, cfg="Trace_Num.cfg", nproc=5)
    # the same on scripted streams: volatile at scales 1 .. 1e9, exactly flat for longer than the window, volatile at a small scale
    os.environ["YV_SCRIPT"] = "flatafter"
    try:
        jobs = [("fin", chk.seed * 100 + 20 + i, 24, 260 if quick else 800, 0, s) for i, s in enumerate(["LinearVolatility", "StDev", "MeanAbsDev", "MedianAbsDev"])]
        numfam.record_validate(chk, yv, "c12flat", jobs, cfg="Trace_Num.cfg", nproc=5)
    finally:
        os.environ.pop("YV_SCRIPT", None)
    chk.sample({"direction": "B", "events": read_ndjson(files[0][0])[:2]})
    chk.assumptions += ["ranges are asserted on the logged values up to 1e-11 (relative), on streams with exactly flat stretches and zero-volume bars",
                        "undefined quantities (zero total volume, 0/0) are exempt as the property states"]
