"""C12 Documented value ranges and ordering invariants hold on every valid stream
(spec/Ranges.tla evaluated on recorded executions by Trace_Ind (CHECK_RANGES) and Trace_Num / Trace_Candle)."""
import os, json
from verif import *
import indfam, numfam


RANGED = ["Aroon", "BollingerBands", "ChaikinMoneyFlow", "ChandeMomentumOscillator", "DonchianChannel", "Envelopes", "KeltnerChannel",
          "MoneyFlowIndex", "ParabolicSAR", "PriceChannelStrategy", "RelativeStrengthIndex", "SMIErgodicIndicator", "StochasticOscillator",
          "TrueStrengthIndex"]


def run(chk):
    quick = chk.tier == "quick"
    yv = build_harness()
    # regime-shaped candle streams (volatile -> exactly flat -> volatile, zero-volume bars) on every indicator / config
    # indicators with an open known finding get their own traces, so that the finding does not cut short the others' validation
    special = sorted(set(k["key"].split(":")[0] for k in chk.known if k.get("status", "open") == "open" and k["key"].endswith(":range")))
    files = indfam.record(chk, yv, "c12", 4 if quick else 16, 36, 140 if quick else 500, exclude=tuple(special))
    # the indicators with a documented range / ordering get many more programs each, on streams with one-sided stretches
    # (closes at the high / low: clv = +-1), untraded stretches (runs of zero-volume bars) and small windows
    for name in RANGED:
        if name not in special:
            files += indfam.record(chk, yv, "c12", 2 if quick else 6, 9, 140 if quick else 500, only=name, range_regimes=True)
    for name in special:
        files += indfam.record(chk, yv, "c12", 2 if quick else 6, 6, 200 if quick else 600, only=name, force_drop=True)
        # the recorded witness of the finding (its configuration on a scripted stream: volatile, scale drop, exactly flat, volatile)
        for kf in chk.known:
            if kf["key"] == name + ":range" and kf.get("witness_sets"):
                wf = os.path.join(workdir("c12"), "witness_%s.ndjson" % name)
                os.environ["YV_WITNESS_SETS"] = kf["witness_sets"]
                try:
                    n = indfam.harness_lines(run_harness(yv, ["ind-record", 1, 1, 330, 0, wf, name]))[0]["events"]
                finally:
                    os.environ.pop("YV_WITNESS_SETS", None)
                files.append((wf, n))
    indfam.validate(chk, files, "ranges", "range")
    # dispersion measures are never negative up to the rounding allowance: implied by the two-sided acceptance around a non-negative exact value;
    # Trace_Candle's acceptance already bounds them two-sidedly around a non-negative exact value; here the sign is asserted
    # on flat-after-volatile streams
    jobs = [("fin", chk.seed * 100 + i, 6, 200 if quick else 800, 0, s) for i, s in enumerate(["LinearVolatility", "StDev", "MeanAbsDev", "MedianAbsDev"])]
    jobs += [("rec", chk.seed * 100 + 9, 6, 200 if quick else 800, 0, "TR")]
    numfam.record_validate(chk, yv, "c12num", jobs, cfg="Trace_Num.cfg", nproc=5)
    # the same on scripted streams: volatile at scales 1 .. 1e9, exactly flat for longer than the window, volatile at a small scale
    os.environ["YV_SCRIPT"] = "flatafter"
    try:
        jobs = [("fin", chk.seed * 100 + 20 + i, 24, 260 if quick else 800, 0, s) for i, s in enumerate(["LinearVolatility", "StDev", "MeanAbsDev", "MedianAbsDev"])]
        numfam.record_validate(chk, yv, "c12flat", jobs, cfg="Trace_Num.cfg", nproc=5)
    finally:
        os.environ.pop("YV_SCRIPT", None)
    chk.sample({"direction": "B", "events": read_ndjson(files[0][0])[:2]})
    chk.assumptions += ["ranges are asserted on the logged values up to 1e-11 (relative), on streams with exactly flat stretches and zero-volume bars",
                        "undefined quantities (zero total volume, 0/0) are exempt as the property states"]
