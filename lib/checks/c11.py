"""C11 Indicator interface contract: result shape, dynamic dispatch and string setters
(spec/Config.tla, spec/Api.tla with the indicator operation set, result shape in Trace_Ind)."""
import os, json
from verif import *
import apifam


def lines_of(out):
    return [json.loads(l) for l in out.splitlines() if l.startswith("{")]


def ind_api(chk, yv, tag, quick):
    progs = apifam.programs(chk, "Api_ind.cfg", simulate=60 if quick else 600, depth=14, cap=40 if quick else 400)
    wd = workdir(tag)
    f = os.path.join(wd, "programs.ndjson")
    write_ndjson(f, progs)
    lines = lines_of(run_harness(yv, ["ind-api-replay", f, chk.seed], timeout=3000))
    summ = [l for l in lines if l.get("kind") == "summary"][0]
    chk.stage("A:" + tag, programs=len(progs), program_runs=summ["extra"]["runs"], comparisons=summ["checked"], indicators=36,
              forms="static, dyn, init_fn, over, clone, snapshot")
    chk.cov["replayed_behaviours"] += summ["extra"]["runs"]
    chk.cov["traces_validated_against_impl"] += summ["extra"]["runs"]
    chk.sample({"direction": "A", "program": progs[0]})
    return [m for m in lines if m.get("kind") == "mismatch"]


def run(chk):
    quick = chk.tier == "quick"
    yv = build_harness()
    wd = workdir("c11")
    # the catalogue of public parameters comes from the struct definitions (serialized default configs)
    cat = os.path.join(wd, "catalog.json")
    open(cat, "w").write(run_harness(yv, ["ind-catalog"]))
    catalog = json.load(open(cat))
    for c in catalog:
        if c["cfg_name"] != c["name"] or not c["default_valid"]:
            chk.finding("%s:default:invalid" % c["name"], {"catalog": c})
    r = tlc("Config", "Config.cfg", workers=1, env={"CATALOG": cat}, timeout=900)
    if r.violation:
        chk.finding("Config:model:" + r.violation, {"stage": "MC", "counterexample": r.cex})
        return
    chk.add_tlc("Config.cfg", r, {"what": "per indicator: every (name, text) over public fields + foreign names x 22 texts, and two-step sequences"})
    rows = [p for t, p in r.printed if t == "REPLAY"]
    f = os.path.join(wd, "sets.ndjson")
    write_ndjson(f, rows)
    lines = lines_of(run_harness(yv, ["cfg-replay", f], timeout=1200))
    for m in lines:
        if m.get("kind") == "mismatch":
            chk.finding(m["key"], {"stage": "A:set", "ctx": m.get("ctx")})
    chk.stage("A:set", programs=len(rows), indicators=len(catalog))
    chk.cov["replayed_behaviours"] += len(rows)
    chk.cov["traces_validated_against_impl"] += len(rows)
    chk.sample({"direction": "A", "set_program": rows[len(rows) // 3]})
    # IndicatorResult itself: construction from 0..6 values / signals (truncation to its capacity of 4) and its accessors
    rr = tlc("MC_Result", "MC_Result.cfg", workers=1, timeout=300, tags=("RES",))
    if rr.error or rr.violation:
        raise ToolError("MC_Result: %s" % (rr.error or rr.violation))
    chk.add_tlc("MC_Result.cfg", rr, {"what": "IndicatorResult::new on every (nv, ns) in 0..6 x 0..6"})
    rrows = [p for t, p in rr.printed if t == "RES"]
    rf = os.path.join(wd, "result_rows.ndjson")
    write_ndjson(rf, rrows)
    for m in lines_of(run_harness(yv, ["result-replay", rf])):
        if m.get("kind") == "mismatch":
            chk.finding(m["key"], {"stage": "A:result", "ctx": m.get("ctx")})
    chk.cov["replayed_behaviours"] += len(rrows)
    # static vs dyn on EVERY configuration, valid or not (MC_IndParams: all one- and two-field deviations from the default
    # over boundary grids): validate, name, size, init Ok/Err, over on 0 / 1 / 6 candles
    ir = tlc("MC_IndParams", "MC_IndParams.cfg", workers=1, env={"CATALOG": cat}, timeout=1200)
    if ir.error or ir.violation:
        raise ToolError("MC_IndParams: %s" % (ir.error or ir.violation))
    chk.add_tlc("MC_IndParams.cfg", ir, {"what": "configurations for the static-vs-dyn comparison"})
    irows = [p for t, p in ir.printed if t == "REPLAY"]
    if quick:
        irows = irows[::3]
    inf = os.path.join(wd, "indparams.ndjson")
    write_ndjson(inf, irows)
    for m in lines_of(run_harness(yv, ["ind-dyn-replay", inf, chk.seed], timeout=3000)):
        if m.get("kind") == "mismatch":
            chk.finding(m["key"], {"stage": "A:dyn-configs", "ctx": m.get("ctx"), "expected": m.get("expected"), "actual": m.get("actual")})
    chk.stage("A:dyn-configs", configs=len(irows))
    chk.cov["replayed_behaviours"] += len(irows)
    # name(), size(), result shape at every step, static vs dyn, init_fn, over: Api.tla programs on every indicator
    for m in ind_api(chk, yv, "c11api", quick):
        key = m["key"]
        # snapshot mismatches are C13's, clone mismatches C09's; everything else (dyn, shape, name, size, over, init_fn) is C11's
        if ":snapshot:" in key or ":clone:" in key or ":config-serde:" in key:
            continue
        chk.finding(key, {"stage": "A:api", "ctx": m.get("ctx"), "expected": m.get("expected"), "actual": m.get("actual")})
    chk.cov["exhaustive"] = True
    chk.assumptions += ["the catalogue of public parameters is read from the serialized default configurations (the struct definitions)",
                        "the result shape is also an invariant of every event of the C05/C06 traces (Trace_Ind)"]
