"""C04 Extremum, arg-extremum and median methods are exact selections
(spec/Tok.tla, Selection.tla, MC_Tok, Trace_Tok)."""
from verif import *
import tokfam

SEL = ["Highest", "Lowest", "HighestLowestDelta", "HighestIndex", "LowestIndex", "SMM"]


def run(chk):
    quick = chk.tier == "quick"
    yv = build_harness()
    # direction B in the background (single-worker TLC processes)
    fb = background(tokfam.record_validate, chk, yv, "c04", "sel", 4 if quick else 16,
                    28 if quick else 70, 120 if quick else 400, 4 if quick else 8)
    # direction A: every stream of length n+3 over {-1,-0,+0,1} (quick) / n+3 over 5 tokens, n <= 4 (thorough)
    if quick:
        jobs = [dict(subjects=[s], pmax=255, inits="ZeroBoth", lens="L1to3", ranks="R3z", negzero=True, depth=5,
                     first=False) for s in SEL]                  # construction value +0.0 and -0.0
        # the median of an even window is an arithmetic mean: more (asymmetric) ranks so that its rounding shows
        jobs.append(dict(subjects=["SMM"], pmax=255, inits="ZeroOne", lens="L1to4", ranks="R4", negzero=False, depth=5,
                         first=False, suffix="wide"))
    else:
        jobs = [dict(subjects=[s], pmax=255, inits="ZeroOne", lens="L1to4", ranks="R4", negzero=True, depth=7,
                     first=False) for s in SEL]
        jobs += [dict(subjects=[s], pmax=255, inits="ZeroBoth", lens="L1to3", ranks="R3z", negzero=True, depth=6,
                      first=False, suffix="negzero-init") for s in SEL]
    fa = background(tokfam.emit_replay, chk, yv, "c04", jobs, 6)
    # model checking: implementation-shaped machines == definitions on EVERY stream over the alphabet
    if quick:
        cfg = tokfam.write_cfg("c04_mc", pmax=255, inits="AllToks", subjects=SEL, lens="L1to4", ranks="R5", negzero=True,
                               depth=0, first=False, invs="Conform SmmInv NoOvf")
        tokfam.mc(chk, cfg, "all streams of any length over ranks -2..2 and -0.0, window lengths 1..4",
                  {"PMAX": 255, "Lens": "1..4", "Ranks": "-2..2,-0"}, workers=8)
    else:
        tokfam.mc(chk, "MC_Tok_sel.cfg", "all streams of any length over ranks -2..2 and -0.0, window lengths 1..5",
                  {"PMAX": 255, "Lens": "1..5", "Ranks": "-2..2,-0"}, workers=8)
        cfg = tokfam.write_cfg("c04_mc6", pmax=255, inits="AllToks", subjects=["SMM", "HighestIndex", "LowestIndex"],
                               lens="L1to6", ranks="R3z", negzero=True, depth=0, first=False,
                               invs="Conform SmmInv SmmRestoreInv NoOvf")
        tokfam.mc(chk, cfg, "SMM/HighestIndex/LowestIndex, lengths 1..6 (even/odd, both middle slots), ranks -1..1 and -0.0; "
                  "restored SMM continues identically", {"PMAX": 255, "Lens": "1..6"}, workers=8)
    fa.result()
    fb.result()
    chk.cov["exhaustive"] = True
    chk.assumptions += ["these algorithms only compare values and test bit-equality, so tokens <<rank, bits>> stand for all floats",
                        "nine order-preserving embeddings of ranks into f64 (integers, 2^-12, 2^33, cubes, x0.1, x333333.3, three irregular full-mantissa tables)",
                        "the methods' internal Window is read abstractly (established by C01)"]
