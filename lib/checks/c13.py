"""C13 Serialized snapshots restore behaviourally identical instances
(spec/Api.tla snapshot/clone programs; Window.tla Deserialize; Selection.tla SmmRestore)."""
import os
from verif import *
import apifam, tokfam
from checks import c01


def harness_lines(out):
    return [json.loads(l) for l in out.splitlines() if l.startswith("{")]


def run(chk):
    quick = chk.tier == "quick"
    yv = build_harness()
    wd = workdir("c13")
    # adversarial / faithful Window (de)serialization, validated against Window.tla (direction B)
    fb = background(c01.stage_b, chk, yv, wd, quick)
    # SMM: a restored instance (slice rebuilt by sorting the window) continues like the original -- every reachable state
    cfg = tokfam.write_cfg("c13_smm", pmax=255, inits="AllToks", subjects=["SMM"], lens="L1to4" if quick else "L1to6",
                           ranks="R3z", negzero=True, depth=0, first=False, invs="Conform SmmInv SmmRestoreInv")
    tokfam.mc(chk, cfg, "SMM restore: for every reachable state and every admissible re-sorted slice the next outputs are identical",
              {"PMAX": 255, "Lens": "1..4" if quick else "1..6"}, workers=8)
    # Window: Serialize/Deserialize in every capacity/phase (RebuildInv) is part of MC_Window (C01); here the small complete run
    r = tlc("MC_Window", "MC_Window_quick.cfg", workers=8, timeout=1200)
    if r.violation:
        chk.finding("Window:model:" + r.violation, {"stage": "MC", "counterexample": r.cex})
    else:
        chk.add_tlc("MC_Window_quick.cfg", r, {"what": "Window: Deserialize(Serialize(w)) reads like w, capacities 0..24,127,128, every phase"})
    # restore before EVERY call on every stream of length n+3 over {-1,-0,+0,1} (order patterns, signed zeros): SMM's
    # hand-written Deserialize and the derived ones of the other selection / detector methods (direction A)
    sel = ["Highest", "Lowest", "HighestLowestDelta", "HighestIndex", "LowestIndex", "SMM"]
    jobs = [dict(subjects=[s], pmax=255, inits="ZeroOnly", lens="L1to3", ranks="R3z", negzero=True, depth=5 if quick else 6,
                 first=False) for s in sel]
    jobs += [dict(subjects=[s], pmax=255, inits="ZeroOne", lens="L1to2", ranks="R3", negzero=False, depth=6 if quick else 9,
                  first=True) for s in ["UpperReversalSignal", "LowerReversalSignal", "ReversalSignal"]]
    ft = background(tokfam.emit_replay, chk, yv, "c13tok", jobs, 6, True)
    # snapshot / clone at every position of a stream, all subjects (direction A)
    progs = apifam.programs(chk, "Api_snap.cfg", simulate=250 if quick else 2500, depth=12, cap=250 if quick else 2500)
    apifam.replay(chk, yv, "c13", progs, mode="snap")
    # Renko: a restored instance has bit-identical brick boundaries (probed behaviourally by bisection: the first price in
    # either direction at which a brick is emitted), at every step of a stream
    for m in harness_lines(run_harness(yv, ["renko-snapshot", chk.seed, 8 if quick else 40, 60 if quick else 300], timeout=3000)):
        if m.get("kind") == "mismatch":
            chk.finding(m["key"], {"stage": "A:renko-boundaries", "ctx": m.get("ctx")})
    # indicator instances (snapshot at every position, static) and configurations (serde round trip)
    from checks import c11
    for m in c11.ind_api(chk, yv, "c13ind", quick):
        if ":snapshot:" in m["key"] or ":config-serde:" in m["key"]:
            chk.finding(m["key"], {"stage": "A:ind-api", "ctx": m.get("ctx")})
    fb.result()
    ft.result()
    chk.assumptions += ["snapshots go through serde_json (self-describing text) with its float_roundtrip feature, i.e. a lossless carrier",
                        "restored and original instances are compared through their future outputs (bit patterns), never through private state"]
