#!/usr/bin/env python3
"""Regenerates /verif/MANIFEST.json from the table below (single source of truth)."""
import json, os
ROOT = os.path.dirname(os.path.dirname(os.path.abspath(__file__)))

CHECKS = {
 "C01": dict(
   technique="TLA+ model checking (TLC, complete for all capacities/phases) + bidirectional conformance: TLC-emitted observer tables replayed on the real Window, recorded traces validated by a TLA+ trace spec",
   category="model_checking",
   text="spec/Window.tla gives the ring buffer twice (implementation-shaped PeriodType arithmetic; abstract 'last N pushes'); TLC proves every observer, iterator split, from_parts and serde round trip equal on ALL capacities 0..254 and every rotation phase (finite, complete for the default PeriodType). The model is bound to the code both ways: TLC prints the observer table of every state for capacities 0..9,253,254 and the harness compares all observers of real Window<u32|String|(u8,u64)|f64> objects with it; random programs (incl. adversarial from_parts/deserialize arguments) on the real type are recorded and validated event by event against the abstract machine by TLC.",
   design_ref="DESIGN.md 5/C01",
   note="Trusts TLC, the Json/IOUtils community modules and the harness adapters; labels stand for arbitrary element values (the container is parametric). Capacities beyond 254 (wider PeriodType features) are covered under C20."),
}

NOT_YET = {
}

def main():
    props = [json.loads(l) for l in open(os.path.join(ROOT, "properties.jsonl"))]
    checks = []
    for p in props:
        c = CHECKS.get(p["id"])
        if not c:
            continue
        checks.append({
            "property_id": p["id"],
            "quick_cmd": "bin/check %s --tier quick" % p["id"],
            "thorough_cmd": "bin/check %s --tier thorough" % p["id"],
            "evidence_file": "/verif/evidence/%s.json" % p["id"],
            "replay_cmd_template": "bin/check %s --replay {path}" % p["id"],
            "engine": "tlc+yv",
            "level_claimed": {"category": c["category"], "text": c["text"], "design_ref": c["design_ref"]},
            "level_note": c["note"],
            "technique": c["technique"],
        })
    na = [{"property_id": p["id"], "reason": NOT_YET.get(p["id"], "check not built yet in this round (planned in DESIGN.md section 5); no claim is made")}
          for p in props if p["id"] not in CHECKS]
    m = {
        "version": 1,
        "setup_cmd": "bin/setup",
        "hooks": {"guard": "yata_verif", "enable": "none needed: every property is observed through the public API (no source hooks); the harness is a separate crate with a path dependency on /repo",
                  "baseline_off_cmd": "cd /repo && cargo test --workspace --no-fail-fast --offline", "source_commits": [], "add_only": True},
        "engines": [{"name": "tlc+yv", "path": "/verif/bin/check", "serves_properties": [c["property_id"] for c in checks],
                     "kind_free_text": "explicit TLA+ specification (spec/*.tla) checked with TLC; bound to the implementation by the Rust harness /verif/harness (direction A: TLC-generated behaviours replayed on the real crate; direction B: recorded executions validated by TLA+ trace specifications)"}],
        "checks": checks,
        "notes": "Genuine defects repaired in /repo are unguarded 'fix:' commits listed in known_findings.json (status fixed); open findings are listed there too and reported as KNOWN-FINDING lines.",
        "not_applicable": na,
    }
    json.dump(m, open(os.path.join(ROOT, "MANIFEST.json"), "w"), indent=1)
    print("MANIFEST.json: %d checks, %d not_applicable" % (len(checks), len(na)))

main()
