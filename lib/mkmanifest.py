#!/usr/bin/env python3
"""Regenerates /verif/MANIFEST.json from the table below (single source of truth)."""
import json, os
ROOT = os.path.dirname(os.path.dirname(os.path.abspath(__file__)))

CHECKS = {
 "C01": dict(
   technique="TLA+ model checking (TLC, complete for all capacities/phases) + bidirectional conformance: TLC-emitted observer tables replayed on the real Window, recorded traces validated by a TLA+ trace spec",
   category="model_checking",
   text="spec/Window.tla gives the ring buffer twice (implementation-shaped PeriodType arithmetic; abstract 'last N pushes'); TLC proves every observer, iterator split, from_parts and serde round trip equal on ALL capacities 0..254 and every rotation phase (finite, complete for the default PeriodType). The model is bound to the code both ways: TLC prints the observer table of every state for capacities 0..9,253,254 and the harness compares all observers of real Window<u32|String|(u8,u64)|f64> objects with it; random programs (incl. clone_from onto a window in another ring phase and adversarial from_parts/deserialize arguments) on the real type are recorded and validated event by event against the abstract machine by TLC.",
   design_ref="DESIGN.md 5/C01",
   note="Trusts TLC, the Json/IOUtils community modules and the harness adapters; labels stand for arbitrary element values (the container is parametric). Capacities beyond 254 (wider PeriodType features) are covered under C20."),
 "C04": dict(
   technique="TLA+ model checking over ordered tokens (TLC, all streams of any length over the alphabet) + bidirectional conformance (TLC-enumerated streams replayed under 9 float embeddings; recorded random streams validated by a TLA+ trace spec)",
   category="model_checking",
   text="spec/Selection.tla transcribes the cached-extremum/rescan logic, the index ageing and SMM's two binary searches + slice shift next to the definitions (max, min, newest arg-extremum, middle order statistics) over tokens <<rank, +-0 bit>>; TLC checks impl = definition in EVERY reachable state (the graph is finite without a depth bound, so every stream of every length over 5 ranks and -0.0 is covered for lengths 1..4 quick / 1..6 thorough), plus slice sortedness/permutation/in-bounds. Binding: TLC enumerates all streams of length n+3 over the alphabet and the harness replays them on the real methods under eleven order-preserving float embeddings (exact comparison, sign of zero ignored); random streams for all lengths 1..254 (ties, plateaus, monotone runs, +-0) are recorded from the real code and validated by Trace_Tok against the definitions.",
   design_ref="DESIGN.md 5/C04",
   note="Token abstraction is sound because these algorithms only compare values and test bit-equality; NaN/inf inputs are rejected by the methods and not generated. The internal Window is read abstractly (C01)."),
 "C14": dict(
   technique="TLA+ model checking (TLC; crossing detectors complete, reversal detectors with a scaled-down PeriodType explored past counter saturation) + bidirectional conformance (enumerated streams replayed; recorded long streams validated by a TLA+ trace spec)",
   category="model_checking",
   text="spec/Cross.tla and Reversal.tla give the detectors as coded (last-delta sign; window + saturating/rebased PeriodType position counters) and definitionally (sign change rule; pivot of the surrounding left+right+1 elements with the documented tie rule). TLC checks impl = definition on every pair of streams (cross, incl. touches, repeated zeros, -0.0, antisymmetry) and, for the reversal detectors, on every stream of ANY length with PMAX scaled to 7 (quick) and 15 (thorough), i.e. far beyond saturation of the position counter. Binding: all streams up to depth 8/11 replayed on the real detectors under eleven embeddings (incl. magnitudes 1e-170 and 1e160, whose products under/overflow), and replayed again LATE in a stream (after 254-j and 254+(256-w)-j copies of the construction value, so that the renumbering of the position counters falls on every position of the behaviour); recorded streams of 700-3000 inputs (all (left,right) classes incl. 1/252) validated against the definition by TLC.",
   design_ref="DESIGN.md 5/C14",
   note="Reversal programs start with the construction value as first input (Method::new's contract). The scaled-down PMAX model is tied to the real u8 counters by the long recorded streams."),

 "C02": dict(
   technique="TLA+ trace validation: the documented formulas are evaluated from scratch by TLC in exact fixed-point arithmetic (pure-TLA+ big numbers) at every step of recorded executions of the real methods",
   category="model_checking",
   text="spec/Linear.tla defines all 19 finite-window methods as formulas over the last n inputs in exact 24-decimal fixed point (Big.tla). The harness drives the real methods with regime-shaped float streams (plateaus, zeros, sign changes, spikes, scale jumps, monotone runs; lengths 1..254; Conv weight vectors; prices also scaled by 2^e, e in {-70..100}, to expose absolute constants) and logs every call; Trace_Num replays each event, recomputes the definition from the spec's own copy of the history and accepts only if the output is within the two-sided rounding allowance of DESIGN section 4; peek = last output.",
   design_ref="DESIGN.md 5/C02",
   note="Trusts TLC, Big.tla (self-tested against Python integers with and without the BigInteger module override used to accelerate it), float->fixed-point conversion (Rust's exact decimal formatting). Sampled streams, not exhaustive; the allowance constants are those of DESIGN section 4."),
 "C03": dict(
   technique="TLA+ trace validation: documented recurrences carried by TLC in exact fixed point along recorded executions",
   category="model_checking",
   text="spec/Recursive.tla states EMA/DMA/TMA/DEMA/TEMA/RMA/WSMA/TSI/Vidya/TR/HeikinAshi and the windowless Integral/ADI as recurrences; Trace_Num carries the recurrence state from construction in 24-decimal fixed point and checks every recorded output of the real methods against it within the allowance (quotient rule for TSI/Vidya, guarded branches exact), for lengths 1..254 (1..127 WSMA, (short,long) pairs), streams with flat-after-movement stretches and scale changes.",
   design_ref="DESIGN.md 5/C03",
   note="As C02. Vidya's allowance follows the quotient rule (its factor is a ratio of running sums)."),
 "C09": dict(
   technique="TLA+ protocol specification of the Method/Sequence API over handles (TLC: exhaustive small programs + simulation), programs replayed on every method through the real generic API and compared bit for bit with element-wise next",
   category="model_checking",
   text="spec/Api.tla: a handle's abstract state is the number of inputs consumed; every call form (next, over, call, apply, new_over, new_apply, into_fn/new_fn, with_history{next,get,iter}, with_last_value{next,peek}, peek, clone, snapshot) must return the slice ys[c+1..c+k] of ONE reference run and advance c by k; independence of handles is an action property checked by TLC. TLC enumerates every program of <= 4 operations (3 handles, chunks 0..2) and simulates longer ones; the harness replays them on 47 method subjects (29 through the real generic wrappers) x 3 streams (random, ties, movement-flat-movement), bit-exact; Buffered::get of SMA / Past / TRIMA against a mirror Window for indices up to 2^32; Api_deep adds one-handle programs with chunks of any size 0..24 followed by peek / another chunk, i.e. peek and bulk calls at every position of the stream.",
   design_ref="DESIGN.md 5/C09",
   note="Indicator-level over/init_fn are covered by C11's static-vs-dyn replay. Pair/candle-input methods run bulk operations element-wise (their generic bulk API does not exist for unsized inputs)."),
 "C10": dict(
   technique="TLA+ model of every constructor's pre-validation arithmetic evaluated by TLC on all parameter values (complete tables), replayed on the real constructors; accepted instances soaked",
   category="model_checking",
   text="spec/Params.tla models each method constructor and MA::init as coded (PeriodType arithmetic with overflow, Window::new's debug assertion, guards, nested constructors in evaluation order) with outcome ok/err/panic. TLC evaluates all 256 lengths (all 65536 pairs for two-parameter constructors, out-of-range counts) and prints the table; the harness calls the real constructors on the same complete sets in the dev profile and compares outcome classes, checks non-finite construction values, and runs every accepted instance for 700/3000 steps. Parameter values on which the model (and the code) panics are reported per constructor. Indicator level: spec/MC_IndParams enumerates every one- and two-field deviation from each indicator's default configuration over boundary grids per parameter type (35k configurations); the harness applies them through set(), and checks validate() = false => init Err, no panic in set/validate/init, and no panic of accepted instances on a stream. Accepted instances are also driven on long-regime streams (trends with ripple: hundreds of local peaks on one side of zero; rallies of more than PeriodType::MAX bars), the selection methods on TLC-enumerated token behaviours and on long zero-heavy token streams (signed zeros, ties) -- panics only.",
   design_ref="DESIGN.md 5/C10",
   note="Indicator validate/init tables are part of C11's replay; text parsing is covered by C18's grammar model."),
 "C13": dict(
   technique="TLA+ model checking (Window Serialize/Deserialize in every phase, SMM restore in every reachable state) + Api.tla snapshot programs and restore-before-every-call replays on TLC-enumerated streams, bit-exact",
   category="model_checking",
   text="Window.tla's Deserialize (validation, empty window) and Selection.tla's SmmRestore (slice rebuilt by sorting) are model-checked: a restored instance reads/continues like the original in every reachable state. Binding: Api.tla programs with snapshot/clone at every position replayed on all 47 method subjects through serde_json (lossless floats), original and restored futures bit-identical (two carriers: serde_json and an in-memory self-describing format that keeps floats native, so NaN fields such as the volume of a candle built from a 4-tuple survive); a snapshot at EVERY step of 260-step regime streams restores for all 47 subjects; Renko's restored brick boundaries are probed behaviourally; every MA kind in every MA-typed field, every source and every flag of every indicator configuration round-trips (config and running instance; field types are discovered through set(), not through the serialized form); every TLC-enumerated token stream replayed with the instance replaced by its restored snapshot before every call (signed zeros, ties); recorded Window programs with adversarial (buf,index) documents validated by Trace_Window (Err, never panic).",
   design_ref="DESIGN.md 5/C13",
   note="serde_json with float_roundtrip is the carrier; indicator instances/configs are added with the indicator registry."),
 "C16": dict(
   technique="TLA+ specification of the Action algebra checked completely by TLC (513 actions, 263169 pairs, edge triples, From<f64> grid) with the complete tables replayed on the real type; TLA+ trace validation (Trace_ActionSteps, exact big-integer arithmetic) of From<f32> as a step function over EVERY f32 bit pattern and of From<f64> on windows of consecutive patterns around every break point",
   category="model_checking",
   text="spec/Action.tla gives every conversion and operator as coded and the ratio algebra as laws; TLC checks all actions/pairs/triples and the From<f64> step function on every k/1020; laws the as-coded model violates are listed pair by pair and confirmed on the real type before being reported. TLC prints, per action, neg/ratio/analog/sign and the Sub/Eq/Cmp rows against all 513 actions, and the From<f64>/<f32> grid; the harness evaluates the same complete tables on the real type. Direction B: the harness visits all 4 278 190 082 non-NaN f32 patterns in numeric order (and all 16 777 214 NaNs; Option / reference forms on a subsample), records the maximal runs of equal results with their end points as exact dyadic rationals, and Trace_ActionSteps decides every run (both end points map to the run's action under the specified real-valued step function, runs tile the line from -inf to +inf); the same for f64 on +-3000 (quick) / +-200000 (thorough) consecutive patterns around each of the 256 break points (2k+1)/510, 256 fixed points k/255, +-1, +-0, subnormals, +-inf.",
   design_ref="DESIGN.md 5/C16",
   note="Between the two end points of a run the implementation was observed at every pattern; the specification is monotone there by construction. f64 admits either neighbour within 2^-43 of a tie (the product v*255 is rounded once)."),

 "C18": dict(
   technique="TLA+ model checking on complete grids (validate, true-range identity, candle aggregation) and a TLA+ grammar of the text forms, all rows replayed on the real types; trace validation of the numeric helpers in exact fixed point",
   category="model_checking",
   text="spec/Candle.tla: validate as coded equals the statement's predicate on all 32768 candles over {NaN,-Inf,-1,0,1,2,3,+Inf}^5 (IEEE comparison semantics); tr_close = three-way maximum on 0..8^3; Candle + Candle associative (incl. absent volumes) on all triples of a candle grid. spec/Parse.tla: Source::from_str and MA::from_str as grammars over character tuples; TLC enumerates canonical texts, every single-character edit of them and every short text with the grammar's verdict. Every row is replayed on Candle, the 5-tuple, the array and Sequence::validate / FromStr / TryFrom. Trace_Candle checks tp, hl2, ohlc4, volumed_price, source(kind), clv (exact 0 on zero range), tr_close and `+` on arbitrary finite candles in exact fixed point.",
   design_ref="DESIGN.md 5/C18",
   note="Strings are modelled as tuples of characters over the alphabet that matters for the two grammars plus foreign characters."),

 "C17": dict(
   technique="TLA+ model checking of CollapseTimeframe (implementation-shaped = definition, batch = streaming) and of the RenkoOutput iterator protocol, behaviours replayed; TLA+ trace validation of Renko, large-period CollapseTimeframe and HeikinAshi in exact fixed point",
   category="model_checking",
   text="spec/Convert.tla: CollapseTimeframe as coded (Option accumulator, counter) against the aggregate definition on every stream of 6 candles (periods 1..3), disjoint batch form = streaming outputs, sliding batch form; RenkoOutput's next/size_hint/count/nth/last for every (len, pos, n). TLC-emitted behaviours replayed on CollapseTimeframe::next/over and Sequence::collapse_timeframe. Trace_Convert keeps Renko's brick bounds in exact arithmetic from the public output and checks every recorded call: bricks iff the boundary is reached (near-boundary steps exempt from the which-side claim only), count = floor of the exact quotient and >= 1, bricks bit-contiguous, relative size b, one direction, total volume = consumed; prices are aimed exactly at / one ulp around the boundaries, with multi-brick jumps and reversals; periods up to 513 for CollapseTimeframe. HeikinAshi's recursion and valid-in => valid-out are checked by Trace_Num.",
   design_ref="DESIGN.md 5/C17",
   note="Renko's private next_block_upper/lower are read through Serialize only to aim inputs; verdicts use public outputs."),

 "C15": dict(
   technique="TLA+ relational trace validation: related runs of the real moving averages recorded side by side, the algebraic laws checked by TLC in exact fixed point; impulse responses against exact rational weight profiles for every length",
   category="model_checking",
   text="spec/Trace_Laws.tla states affine equivariance (any a incl. negative, any b), reproduction of constants, range containment for the non-negative kinds, superposition for the linear kinds, and the documented weight profile as exact rationals (SMA, WMA, SWMA, TRIMA, LinReg, Conv = its weight vector incl. zero weights at either end) or as the exact recurrence (EMA, DMA, TMA, DEMA, TEMA, RMA, WSMA). The harness runs the 15 MA kinds + Conv + VWMA in related instances on float streams and logs outputs; TLC checks every step within the summed allowances. Streams hold plateaus of exactly n-2..n+1 unchanged inputs, zero volumes, and run beyond 1024 steps; impulse responses are recorded for lengths 1..12,31..33,63,64,126..128,253,254 (quick) / all 1..254 (thorough), and again as LATE impulses (the unit input arrives after 252/508/995/1020/2044/4092/8188 quiet steps: time invariance of the profile).",
   design_ref="DESIGN.md 5/C15",
   note="Laws are relations between executions, so they need no evaluation of the average itself and are independent of C02/C03."),
 "C08": dict(
   technique="TLA+ metamorphic trace validation: constancy under the construction value and equality of later outputs for streams with k extra leading copies, checked by TLC in exact fixed point",
   category="model_checking",
   text="spec/Trace_Prefix.tla: an instance built from v and fed v k times (k in {1,2,n-1,n,n+1,3n}) returns a constant output -- bit-equal for selections/signals/counters, within the rounding allowance WITHOUT drift term for arithmetic outputs (squared domain for StDev) -- and then produces the same later outputs as an instance without the extra copies. Recorded for 42 method subjects (all lengths classes, special values 0, +-2^39, 2^-19, negative, flat and zero-volume candles) and for all 36 indicators with random valid configurations (every MA kind): values constant up to rounding, signals constant while the values are bit-constant, later results unchanged by k extra leading copies (signals compared while the two runs carry bit-identical values).",
   design_ref="DESIGN.md 5/C08",
   note="Exempt as the property states: windowless Integral/ADI (and indicators configured with them), CollapseTimeframe, Renko volume. Ratio outputs (CCI, ROC, TSI) are compared on streams without exactly repeated values."),

 "C05": dict(
   technique="TLA+ trace validation: one TLA+ module per indicator (36) carrying the indicator's state from init in exact fixed point; recorded executions of the real indicators validated value by value",
   category="model_checking",
   text="spec/I_<Name>.tla specify all 36 indicators (values) on top of MA.tla (the 15 MA kinds), Linear.tla, Recursive.tla. The harness initialises real instances from default and randomised valid configurations (reached through set(name, text), all MA kinds, all sources) and feeds valid candle streams (walks, plateaus, gaps, scale jumps, zero-volume bars); Trace_Ind carries the spec's own state and accepts a step only if every raw value is within the allowance of its formula (absolute, quotient by cross-multiplication, guarded quotient, squared domain for bands on a standard deviation) and the result has exactly size() values and signals.",
   design_ref="DESIGN.md 5/C05",
   note="Each module names the code's deviations from the textbook (documented crate behaviour is followed). FisherTransform's atanh is bracketed by a series to 1e-22. Vidya is used only for price-fed MA fields (its factor is 0/0 on exactly constant derived series)."),
 "C06": dict(
   technique="TLA+ trace validation: signal state machines over the implementation's own logged values (exact float ordering keys), branching on near-threshold comparisons",
   category="model_checking",
   text="Each I_<Name>.tla gives every signal as a deterministic state machine over the indicator's logged values, the candle and the config: crossings decided exactly on the ordering keys of the logged floats, zone tests against float-computed bounds branch when within rounding, reversal detectors as coded (model-checked against the pivot definition in C14), counters and latches, proportional signals through Action::from's step function. Trace_Ind explores the branches and accepts iff some path explains every recorded signal. The documented rule of TrendStrengthIndex (which the code contradicts) is validated separately and reported as a known finding.",
   design_ref="DESIGN.md 5/C06",
   note="Because the oracle takes the implementation's values as input, C06 is independent of C05's tolerance. After a non-numeric value in mid-stream the rest of that program's signals is not checked."),
 "C07": dict(
   technique="TLA+ model checking with a scaled-down PeriodType beyond counter saturation + TLA+ trace validation of long recorded streams and of checkpoints after 10^5 / 10^7 steps",
   category="model_checking",
   text="(i) MC_Tok with PMAX 7/15: the reversal detectors equal the pivot definition on every stream of any length (complete state graph), i.e. far beyond saturation of the position counter; recorded streams of 1500/20000 inputs on the real u8 counters validated by Trace_Tok. (ii) 19 numeric methods x 4 lengths process 10^5 (quick) / 10^7 (thorough) inputs with regime changes, then a checkpoint logs the recent inputs and the global magnitude; Trace_Num rebuilds the state from the recent inputs alone and checks the next outputs against the definition with the allowance at step t (linear in t): a long past behaves like a fresh instance primed with the last window (one trace per subject). (iii) recurrences (Vidya x3 traces, all 13 recursive subjects) and all 36 indicators on LONG-REGIME streams (steady rallies/declines of 270-470 bars without a pullback, flat and volatile stretches, scale jumps; 1500/5000 steps per program) validated from the first step by Trace_Num / Trace_Ind (values; signals).",
   design_ref="DESIGN.md 5/C07",
   note="Indicators are covered through their methods; exponential kinds drop inputs older than 24/alpha steps (weight < e^-48)."),
 "C11": dict(
   technique="TLA+ model of the configuration contract instantiated with the catalogue of public parameters (TLC enumerates every (name, text)), replayed on static and dyn configurations; Api.tla programs on every indicator (static vs dyn)",
   category="model_checking",
   text="spec/Config.tla: set(name, text) changes exactly the named public parameter to the value the text denotes for its type, else Err and unchanged; TLC enumerates per indicator all fields + foreign names x 22 texts and two-step sequences (29k programs), the harness replays them on the real static and dynamically dispatched configurations (observed through Serialize). Api.tla with the indicator operation set (init, next, over, init_fn, clone, snapshot) replayed on all 36 indicators, static and dyn, bit-exact; static vs dyn on every configuration MC_IndParams enumerates, valid or not (validate, name, size, init Ok/Err, over on 0/1/6 candles); IndicatorResult::new on every (nv, ns) in 0..6 x 0..6 (MC_Result: truncation to its capacity, all accessors); name(), size(), config(), default validity; the result shape is compared with size() at every step of 400-step streams with untraded stretches (runs of zero-volume candles, zero-volume first candle), and every result of every C05/C06 trace has exactly size() values and signals.",
   design_ref="DESIGN.md 5/C11",
   note="The catalogue is read from the serialized default configurations (the struct definitions)."),
 "C12": dict(
   technique="TLA+ invariants (Ranges.tla) evaluated by TLC on every step of recorded executions with exactly flat stretches, scale drops and zero-volume bars",
   category="model_checking",
   text="spec/Ranges.tla: Aroon, RSI, MFI, Stochastic (non-overshooting MA kinds) in [0,1]; Chande momentum, Chaikin money flow, TSI-based in [-1,1]; Bollinger/Keltner/Envelopes/PriceChannel ordered; Donchian contains the bar's high and low; SAR on the side opposite to its trend; finiteness where defined -- asserted (up to 1e-9) on the logged values of every step of regime-shaped traces of all indicators, with 8+ programs per ranged indicator on streams with one-sided stretches (closes at the high/low), untraded stretches, bars a few ulps high and small windows (volume-normalised quantities are exempt exactly while the whole window is untraded); dispersion methods also on scripted volatile -> exactly flat -> small-scale streams at scales 1..1e9; non-negativity of LinearVolatility, StDev, MeanAbsDev, MedianAbsDev, TR follows from the two-sided acceptance around a non-negative exact value (Trace_Num), CLV in [-1,1] from Trace_Candle.",
   design_ref="DESIGN.md 5/C12",
   note="ChandeMomentumOscillator's range violation after a scale drop is an open known finding with its own traces."),
 "C19": dict(
   technique="TLA+ model checking of the in-bounds invariants at every unchecked access site + TLC-generated tables/behaviours replayed on the unsafe build + identical transcripts of recorded programs under both builds",
   category="model_checking",
   text="Window.tla (push/newest/oldest/Index/iterators: InB, WIndexInBounds, WellFormed for all capacities and phases) and Selection.tla's SMM (find_index/find_insert_index results and the shifted range inside the slice in every reachable state) are model-checked; the TLC-emitted Window tables and token behaviours are replayed on a harness built with unsafe_performance; ten recorders (window, selection, reversal, numeric finite/recursive incl. boundary lengths, indicators, converters, and adversarial documents offered to Deserialize -- every array of every method snapshot shortened / lengthened / emptied, every small integer changed) run under both builds with calls that panic in the safe build left out, transcripts must be byte-identical.",
   design_ref="DESIGN.md 5/C19",
   note="Memory safety is claimed for the explored state space (model + conformance), not in general; Miri is an auxiliary monitor."),
 "C20": dict(
   technique="identical transcripts across PeriodType builds for parameters that fit u8; TLA+ trace validation with PMAX = 65535 for lengths beyond 255 and with eps = 2^-23 for the f32 build; MC_Window with 16-bit period arithmetic; TLAPS proofs (Window_proofs.tla, 129 obligations) of the ring arithmetic for an arbitrary PeriodType width",
   category="model_checking",
   text="(a) u16/u32 (thorough: u64, u16+unsafe) builds produce byte-identical transcripts to the default build for ten recorders pinned to PMAX = 255 (incl. boundary lengths up to PeriodType::MAX for the windowless methods, and adversarial documents offered to Deserialize); (b) on the u16 build, windows up to 999 and methods with lengths up to 999/399/299 (HMA beyond 255) are validated by Trace_Window / Trace_Tok / Trace_Num with PMAX = 65535; MC_Window re-checked with PMAX = 65535 for capacities 254..257, 300, 1000, and the ring lemmas (construction, slice_index = cell of the element pushed i steps ago or None, push overwrites the oldest cell without overflow and ages everything by one, newest/oldest cells, both iterator cursors) are machine-checked by tlapm for EVERY PMAX >= 3 and every capacity over the same definitions (spec/WindowCore.tla) that TLC checks; (c) the value_type_f32 build is validated by Trace_Num with the single-precision allowance and by Trace_Tok (selections, medians, reversals on mixed-sign tokens), and MC_Action's From<float> step function (every k/1020, special values) is replayed on Action::from(ValueType) of that build.",
   design_ref="DESIGN.md 5/C20",
   note="Generators are pinned through YV_PMAX so that programs are the same across builds."),
}

NOT_YET = {
}

def main():
    props = [json.loads(l) for l in open(os.path.join(ROOT, "properties.jsonl"))]
    checks = []
    for p in props:
        c = CHECKS.get(p["id"])
        if not c:
            continue
        checks.append({
            "property_id": p["id"],
            "quick_cmd": "bin/check %s --tier quick" % p["id"],
            "thorough_cmd": "bin/check %s --tier thorough" % p["id"],
            "evidence_file": "/verif/evidence/%s.json" % p["id"],
            "replay_cmd_template": "bin/check %s --replay {path}" % p["id"],
            "engine": "tlc+yv",
            "level_claimed": {"category": c["category"], "text": c["text"], "design_ref": c["design_ref"]},
            "level_note": c["note"],
            "technique": c["technique"],
        })
    na = [{"property_id": p["id"], "reason": NOT_YET.get(p["id"], "check not built yet in this round (planned in DESIGN.md section 5); no claim is made")}
          for p in props if p["id"] not in CHECKS]
    m = {
        "version": 1,
        "setup_cmd": "bin/setup",
        "hooks": {"guard": "yata_verif", "enable": "none needed: every property is observed through the public API (no source hooks); the harness is a separate crate with a path dependency on /repo",
                  "baseline_off_cmd": "cd /repo && cargo test --workspace --no-fail-fast --offline", "source_commits": [], "add_only": True},
        "engines": [{"name": "tlc+yv", "path": "/verif/bin/check", "serves_properties": [c["property_id"] for c in checks],
                     "kind_free_text": "explicit TLA+ specification (spec/*.tla) checked with TLC; bound to the implementation by the Rust harness /verif/harness (direction A: TLC-generated behaviours replayed on the real crate; direction B: recorded executions validated by TLA+ trace specifications)"}],
        "checks": checks,
        "notes": "Genuine defects repaired in /repo are unguarded 'fix:' commits listed in known_findings.json (status fixed); open findings are listed there too and reported as KNOWN-FINDING lines.",
        "not_applicable": na,
    }
    json.dump(m, open(os.path.join(ROOT, "MANIFEST.json"), "w"), indent=1)
    print("MANIFEST.json: %d checks, %d not_applicable" % (len(checks), len(na)))

main()
