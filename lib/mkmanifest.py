#!/usr/bin/env python3
"""Regenerates /verif/MANIFEST.json from the table below (single source of truth)."""
import json, os
ROOT = os.path.dirname(os.path.dirname(os.path.abspath(__file__)))

CHECKS = {
 "C01": dict(
   technique="TLA+ model checking (TLC, complete for all capacities/phases) + bidirectional conformance: TLC-emitted observer tables replayed on the real Window, recorded traces validated by a TLA+ trace spec",
   category="model_checking",
   text="spec/Window.tla gives the ring buffer twice (implementation-shaped PeriodType arithmetic; abstract 'last N pushes'); TLC proves every observer, iterator split, from_parts and serde round trip equal on ALL capacities 0..254 and every rotation phase (finite, complete for the default PeriodType). The model is bound to the code both ways: TLC prints the observer table of every state for capacities 0..9,253,254 and the harness compares all observers of real Window<u32|String|(u8,u64)|f64> objects with it; random programs (incl. adversarial from_parts/deserialize arguments) on the real type are recorded and validated event by event against the abstract machine by TLC.",
   design_ref="DESIGN.md 5/C01",
   note="Trusts TLC, the Json/IOUtils community modules and the harness adapters; labels stand for arbitrary element values (the container is parametric). Capacities beyond 254 (wider PeriodType features) are covered under C20."),
 "C04": dict(
   technique="TLA+ model checking over ordered tokens (TLC, all streams of any length over the alphabet) + bidirectional conformance (TLC-enumerated streams replayed under 9 float embeddings; recorded random streams validated by a TLA+ trace spec)",
   category="model_checking",
   text="spec/Selection.tla transcribes the cached-extremum/rescan logic, the index ageing and SMM's two binary searches + slice shift next to the definitions (max, min, newest arg-extremum, middle order statistics) over tokens <<rank, +-0 bit>>; TLC checks impl = definition in EVERY reachable state (the graph is finite without a depth bound, so every stream of every length over 5 ranks and -0.0 is covered for lengths 1..4 quick / 1..6 thorough), plus slice sortedness/permutation/in-bounds. Binding: TLC enumerates all streams of length n+3 over the alphabet and the harness replays them on the real methods under nine order-preserving float embeddings (exact comparison, sign of zero ignored); random streams for all lengths 1..254 (ties, plateaus, monotone runs, +-0) are recorded from the real code and validated by Trace_Tok against the definitions.",
   design_ref="DESIGN.md 5/C04",
   note="Token abstraction is sound because these algorithms only compare values and test bit-equality; NaN/inf inputs are rejected by the methods and not generated. The internal Window is read abstractly (C01)."),
 "C14": dict(
   technique="TLA+ model checking (TLC; crossing detectors complete, reversal detectors with a scaled-down PeriodType explored past counter saturation) + bidirectional conformance (enumerated streams replayed; recorded long streams validated by a TLA+ trace spec)",
   category="model_checking",
   text="spec/Cross.tla and Reversal.tla give the detectors as coded (last-delta sign; window + saturating/rebased PeriodType position counters) and definitionally (sign change rule; pivot of the surrounding left+right+1 elements with the documented tie rule). TLC checks impl = definition on every pair of streams (cross, incl. touches, repeated zeros, -0.0, antisymmetry) and, for the reversal detectors, on every stream of ANY length with PMAX scaled to 7 (quick) and 15 (thorough), i.e. far beyond saturation of the position counter. Binding: all streams up to depth 8/11 replayed on the real detectors under nine embeddings; recorded streams of 700-3000 inputs (all (left,right) classes incl. 1/252) validated against the definition by TLC.",
   design_ref="DESIGN.md 5/C14",
   note="Reversal programs start with the construction value as first input (Method::new's contract). The scaled-down PMAX model is tied to the real u8 counters by the long recorded streams."),
}

NOT_YET = {
}

def main():
    props = [json.loads(l) for l in open(os.path.join(ROOT, "properties.jsonl"))]
    checks = []
    for p in props:
        c = CHECKS.get(p["id"])
        if not c:
            continue
        checks.append({
            "property_id": p["id"],
            "quick_cmd": "bin/check %s --tier quick" % p["id"],
            "thorough_cmd": "bin/check %s --tier thorough" % p["id"],
            "evidence_file": "/verif/evidence/%s.json" % p["id"],
            "replay_cmd_template": "bin/check %s --replay {path}" % p["id"],
            "engine": "tlc+yv",
            "level_claimed": {"category": c["category"], "text": c["text"], "design_ref": c["design_ref"]},
            "level_note": c["note"],
            "technique": c["technique"],
        })
    na = [{"property_id": p["id"], "reason": NOT_YET.get(p["id"], "check not built yet in this round (planned in DESIGN.md section 5); no claim is made")}
          for p in props if p["id"] not in CHECKS]
    m = {
        "version": 1,
        "setup_cmd": "bin/setup",
        "hooks": {"guard": "yata_verif", "enable": "none needed: every property is observed through the public API (no source hooks); the harness is a separate crate with a path dependency on /repo",
                  "baseline_off_cmd": "cd /repo && cargo test --workspace --no-fail-fast --offline", "source_commits": [], "add_only": True},
        "engines": [{"name": "tlc+yv", "path": "/verif/bin/check", "serves_properties": [c["property_id"] for c in checks],
                     "kind_free_text": "explicit TLA+ specification (spec/*.tla) checked with TLC; bound to the implementation by the Rust harness /verif/harness (direction A: TLC-generated behaviours replayed on the real crate; direction B: recorded executions validated by TLA+ trace specifications)"}],
        "checks": checks,
        "notes": "Genuine defects repaired in /repo are unguarded 'fix:' commits listed in known_findings.json (status fixed); open findings are listed there too and reported as KNOWN-FINDING lines.",
        "not_applicable": na,
    }
    json.dump(m, open(os.path.join(ROOT, "MANIFEST.json"), "w"), indent=1)
    print("MANIFEST.json: %d checks, %d not_applicable" % (len(checks), len(na)))

main()
