"""Token-domain families (Selection, Cross, Reversal): model checking of MC_Tok, emission of
behaviours for replay (direction A), recording + trace validation (direction B)."""
import os, json
from verif import *

CFG_HEAD = """CONSTANTS
  PMAX = %(pmax)d
  SMM_TOTAL_ORDER = TRUE
  REV_REBASE = TRUE
  Inits <- %(inits)s
  Subjects = {%(subjects)s}
  Lens <- %(lens)s
  Ranks <- %(ranks)s
  WithNegZero = %(negzero)s
  EmitDepth = %(depth)d
  FirstIsInit = %(first)s
SPECIFICATION Spec
INVARIANTS %(invs)s
CHECK_DEADLOCK FALSE
"""


def write_cfg(name, **kw):
    d = workdir("cfg")
    path = os.path.join(d, name + ".cfg")
    kw["subjects"] = ", ".join('"%s"' % s for s in kw["subjects"])
    kw["negzero"] = "TRUE" if kw["negzero"] else "FALSE"
    kw["first"] = "TRUE" if kw["first"] else "FALSE"
    with open(path, "w") as f:
        f.write(CFG_HEAD % kw)
    return path


def harness_lines(out):
    return [json.loads(l) for l in out.splitlines() if l.startswith("{")]


def report(chk, lines, stage, only_restore=False, key_filter=None):
    for m in lines:
        if key_filter and m.get("kind") == "mismatch" and not key_filter(m["key"]):
            continue
        # mismatches that only appear after a snapshot/restore belong to C13; everything else to the family's property
        if m.get("kind") == "mismatch" and (("restore" in m["key"]) == only_restore):
            chk.finding(m["key"], {"stage": stage, "ctx": m.get("ctx"), "expected": m.get("expected"),
                                   "actual": m.get("actual")})


def mc(chk, cfg, what, consts, workers=None, timeout=3000):
    r = tlc("MC_Tok", cfg, workers=workers, timeout=timeout)
    if r.violation:
        chk.finding("model:%s:%s" % (os.path.basename(cfg).replace(".cfg", ""), r.violation),
                    {"stage": "MC", "config": cfg, "counterexample": r.cex})
    else:
        consts = dict(consts)
        consts["what"] = what
        chk.add_tlc(os.path.basename(cfg), r, consts)
    return r


def emit_replay(chk, yv, tag, jobs, nproc=6, only_restore=False, late=False, key_filter=None):
    """jobs: list of dicts of write_cfg arguments (one TLC run each, one worker each).
    Emits behaviours with TLC and replays them on the real crate."""
    wd = workdir(tag)

    def one(j):
        name = "%s_emit_%s_%s" % (tag, "_".join(j["subjects"]), j.get("suffix", ""))
        kw = {k: v for k, v in j.items() if k != "suffix"}
        cfg = write_cfg(name, invs="Conform Emit", **kw)
        r = tlc("MC_Tok", cfg, workers=1, timeout=3000)
        if r.violation:
            return (name, r, None, None)
        if r.error:
            raise ToolError("%s: %s" % (name, r.error))
        rows = [p for t, p in r.printed if t == "REPLAY"]
        if not rows:
            raise ToolError("%s: no behaviours emitted" % name)
        f = os.path.join(wd, name + ".ndjson")
        write_ndjson(f, rows)
        if late:
            # (run_harness inherits the environment: the late replays are on for every replay of this call)
            os.environ["YV_LATE"] = "1"
        try:
            lines = harness_lines(run_harness(yv, ["tok-replay", f], timeout=3000))
        finally:
            os.environ.pop("YV_LATE", None)
        return (name, r, rows, lines)

    total_rows = total_calls = 0
    for name, r, rows, lines in parallel(jobs, one, nproc=nproc):
        if rows is None:
            chk.finding("model:%s:%s" % (name, r.violation), {"stage": "A:emit", "counterexample": r.cex})
            continue
        chk.add_tlc(name, r, {})
        report(chk, lines, "A:replay", only_restore, key_filter)
        summ = [l for l in lines if l.get("kind") == "summary"][0]
        total_rows += len(rows)
        total_calls += summ["extra"]["calls"]
        if len(chk.cov["samples"]) < 6:
            chk.sample({"direction": "A", "behaviour": rows[len(rows) // 2]})
    chk.cov["replayed_behaviours"] += total_rows
    chk.cov["traces_validated_against_impl"] += total_rows
    chk.stage("A:" + tag, behaviours=total_rows, real_calls=total_calls, embeddings=11)


def record_validate(chk, yv, tag, family, nfiles, programs, steps, nproc=8):
    wd = workdir(tag)
    jobs = []
    for i in range(nfiles):
        f = os.path.join(wd, "trace_%s_%d.ndjson" % (family, i))
        out = harness_lines(run_harness(yv, ["tok-record", family, chk.seed * 1000 + i, programs, steps, f]))
        jobs.append((f, out[0]["events"]))

    def validate(job):
        f, n = job
        ok, info, r = tlc_trace("Trace_Tok", "Trace_Tok.cfg", f)
        return (f, n, ok, info, r)

    total = 0
    for f, n, ok, info, r in parallel(jobs, validate, nproc=nproc):
        if ok:
            total += n
            chk.cov["transitions"] += r.generated
            chk.cov["states"] += r.distinct
        else:
            evs = read_ndjson(f)
            k = info["matched"]
            # the program the rejected event belongs to
            start = max(i for i in range(k + 1) if evs[i]["ev"] == "new")
            subj = evs[start]["subject"]
            chk.finding("%s:next:trace" % subj, {"stage": "B:trace", "trace": f, "rejected_at": info,
                                                "program": evs[start], "prefix_len": k - start})
    chk.cov["events_validated"] += total
    chk.cov["traces_validated_against_impl"] += len(jobs)
    chk.stage("B:" + tag + ":" + family, traces=len(jobs), events=total)
    if jobs:
        chk.sample({"direction": "B", "events": read_ndjson(jobs[0][0])[:5]})
