"""Shared machinery of /verif/bin/check: building the harness against /repo's working
tree, running TLC (model checking, simulation, trace validation), known findings,
evidence files, VIOLATION / KNOWN-FINDING reporting."""
import json, os, re, subprocess, sys, time, shutil, hashlib, glob

ROOT = os.path.dirname(os.path.dirname(os.path.abspath(__file__)))
WORK = os.path.join(ROOT, ".work")
SPEC = os.path.join(ROOT, "spec")
HARNESS = os.path.join(ROOT, "harness")
TLAJAR = "/opt/veriftools/tla/tla2tools.jar:/opt/veriftools/tla/CommunityModules-deps.jar"
NCPU = os.cpu_count() or 8


CLASSES = os.path.join(WORK, "classes")


def ensure_overrides():
    """Compile spec/java/*.java (TLC module overrides: Big.tla's operators on java.math.BigInteger)."""
    src = os.path.join(SPEC, "java", "Big.java")
    cls = os.path.join(CLASSES, "Big.class")
    if os.path.exists(cls) and os.path.getmtime(cls) >= os.path.getmtime(src):
        return
    os.makedirs(CLASSES, exist_ok=True)
    r = subprocess.run(["javac", "-cp", TLAJAR.split(":")[0], "-d", CLASSES, src], stdout=subprocess.PIPE,
                       stderr=subprocess.STDOUT, text=True)
    if r.returncode != 0:
        raise ToolError("javac Big.java: " + r.stdout[-2000:])


class ToolError(Exception):
    pass


def log(*a):
    print(*a, file=sys.stderr, flush=True)


def workdir(name):
    d = os.path.join(WORK, name)
    os.makedirs(d, exist_ok=True)
    return d


# --------------------------------------------------------------------------- harness

_built = {}


def build_harness(release=False, features=()):
    """cargo build of /verif/harness against /repo's current working tree."""
    key = (release, tuple(sorted(features)))
    if key in _built:
        return _built[key]
    env = dict(os.environ)
    env.update(CARGO_NET_OFFLINE="true", RUST_BACKTRACE="0")
    cmd = ["cargo", "build", "--offline", "--quiet"]
    if release:
        cmd.append("--release")
    if features:
        cmd += ["--features", ",".join(features)]
    t0 = time.time()
    r = subprocess.run(cmd, cwd=HARNESS, env=env, stdout=subprocess.PIPE, stderr=subprocess.STDOUT, text=True)
    if r.returncode != 0:
        errs = [l for l in r.stdout.splitlines() if l.startswith("error")]
        raise ToolError("harness build failed: " + "; ".join(errs[:5]) + "\n" + r.stdout[-3000:])
    src = os.path.join(WORK, "target", "release" if release else "debug", "yv")
    # keep one copy per feature set: later builds with other features overwrite target/<profile>/yv
    tag = ("rel" if release else "dev") + ("-" + "-".join(sorted(features)) if features else "")
    dst = os.path.join(workdir("bin"), "yv-" + tag)
    tmp = dst + ".%d.tmp" % os.getpid()
    shutil.copy2(src, tmp)
    os.replace(tmp, dst)          # atomic: another check may be executing the old copy
    log(f"[build] harness {tag} {time.time()-t0:.1f}s")
    _built[key] = dst
    return dst


def run_harness(binary, args, timeout=600, stdin=None):
    env = dict(os.environ)
    env["RUST_BACKTRACE"] = "0"
    try:
        r = subprocess.run([binary] + [str(a) for a in args], env=env, input=stdin, stdout=subprocess.PIPE,
                           stderr=subprocess.PIPE, text=True, timeout=timeout)
    except subprocess.TimeoutExpired:
        raise ToolError(f"harness timeout: {args}")
    if r.returncode not in (0,):
        raise ToolError(f"harness {args} exited {r.returncode}: {r.stderr[-2000:]}")
    return r.stdout


# --------------------------------------------------------------------------- TLC

class TLCResult:
    def __init__(self):
        self.generated = 0
        self.distinct = 0
        self.depth = 0
        self.printed = []      # parsed PrintT tuples whose first element is a tag string
        self.violation = None  # name of the violated invariant / property
        self.error = None      # other TLC error text
        self.raw = ""
        self.wall = 0.0
        self.coverage = {}
        self.cex = ""


import itertools
_counter = itertools.count()
_PRINT_RE = re.compile(r'^<<"([A-Z]+)", (.*)>>$')


def _unquote(tla_string):
    # TLC prints strings with \" and \\ escapes; a JSON string literal has the same syntax
    return json.loads(tla_string)


def tlc(module, cfg, workers=None, simulate=None, depth=None, seed=None, env=None, timeout=900,
        coverage=False, xmx="4g", xss="64m", deque=False, tags=("ROW", "EDGE", "REPLAY", "FAIL", "INFO"),
        keep_raw=False, overrides=True):
    """Run TLC on spec/<module>.tla with spec/<cfg>. Returns TLCResult."""
    res = TLCResult()
    meta = workdir("tlc/%s-%d-%d" % (cfg.replace(".cfg", ""), os.getpid(), next(_counter)))
    jopts = ["-XX:+UseSerialGC", "-Xmx" + xmx, "-Xss" + xss, "-Djava.io.tmpdir=" + meta]   # TLC leaves tlc-<n> dirs in tmpdir   # measured: ParallelGC burns 20x more sys time
    if deque:
        jopts.append("-Dtlc2.tool.queue.IStateQueue=StateDeque")
    if overrides:
        ensure_overrides()
    cmd = ["java"] + jopts + ["-cp", TLAJAR + (":" + CLASSES if overrides else ""), "tlc2.TLC", "-workers", str(workers or NCPU), "-metadir", meta,
                              "-cleanup", "-noGenerateSpecTE", "-config", cfg]
    if simulate:
        cmd += ["-simulate", "num=%d" % simulate]
    if depth:
        cmd += ["-depth", str(depth)]
    if seed is not None:
        cmd += ["-seed", str(seed)]
    if coverage:
        cmd += ["-coverage", "1"]
    cmd.append(module + ".tla")
    e = dict(os.environ)
    e.pop("JAVA_TOOL_OPTIONS", None)
    if env:
        e.update({k: str(v) for k, v in env.items()})
    t0 = time.time()
    try:
        p = subprocess.run(cmd, cwd=SPEC, env=e, stdout=subprocess.PIPE, stderr=subprocess.STDOUT, text=True,
                           timeout=timeout)
        out = p.stdout
        rc = p.returncode
    except subprocess.TimeoutExpired as ex:
        out = (ex.stdout or b"").decode() if isinstance(ex.stdout, bytes) else (ex.stdout or "")
        rc = -9
        res.error = "timeout after %ds" % timeout
    res.wall = time.time() - t0
    shutil.rmtree(meta, ignore_errors=True)
    lines = out.splitlines()
    keep = []
    for ln in lines:
        m = _PRINT_RE.match(ln)
        if m and m.group(1) in tags:
            try:
                res.printed.append((m.group(1), json.loads(_unquote(m.group(2)))))
            except Exception:
                res.printed.append((m.group(1), m.group(2)))
            continue
        keep.append(ln)
        m = re.match(r"^(\d+) states generated, (\d+) distinct states found", ln)
        if m:
            res.generated, res.distinct = int(m.group(1)), int(m.group(2))
        m = re.match(r"^The depth of the complete state graph search is (\d+)", ln)
        if m:
            res.depth = int(m.group(1))
        m = re.match(r"^Error: Invariant (\S+) is violated", ln)
        if m:
            res.violation = m.group(1)
        m = re.match(r"^Error: Action property (\S+) is violated", ln)
        if m:
            res.violation = m.group(1)
        if ln.startswith("Error: Temporal properties were violated"):
            res.violation = "temporal"
        m = re.match(r"^<(\w+) line \d+, col \d+ to line \d+, col \d+ of module (\w+)>: (\d+):(\d+)", ln)
        if m:
            res.coverage[m.group(1)] = (int(m.group(3)), int(m.group(4)))
    res.raw = "\n".join(l for l in keep if not l.startswith(("Parsing file", "Semantic processing", "Linting of")))
    if res.violation:
        i = res.raw.find("Error: ")
        res.cex = res.raw[i:i + 6000]
    elif res.error is None and ("Error:" in res.raw or rc not in (0,)):
        i = res.raw.find("Error:")
        res.error = res.raw[i:i + 3000] if i >= 0 else "TLC exit %d: %s" % (rc, res.raw[-1500:])
    if not keep_raw and not res.error and not res.violation:
        res.raw = res.raw[-2000:]
    return res


def tlc_trace(module, cfg, trace_file, extra_env=None, timeout=900, xmx="3g"):
    """Trace validation: TRACE=<file>, one worker, depth-first queue. The trace spec prints
    <<"FAIL", json>> from its POSTCONDITION when the trace is not accepted. Returns
    (accepted, info, TLCResult)."""
    env = {"TRACE": trace_file}
    if extra_env:
        env.update(extra_env)
    r = tlc(module, cfg, workers=1, env=env, timeout=timeout, xmx=xmx, xss="1g", deque=True)
    fail = [p for t, p in r.printed if t == "FAIL"]
    if r.violation == "NotDone":
        # the trace spec consumed every event: TLC stops at once (NotDone is the acceptance marker, not a property)
        r.violation = None
        return True, None, r
    if r.violation and not fail:
        raise ToolError("trace validation %s %s: invariant %s violated\n%s" % (module, trace_file, r.violation, r.cex[:1500]))
    if r.error and not fail:
        raise ToolError("trace validation %s %s: %s" % (module, trace_file, r.error))
    if fail:
        return False, fail[0], r
    return True, None, r



def tlaps(module, deps, timeout=600):
    """Check the TLAPS proofs of spec/<module>.tla (and the modules it extends, `deps`) with tlapm in a scratch copy.
    Returns the number of proved obligations; raises ToolError when an obligation is not proved (a proof is about the
    SPECIFICATION, so a failure is never reported as a violation of the code)."""
    d = workdir("tlaps/%s-%d-%d" % (module, os.getpid(), next(_counter)))
    for m in [module] + list(deps):
        shutil.copy(os.path.join(SPEC, m + ".tla"), d)
    try:
        p = subprocess.run(["tlapm", "--threads", "4", module + ".tla"], cwd=d, stdout=subprocess.PIPE, stderr=subprocess.STDOUT,
                           text=True, timeout=timeout)
    except subprocess.TimeoutExpired:
        raise ToolError("tlapm %s: timeout" % module)
    finally:
        pass
    m = re.search(r"All (\d+) obligations? proved", p.stdout)
    shutil.rmtree(d, ignore_errors=True)
    if not m:
        raise ToolError("tlapm %s: %s" % (module, p.stdout[-1200:]))
    return int(m.group(1))

def background(fn, *a, **kw):
    """Run fn in a thread; returns a handle whose .result() re-raises."""
    from concurrent.futures import ThreadPoolExecutor
    ex = ThreadPoolExecutor(max_workers=1)
    fut = ex.submit(fn, *a, **kw)
    ex.shutdown(wait=False)
    return fut


def parallel(jobs, fn, nproc=None):
    """Run fn(job) for every job in a thread pool (each job spawns its own process)."""
    from concurrent.futures import ThreadPoolExecutor
    with ThreadPoolExecutor(max_workers=nproc or NCPU) as ex:
        return list(ex.map(fn, jobs))


# --------------------------------------------------------------------------- check bookkeeping

class Check:
    def __init__(self, pid, tier, seed, level="model_checking"):
        self.pid, self.tier, self.seed, self.level = pid, tier, seed, level
        self.t0 = time.time()
        self.violations = []     # (key, detail dict)
        self.known_seen = []
        self.cov = {"states": 0, "transitions": 0, "traces_validated_against_impl": 0, "samples": [],
                    "configs": [], "stages": {}, "events_validated": 0, "replayed_behaviours": 0}
        self.assumptions = []
        kf = os.path.join(ROOT, "known_findings.json")
        self.known = [k for k in (json.load(open(kf)) if os.path.exists(kf) else []) if k.get("property") == pid]

    # -- TLC bookkeeping
    def add_tlc(self, name, r, constants=None):
        if r.error:
            raise ToolError("%s: %s" % (name, r.error))
        self.cov["states"] += r.distinct
        self.cov["transitions"] += r.generated
        self.cov["configs"].append({"config": name, "constants": constants or {}, "generated": r.generated,
                                    "distinct": r.distinct, "depth": r.depth, "wall_s": round(r.wall, 1)})

    def sample(self, s):
        if len(self.cov["samples"]) < 12:
            self.cov["samples"].append(s)

    def stage(self, name, **kw):
        self.cov["stages"].setdefault(name, {}).update(kw)

    # -- findings
    def finding(self, key, detail):
        """A discrepancy between spec and code (or a violated invariant). `key` is
        "<subject>:<site>:<class>"; it is matched against known_findings.json."""
        for k in self.known:
            if k.get("status", "open") == "open" and k["key"] == key:
                if key not in self.known_seen:
                    self.known_seen.append(key)
                    print("KNOWN-FINDING: property=%s %s -- %s" % (self.pid, key, k.get("what", "")), flush=True)
                return False
        if any(v[0] == key for v in self.violations):
            return True
        d = os.path.join(ROOT, "replays", self.pid)
        os.makedirs(d, exist_ok=True)
        path = os.path.join(d, "%s.json" % hashlib.sha1(key.encode()).hexdigest()[:10])
        body = {"property": self.pid, "key": key, "tier": self.tier, "seed": self.seed}
        body.update(detail)
        with open(path, "w") as f:
            json.dump(body, f, indent=1, default=str)
        self.violations.append((key, path))
        print("VIOLATION property=%s replay=%s" % (self.pid, path), flush=True)
        log("  violation key=%s detail=%s" % (key, json.dumps(detail, default=str)[:1500]))
        return True

    def finish(self):
        wall = time.time() - self.t0
        cov = self.cov
        cov["known_findings_observed"] = self.known_seen
        if not cov["samples"]:
            cov["samples"] = ["(no sample recorded)"]
        ev = {"property_id": self.pid, "tier": self.tier, "seed": self.seed, "level": self.level,
              "coverage": cov, "assumptions": self.assumptions, "wall_s": round(wall, 1),
              "violations": len(self.violations)}
        os.makedirs(os.path.join(ROOT, "evidence"), exist_ok=True)
        with open(os.path.join(ROOT, "evidence", self.pid + ".json"), "w") as f:
            json.dump(ev, f, indent=1, default=str)
        log("[%s] %s tier=%s states=%d transitions=%d traces=%d violations=%d known=%d wall=%.1fs" % (
            self.pid, "FAIL" if self.violations else "ok", self.tier, cov["states"], cov["transitions"],
            cov["traces_validated_against_impl"], len(self.violations), len(self.known_seen), wall))
        return 1 if self.violations else 0


def write_ndjson(path, events):
    with open(path, "w") as f:
        for e in events:
            f.write(json.dumps(e, separators=(",", ":")) + "\n")


def read_ndjson(path):
    return [json.loads(l) for l in open(path) if l.strip()]
