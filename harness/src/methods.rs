//! Registry of every method of the crate behind one dynamic interface (public API only):
//! construct, next, peek, clone, snapshot (serde_json) / restore.
use crate::util::*;
use serde_json::{json, Value};
use yata::core::{Action, Candle, Method, PeriodType, ValueType};
use yata::helpers::Peekable;
use yata::methods::*;

#[derive(Clone, Debug)]
pub enum In {
	S(f64),
	P(f64, f64),
	C(Candle),
}

#[derive(Clone, Debug, PartialEq)]
pub enum Out {
	F(f64),
	I(i64),
	A(i64),
	C(Candle),
	OC(Option<Candle>),
}

pub fn candle(o: f64, h: f64, l: f64, c: f64, v: f64) -> Candle {
	Candle { open: o as ValueType, high: h as ValueType, low: l as ValueType, close: c as ValueType, volume: v as ValueType }
}

impl In {
	pub fn s(&self) -> ValueType {
		match self {
			In::S(x) => *x as ValueType,
			_ => panic!("scalar input expected"),
		}
	}
	pub fn p(&self) -> (ValueType, ValueType) {
		match self {
			In::P(a, b) => (*a as ValueType, *b as ValueType),
			_ => panic!("pair input expected"),
		}
	}
	pub fn c(&self) -> Candle {
		match self {
			In::C(c) => *c,
			_ => panic!("candle input expected"),
		}
	}
	/// fixed-point JSON for the trace specs
	pub fn fx(&self) -> Value {
		match self {
			// what the method actually receives: the value rounded to ValueType (f32 builds)
			In::S(x) => fx(*x as ValueType as f64),
			In::P(a, b) => json!([fx(*a as ValueType as f64), fx(*b as ValueType as f64)]),
			In::C(c) => candle_fx(c),
		}
	}
	pub fn bits(&self) -> Value {
		match self {
			In::S(x) => json!(bits(*x as ValueType as f64)),
			In::P(a, b) => json!([bits(*a as ValueType as f64), bits(*b as ValueType as f64)]),
			In::C(c) => json!([bits(c.open as f64), bits(c.high as f64), bits(c.low as f64), bits(c.close as f64), bits(c.volume as f64)]),
		}
	}
}

pub fn candle_fx(c: &Candle) -> Value {
	json!({"o": fx(c.open as f64), "h": fx(c.high as f64), "l": fx(c.low as f64), "c": fx(c.close as f64), "v": fx(c.volume as f64)})
}

impl Out {
	pub fn fx(&self) -> Value {
		match self {
			Out::F(x) => fx(*x),
			Out::I(i) => json!(i),
			Out::A(a) => json!(a),
			Out::C(c) => candle_fx(c),
			Out::OC(None) => json!(null),
			Out::OC(Some(c)) => candle_fx(c),
		}
	}
	/// bit-exact form (for identity comparisons between executions)
	pub fn bits(&self) -> Value {
		match self {
			Out::F(x) => json!(bits(*x)),
			Out::I(i) => json!(i),
			Out::A(a) => json!(["a", a]),
			Out::C(c) => In::C(*c).bits(),
			Out::OC(None) => json!(null),
			Out::OC(Some(c)) => In::C(*c).bits(),
		}
	}
	pub fn f(&self) -> f64 {
		match self {
			Out::F(x) => *x,
			Out::I(i) => *i as f64,
			Out::A(a) => *a as f64,
			_ => f64::NAN,
		}
	}
}

pub fn act_code(a: Action) -> i64 {
	crate::action::code(a)
}

pub trait DynM {
	fn next(&mut self, x: &In) -> Out;
	fn peek(&self) -> Option<Out>;
	fn boxed_clone(&self) -> Box<dyn DynM>;
	fn snapshot(&self) -> String;
	/// round trip through the in-memory format (floats native: NaN fields survive)
	fn mem_roundtrip(&self) -> Result<Box<dyn DynM>, String>;
	fn mname(&self) -> String;
}

trait ToOut {
	fn to_out(self) -> Out;
}
impl ToOut for ValueType {
	fn to_out(self) -> Out {
		Out::F(self as f64)
	}
}
impl ToOut for PeriodType {
	fn to_out(self) -> Out {
		Out::I(self as i64)
	}
}
impl ToOut for Action {
	fn to_out(self) -> Out {
		Out::A(act_code(self))
	}
}
impl ToOut for Candle {
	fn to_out(self) -> Out {
		Out::C(self)
	}
}
impl ToOut for Option<Candle> {
	fn to_out(self) -> Out {
		Out::OC(self)
	}
}

macro_rules! dynm {
	($ty:ty, $x:ident => $conv:expr, peek) => {
		impl DynM for $ty {
			fn next(&mut self, $x: &In) -> Out {
				Method::next(self, $conv).to_out()
			}
			fn peek(&self) -> Option<Out> {
				Some(Peekable::peek(self).to_out())
			}
			fn boxed_clone(&self) -> Box<dyn DynM> {
				Box::new(self.clone())
			}
			fn snapshot(&self) -> String {
				serde_json::to_string(self).unwrap()
			}
			fn mem_roundtrip(&self) -> Result<Box<dyn DynM>, String> {
				crate::memfmt::from_value::<$ty>(crate::memfmt::to_value(self)).map(|m| Box::new(m) as Box<dyn DynM>).map_err(|e| e.to_string())
			}
			fn mname(&self) -> String {
				Method::name(self).to_string()
			}
		}
	};
	($ty:ty, $x:ident => $conv:expr, nopeek) => {
		impl DynM for $ty {
			fn next(&mut self, $x: &In) -> Out {
				Method::next(self, $conv).to_out()
			}
			fn peek(&self) -> Option<Out> {
				None
			}
			fn boxed_clone(&self) -> Box<dyn DynM> {
				Box::new(self.clone())
			}
			fn snapshot(&self) -> String {
				serde_json::to_string(self).unwrap()
			}
			fn mem_roundtrip(&self) -> Result<Box<dyn DynM>, String> {
				crate::memfmt::from_value::<$ty>(crate::memfmt::to_value(self)).map(|m| Box::new(m) as Box<dyn DynM>).map_err(|e| e.to_string())
			}
			fn mname(&self) -> String {
				Method::name(self).to_string()
			}
		}
	};
}

dynm!(SMA, x => &x.s(), peek);
dynm!(WMA, x => &x.s(), peek);
dynm!(SWMA, x => &x.s(), peek);
dynm!(TRIMA, x => &x.s(), peek);
dynm!(HMA, x => &x.s(), peek);
dynm!(LinReg, x => &x.s(), peek);
dynm!(Conv, x => &x.s(), peek);
dynm!(VWMA, x => &x.p(), peek);
dynm!(Integral, x => &x.s(), peek);
dynm!(Derivative, x => &x.s(), nopeek);
dynm!(Momentum, x => &x.s(), nopeek);
dynm!(RateOfChange, x => &x.s(), nopeek);
dynm!(Past<ValueType>, x => &x.s(), peek);
dynm!(StDev, x => &x.s(), peek);
dynm!(MeanAbsDev, x => &x.s(), peek);
dynm!(MedianAbsDev, x => &x.s(), peek);
dynm!(CCI, x => &x.s(), nopeek);
dynm!(LinearVolatility, x => &x.s(), peek);
dynm!(ADI, x => &x.c(), peek);
dynm!(EMA, x => &x.s(), peek);
dynm!(DMA, x => &x.s(), peek);
dynm!(TMA, x => &x.s(), peek);
dynm!(DEMA, x => &x.s(), peek);
dynm!(TEMA, x => &x.s(), peek);
dynm!(RMA, x => &x.s(), peek);
dynm!(WSMA, x => &x.s(), peek);
dynm!(TSI, x => &x.s(), peek);
dynm!(Vidya, x => &x.s(), peek);
dynm!(TR, x => &x.c(), nopeek);
dynm!(HeikinAshi, x => &x.c(), nopeek);
dynm!(SMM, x => &x.s(), peek);
dynm!(Highest, x => &x.s(), peek);
dynm!(Lowest, x => &x.s(), peek);
dynm!(HighestLowestDelta, x => &x.s(), peek);
dynm!(HighestIndex, x => &x.s(), peek);
dynm!(LowestIndex, x => &x.s(), peek);
dynm!(CrossAbove, x => &x.p(), nopeek);
dynm!(CrossUnder, x => &x.p(), nopeek);
dynm!(Cross, x => &x.p(), nopeek);
dynm!(UpperReversalSignal, x => &x.s(), nopeek);
dynm!(LowerReversalSignal, x => &x.s(), nopeek);
dynm!(ReversalSignal, x => &x.s(), nopeek);
dynm!(CollapseTimeframe<Candle>, x => &x.c(), nopeek);

pub const SCALAR_P: &[&str] = &[
	"SMA", "WMA", "SWMA", "TRIMA", "HMA", "LinReg", "Integral", "Derivative", "Momentum", "RateOfChange", "Past", "StDev",
	"MeanAbsDev", "MedianAbsDev", "CCI", "LinearVolatility", "EMA", "DMA", "TMA", "DEMA", "TEMA", "RMA", "WSMA", "Vidya", "SMM",
	"Highest", "Lowest", "HighestLowestDelta", "HighestIndex", "LowestIndex",
];

/// kind of input a subject takes: 's' scalar, 'p' pair, 'c' candle
pub fn input_kind(subject: &str) -> char {
	match subject {
		"VWMA" | "CrossAbove" | "CrossUnder" | "Cross" => 'p',
		"ADI" | "ADI0" | "TR" | "HeikinAshi" | "CollapseTimeframe" => 'c',
		_ => 's',
	}
}

fn p1(params: &Value) -> PeriodType {
	params[0].as_u64().expect("length parameter") as PeriodType
}

fn er<T>(r: Result<T, yata::core::Error>) -> Result<T, String> {
	r.map_err(|e| format!("{e:?}"))
}

/// Construct a subject. Outer Err: panic; inner Err: the constructor's error.
pub fn build(subject: &str, params: &Value, init: &In) -> Result<Result<Box<dyn DynM>, String>, String> {
	let subject = subject.to_string();
	let params = params.clone();
	let init = init.clone();
	catch(move || -> Result<Box<dyn DynM>, String> {
		macro_rules! b {
			($ty:ty, $p:expr, $v:expr) => {
				Box::new(er(<$ty as Method>::new($p, $v))?) as Box<dyn DynM>
			};
		}
		Ok(match subject.as_str() {
			"SMA" => b!(SMA, p1(&params), &init.s()),
			"WMA" => b!(WMA, p1(&params), &init.s()),
			"SWMA" => b!(SWMA, p1(&params), &init.s()),
			"TRIMA" => b!(TRIMA, p1(&params), &init.s()),
			"HMA" => b!(HMA, p1(&params), &init.s()),
			"LinReg" => b!(LinReg, p1(&params), &init.s()),
			"Conv" => {
				let w: Vec<ValueType> = params.as_array().unwrap().iter().map(|x| from_bits(x.as_str().unwrap()) as ValueType).collect();
				b!(Conv, w, &init.s())
			}
			"VWMA" => b!(VWMA, p1(&params), &init.p()),
			"Integral" | "Integral0" => b!(Integral, p1(&params), &init.s()),
			"Derivative" => b!(Derivative, p1(&params), &init.s()),
			"Momentum" => b!(Momentum, p1(&params), &init.s()),
			"RateOfChange" => b!(RateOfChange, p1(&params), &init.s()),
			"Past" => b!(Past<ValueType>, p1(&params), &init.s()),
			"StDev" => b!(StDev, p1(&params), &init.s()),
			"MeanAbsDev" => b!(MeanAbsDev, p1(&params), &init.s()),
			"MedianAbsDev" => b!(MedianAbsDev, p1(&params), &init.s()),
			"CCI" => b!(CCI, p1(&params), &init.s()),
			"LinearVolatility" => b!(LinearVolatility, p1(&params), &init.s()),
			"ADI" | "ADI0" => b!(ADI, p1(&params), &init.c()),
			"EMA" => b!(EMA, p1(&params), &init.s()),
			"DMA" => b!(DMA, p1(&params), &init.s()),
			"TMA" => b!(TMA, p1(&params), &init.s()),
			"DEMA" => b!(DEMA, p1(&params), &init.s()),
			"TEMA" => b!(TEMA, p1(&params), &init.s()),
			"RMA" => b!(RMA, p1(&params), &init.s()),
			"WSMA" => b!(WSMA, p1(&params), &init.s()),
			"TSI" => b!(TSI, (p1(&params), params[1].as_u64().unwrap() as PeriodType), &init.s()),
			"Vidya" => b!(Vidya, p1(&params), &init.s()),
			"TR" => b!(TR, (), &init.c()),
			"HeikinAshi" => b!(HeikinAshi, (), &init.c()),
			"SMM" => b!(SMM, p1(&params), &init.s()),
			"Highest" => b!(Highest, p1(&params), &init.s()),
			"Lowest" => b!(Lowest, p1(&params), &init.s()),
			"HighestLowestDelta" => b!(HighestLowestDelta, p1(&params), &init.s()),
			"HighestIndex" => b!(HighestIndex, p1(&params), &init.s()),
			"LowestIndex" => b!(LowestIndex, p1(&params), &init.s()),
			"CrossAbove" => b!(CrossAbove, (), &init.p()),
			"CrossUnder" => b!(CrossUnder, (), &init.p()),
			"Cross" => b!(Cross, (), &init.p()),
			"UpperReversalSignal" => b!(UpperReversalSignal, (p1(&params), params[1].as_u64().unwrap() as PeriodType), &init.s()),
			"LowerReversalSignal" => b!(LowerReversalSignal, (p1(&params), params[1].as_u64().unwrap() as PeriodType), &init.s()),
			"ReversalSignal" => b!(ReversalSignal, (p1(&params), params[1].as_u64().unwrap() as PeriodType), &init.s()),
			"CollapseTimeframe" => b!(CollapseTimeframe<Candle>, params[0].as_u64().unwrap() as usize, &init.c()),
			other => panic!("unknown subject {other}"),
		})
	})
}

/// Deserialize a snapshot. Outer Err: panic; inner Err: deserialization error.
pub fn restore(subject: &str, text: &str) -> Result<Result<Box<dyn DynM>, String>, String> {
	let subject = subject.to_string();
	let text = text.to_string();
	catch(move || -> Result<Box<dyn DynM>, String> {
		macro_rules! r {
			($ty:ty) => {
				Box::new(serde_json::from_str::<$ty>(&text).map_err(|e| e.to_string())?) as Box<dyn DynM>
			};
		}
		Ok(match subject.as_str() {
			"SMA" => r!(SMA),
			"WMA" => r!(WMA),
			"SWMA" => r!(SWMA),
			"TRIMA" => r!(TRIMA),
			"HMA" => r!(HMA),
			"LinReg" => r!(LinReg),
			"Conv" => r!(Conv),
			"VWMA" => r!(VWMA),
			"Integral" | "Integral0" => r!(Integral),
			"Derivative" => r!(Derivative),
			"Momentum" => r!(Momentum),
			"RateOfChange" => r!(RateOfChange),
			"Past" => r!(Past<ValueType>),
			"StDev" => r!(StDev),
			"MeanAbsDev" => r!(MeanAbsDev),
			"MedianAbsDev" => r!(MedianAbsDev),
			"CCI" => r!(CCI),
			"LinearVolatility" => r!(LinearVolatility),
			"ADI" | "ADI0" => r!(ADI),
			"EMA" => r!(EMA),
			"DMA" => r!(DMA),
			"TMA" => r!(TMA),
			"DEMA" => r!(DEMA),
			"TEMA" => r!(TEMA),
			"RMA" => r!(RMA),
			"WSMA" => r!(WSMA),
			"TSI" => r!(TSI),
			"Vidya" => r!(Vidya),
			"TR" => r!(TR),
			"HeikinAshi" => r!(HeikinAshi),
			"SMM" => r!(SMM),
			"Highest" => r!(Highest),
			"Lowest" => r!(Lowest),
			"HighestLowestDelta" => r!(HighestLowestDelta),
			"HighestIndex" => r!(HighestIndex),
			"LowestIndex" => r!(LowestIndex),
			"CrossAbove" => r!(CrossAbove),
			"CrossUnder" => r!(CrossUnder),
			"Cross" => r!(Cross),
			"UpperReversalSignal" => r!(UpperReversalSignal),
			"LowerReversalSignal" => r!(LowerReversalSignal),
			"ReversalSignal" => r!(ReversalSignal),
			"CollapseTimeframe" => r!(CollapseTimeframe<Candle>),
			other => panic!("unknown subject {other}"),
		})
	})
}

// ------------------------------------------------------------------ stream generators

/// Float stream generator with regimes: uniform, walk, plateau, zeros, sign flips, spikes, scale jumps, monotone.
pub struct Gen {
	/// never generate zero volumes (volume-based sources feeding relative changes divide by them)
	pub no_zero_volume: bool,
	/// never repeat a value exactly (a flat window makes correlations / ratios 0/0: undefined)
	pub no_plateau: bool,
	/// force a x1/1024 drop of the price scale at this call (regime the running-sum designs are sensitive to)
	pub force_drop_at: Option<u64>,
	/// runs of consecutive zero-volume candles (untraded stretches) of random length
	pub droughts: bool,
	/// now and then a candle with open = high = low = close at a NEW price (a gap followed by a bar without a range)
	pub doji_gaps: bool,
	/// trading halts: now and then the last close repeated as a rangeless candle for 3..42 bars
	pub halts: bool,
	pub halt_left: u32,
	drought_left: u64,
	/// regimes lasting hundreds of steps, including steady rallies / declines without pullbacks (C07)
	pub long_regimes: bool,
	regime_left: u64,
	/// stretches of bars closing exactly at their high (or low): one-sided money flow, clv = +-1 (C12)
	pub one_sided: bool,
	side: i8,
	/// a burst of consecutive moves of alternating direction, each several times larger than all the moves before it
	/// (momentum oscillators swing from one extreme zone to the other on consecutive bars)
	burst_left: u8,
	burst_amp: f64,
	/// range regimes: stretches on an exact tick grid with equal-size candles in a steady trend that flips now and then, and
	/// quiet stretches (all moves shrunk 50-fold) between volatile ones
	/// all prices of the stream rounded to a tick grid (exact ties between highs / lows / closes of different bars)
	pub tick_grid: Option<f64>,
	grid_left: u32,
	grid_dir: f64,
	grid_tick: f64,
	quiet: bool,
	calls: u64,
	pub rng: Rng,
	scale: f64,
	cur: f64,
	shape: u64,
	positive: bool,
}

impl Gen {
	pub fn new(seed: u64, positive: bool) -> Self {
		let mut rng = Rng::new(seed);
		let scale = *rng.pick(&[1e-3, 0.37, 1.0, 12.5, 100.0, 3e4]);
		let cur = scale * (0.5 + rng.unit());
		let shape = rng.below(8);
		Self { no_zero_volume: false, no_plateau: false, force_drop_at: None, droughts: false, doji_gaps: false, halts: false, halt_left: 0, drought_left: 0, long_regimes: false, regime_left: 0, one_sided: false, side: 0, burst_left: 0, burst_amp: 0.0, tick_grid: None, grid_left: 0, grid_dir: 1.0, grid_tick: 0.0, quiet: false, calls: 0, rng, scale, cur, shape, positive }
	}
	fn finish(&mut self, mut v: f64) -> f64 {
		if self.positive {
			v = v.abs();
			if v < self.scale * 1e-3 {
				v = self.scale * (1e-3 + self.rng.unit() * 0.1);
			}
		}
		// keep magnitudes inside the input band {0} u [2^-20, 2^40]
		if v != 0.0 && v.abs() < 9.6e-7 {
			v = 0.0;
		}
		if v.abs() > 1.0e12 {
			v = v.signum() * 1.0e12;
		}
		if self.positive && v == 0.0 {
			v = self.scale * 1e-3;
		}
		self.cur = v;
		v
	}
	pub fn scalar(&mut self) -> f64 {
		self.calls += 1;
		if self.force_drop_at == Some(self.calls) {
			self.scale /= 1024.0;
			self.cur /= 1024.0;
			self.shape = 1;
		}
		if self.long_regimes {
			if self.regime_left == 0 {
				// (the first regime of every other stream is a trend with ripple: hundreds of local peaks on one side of the trend)
				self.shape = if self.calls <= 1 && self.rng.chance(0.5) { 12 + self.rng.below(2) } else { self.rng.below(14) };
				// steady trends outlast PeriodType::MAX bars; trends with ripple outlast PeriodType::MAX local peaks
				self.regime_left = if self.shape >= 12 { 900 + self.rng.below(400) } else if self.shape >= 8 { 270 + self.rng.below(200) } else { 20 + self.rng.below(200) };
			}
			self.regime_left -= 1;
		} else if self.rng.chance(0.04) {
			// (shape 14: whipsaw -- large moves of alternating direction on consecutive bars)
			self.shape = if self.rng.chance(0.12) { 14 } else { self.rng.below(8) };
		}
		if self.rng.chance(if self.long_regimes { 0.002 } else { 0.01 }) {
			// abrupt change of scale
			let k = *self.rng.pick(&[1024.0, 1.0 / 1024.0, 32.0, 1.0 / 32.0]);
			if self.scale * k > 1e-3 && self.scale * k < 1e9 {
				self.scale *= k;
				self.cur *= k;
			}
		}
		let s = self.scale;
		let u = self.rng.unit();
		if self.burst_left == 0 && !self.long_regimes && !self.no_plateau && self.rng.chance(0.012) && self.cur.abs() > s * 0.05 {
			self.burst_left = 4 + self.rng.below(2) as u8;
			self.burst_amp = self.cur.abs() * 0.0015 * if self.rng.chance(0.5) { 1.0 } else { -1.0 };
		}
		if self.burst_left > 0 {
			self.burst_left -= 1;
			let v = self.cur + self.burst_amp;
			self.burst_amp *= -(3.5 + u);
			return self.finish(v);
		}
		let v = match self.shape {
			0 => s * (u * 2.0 - 0.5),                         // uniform, mostly positive
			1 => self.cur + s * 0.05 * (u - 0.5),             // random walk
			2 if !self.no_plateau => self.cur,                // plateau
			2 => self.cur + s * 0.03 * (u - 0.5),
			3 if !self.no_plateau => if u < 0.5 { 0.0 } else { s * u }, // zeros
			3 => s * (0.2 + u),
			4 => -self.cur + s * 0.01 * (u - 0.5),            // sign flips
			5 => if u < 0.1 { self.cur * 50.0 } else { s * (0.9 + 0.2 * u) }, // spikes
			6 => self.cur + s * 0.01 * u,                     // monotone up
			7 => self.cur - s * 0.01 * u,                     // monotone down
			8..=9 => self.cur * (1.0 + 0.004 * (0.5 + u)),    // steady rally (every bar a new high, no pullback)
			10..=11 => self.cur * (1.0 - 0.004 * (0.5 + u)),  // steady decline
			14 => self.cur * if self.calls % 2 == 0 { 1.0 + 0.08 * (0.3 + u) } else { 1.0 / (1.0 + 0.08 * (0.3 + u)) }, // whipsaw
			12 => self.cur * if self.calls % 3 < 2 { 1.0 + 0.006 * (0.8 + 0.4 * u) } else { 1.0 - 0.003 * (0.8 + 0.4 * u) }, // rally with ripple
			_ => self.cur * if self.calls % 3 < 2 { 1.0 - 0.006 * (0.8 + 0.4 * u) } else { 1.0 + 0.003 * (0.8 + 0.4 * u) },  // decline with ripple
		};
		self.finish(v)
	}
	/// valid candle around the current price (positive prices, low <= open, close <= high, volume >= 0)
	pub fn candle(&mut self) -> Candle {
		self.positive = true;
		if self.halts && !self.no_plateau && self.calls > 3 {
			if self.halt_left == 0 && self.rng.chance(0.035) {
				// short halts are the likelier ones (a halt of exactly period - 1 or period bars is what window guards are sensitive to)
				self.halt_left = if self.rng.chance(0.6) { 1 + self.rng.below(16) as u32 } else { 3 + self.rng.below(40) as u32 };
			}
			if self.halt_left > 0 && self.cur > 0.0 {
				self.halt_left -= 1;
				self.calls += 1;
				let p = self.cur;
				let v = if self.no_zero_volume || self.rng.chance(0.3) { 1.0 } else { 0.0 };
				return candle(p, p, p, p, v);
			}
		}
		let prev = self.cur.abs().max(self.scale * 1e-3);
		let close = self.scalar();
		let open = if self.rng.chance(0.7) || self.shape >= 8 { prev } else { close * (1.0 + 0.02 * (self.rng.unit() - 0.5)) };
		let hi0 = open.max(close);
		let lo0 = open.min(close);
		let (high, low) = match self.rng.below(6) {
			_ if self.shape >= 8 => (hi0 * (1.0 + 0.0005 * self.rng.unit()), lo0 * (1.0 - 0.0005 * self.rng.unit())),
			0 => (hi0, lo0),                                                   // no wicks (flat candle when open == close)
			1 => (hi0 * (1.0 + 0.01 * self.rng.unit()), lo0),
			2 => (hi0, lo0 * (1.0 - 0.01 * self.rng.unit())),
			_ => (hi0 * (1.0 + 0.03 * self.rng.unit()), lo0 * (1.0 - 0.03 * self.rng.unit())),
		};
		if self.droughts && self.drought_left == 0 && self.rng.chance(0.03) {
			self.drought_left = 2 + self.rng.below(60);
		}
		let dry = self.drought_left > 0;
		self.drought_left = self.drought_left.saturating_sub(1);
		let volume = match self.rng.below(8) {
			_ if dry => 0.0,
			0 if !self.no_zero_volume => 0.0,
			1 => 1.0,
			_ => (self.rng.unit() * 1000.0 + 1.0).floor() * if self.rng.chance(0.3) { 1.37 } else { 1.0 },
		};
		let mut close = close;
		let (mut open, mut high, mut low) = (open, high, low);
		if self.doji_gaps && self.rng.chance(0.06) {
			open = close;
			high = close;
			low = close;
		}
		if self.one_sided {
			if self.grid_left == 0 && self.rng.chance(0.02) {
				self.grid_left = 30 + self.rng.below(60) as u32;
				self.grid_dir = if self.rng.chance(0.5) { 1.0 } else { -1.0 };
				self.grid_tick = 2f64.powi((prev * 0.004).log2().floor() as i32);
			}
			if self.rng.chance(0.02) {
				self.quiet = !self.quiet;
			}
			if self.grid_left > 0 {
				self.grid_left -= 1;
				let t = self.grid_tick;
				if self.rng.chance(0.06) {
					self.grid_dir = -self.grid_dir;
				}
				let base = (prev / t).round() * t;
				open = base;
				close = (base + self.grid_dir * t).max(2.0 * t);
				high = open.max(close) + t;
				low = (open.min(close) - t).max(t * 0.5);
				self.cur = close;
				return candle(open, high, low, close, volume);
			}
			if self.quiet {
				let q = |x: f64| prev + (x - prev) * 0.02;
				open = q(open);
				high = q(high);
				low = q(low);
				close = q(close);
			}
		}
		if self.one_sided && self.rng.chance(0.03) {
			// a bar whose range is only a few ulps (valid: low <= open, close <= high)
			let ulps = 1 + self.rng.below(7);
			low = close;
			high = f64::from_bits(close.to_bits() + ulps);
			open = if self.rng.chance(0.5) { low } else { high };
			if self.rng.chance(0.5) {
				close = high;
			}
		}
		if self.one_sided {
			if self.rng.chance(0.06) {
				self.side = [0i8, 1, -1, 0][self.rng.below(4) as usize];
			}
			if self.side > 0 {
				close = high;
			} else if self.side < 0 {
				close = low;
			}
		}
		self.cur = close;
		if let Some(t) = self.tick_grid {
			// (rounding is monotone: low <= open, close <= high is preserved)
			let r = |x: f64| ((x / t).round() * t).max(t);
			return candle(r(open), r(high), r(low), r(close), volume);
		}
		candle(open, high, low, close, volume)
	}
	pub fn input(&mut self, kind: char) -> In {
		match kind {
			's' => In::S(self.scalar()),
			'p' => {
				let p = self.scalar();
				let v = match self.rng.below(8) {
					0 => 0.0,
					_ => (self.rng.unit() * 500.0 + 1.0).floor(),
				};
				In::P(p, v)
			}
			_ => In::C(self.candle()),
		}
	}
}
