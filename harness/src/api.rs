//! Direction A for Api.tla: programs over handles replayed on every subject.
//! The reference outputs ys come from element-wise next() on a fresh real instance; every operation of a program
//! must return the slice of ys the specification assigns to it, bit for bit.
use crate::methods::*;
use crate::util::*;
use serde::{de::DeserializeOwned, Serialize};
use serde_json::{json, Value};
use yata::core::{Method, PeriodType, ValueType};
use yata::helpers::{Buffered, Peekable, WithHistory, WithLastValue};
use yata::methods::*;

trait MaybePeek {
	fn maybe_peek(&self) -> Option<ValueType>;
}
macro_rules! peeks {
	(yes: $($t:ty),*; no: $($u:ty),*) => {
		$(impl MaybePeek for $t { fn maybe_peek(&self) -> Option<ValueType> { Some(Peekable::peek(self)) } })*
		$(impl MaybePeek for $u { fn maybe_peek(&self) -> Option<ValueType> { None } })*
	};
}
peeks!(yes: SMA, WMA, SWMA, TRIMA, HMA, LinReg, Integral, Past<ValueType>, StDev, MeanAbsDev, MedianAbsDev, LinearVolatility,
	EMA, DMA, TMA, DEMA, TEMA, RMA, WSMA, Vidya, SMM, Highest, Lowest, HighestLowestDelta;
	no: Derivative, Momentum, RateOfChange, CCI);

enum H<'x, M: Method<Input = ValueType, Output = ValueType>> {
	Plain(M),
	Hist(WithHistory<M, ValueType>),
	Last(WithLastValue<M, ValueType>),
	Fun(Box<dyn FnMut(&'x ValueType) -> ValueType + 'x>),
}

fn vbits(v: &[ValueType]) -> Vec<String> {
	v.iter().map(|x| bits(*x as f64)).collect()
}

/// Run one program on a scalar -> scalar method type through the REAL generic API.
/// Returns, per operation, the observed values (as bit patterns) or a marker.
fn run_typed<'x, M>(prog: &[Value], n: PeriodType, xs: &'x [ValueType]) -> Vec<Value>
where
	M: Method<Params = PeriodType, Input = ValueType, Output = ValueType> + Clone + Serialize + DeserializeOwned + MaybePeek + 'static,
{
	let mut hs: Vec<Option<H<'x, M>>> = Vec::new();
	let mut obs = Vec::new();
	let init: &'x ValueType = &xs[0];
	for o in prog {
		let op = o["op"].as_str().unwrap();
		let h = o["h"].as_i64().unwrap();
		let k = o["k"].as_u64().unwrap() as usize;
		let lo = o["lo"].as_i64().unwrap();
		let c0 = (lo - 1).max(0) as usize; // position in the stream of the first element this call consumes
		let r: Result<Value, String> = catch(|| match op {
			"new" => {
				hs.push(Some(H::Plain(M::new(n, init).unwrap())));
				json!([])
			}
			"with_history" => {
				hs.push(Some(H::Hist(M::with_history(n, init).unwrap())));
				json!([])
			}
			"with_last_value" => {
				let w = M::with_last_value(n, init).unwrap();
				let p = w.peek();
				hs.push(Some(H::Last(w)));
				json!(vbits(&[p]))
			}
			"new_fn" => {
				hs.push(Some(H::Fun(M::new_fn(n, init).unwrap())));
				json!([])
			}
			"new_over" => json!(vbits(&M::new_over(n, &xs[..k]).unwrap())),
			"new_apply" => {
				let mut v = xs[..k].to_vec();
				M::new_apply(n, &mut v).unwrap();
				json!(vbits(&v))
			}
			"next" | "fncall" => {
				let x = &xs[c0];
				let y = match hs[h as usize].as_mut().unwrap() {
					H::Plain(m) => m.next(x),
					H::Hist(m) => m.next(x),
					H::Last(m) => m.next(x),
					H::Fun(f) => f(x),
				};
				json!(vbits(&[y]))
			}
			"over" => {
				let s = &xs[c0..c0 + k];
				let y = match hs[h as usize].as_mut().unwrap() {
					H::Plain(m) => m.over(s),
					H::Hist(m) => m.over(s),
					H::Last(m) => m.over(s),
					H::Fun(_) => unreachable!(),
				};
				json!(vbits(&y))
			}
			"call" => {
				use yata::core::Sequence;
				let s = &xs[c0..c0 + k];
				let y = match hs[h as usize].as_mut().unwrap() {
					H::Plain(m) => s.call(m),
					H::Hist(m) => s.call(m),
					H::Last(m) => s.call(m),
					H::Fun(_) => unreachable!(),
				};
				json!(vbits(&y))
			}
			"apply" => {
				let mut v = xs[c0..c0 + k].to_vec();
				match hs[h as usize].as_mut().unwrap() {
					H::Plain(m) => m.apply(&mut v),
					_ => unreachable!(),
				};
				json!(vbits(&v))
			}
			"peek" | "peek0" => match hs[h as usize].as_ref().unwrap() {
				H::Plain(m) => m.maybe_peek().map_or(json!("n/a"), |p| json!(vbits(&[p]))),
				H::Last(m) => json!(vbits(&[m.peek()])),
				_ => unreachable!(),
			},
			"get" => match hs[h as usize].as_ref().unwrap() {
				H::Hist(m) => match (m.get(k), Buffered::get(m, k)) {
					(a, b) if a.map(ValueType::to_bits) != b.map(ValueType::to_bits) => json!("get/Buffered::get disagree"),
					(Some(v), _) => json!(vbits(&[v])),
					(None, _) => json!([]),
				},
				_ => unreachable!(),
			},
			"iter" => match hs[h as usize].as_ref().unwrap() {
				H::Hist(m) => {
					let a: Vec<ValueType> = m.iter().copied().collect();
					let b: Vec<ValueType> = m.into_iter().copied().collect();
					let c: Vec<ValueType> = m.clone().into_iter().collect();
					if vbits(&a) != vbits(&b) || vbits(&a) != vbits(&c) {
						json!("iter/into_iter disagree")
					} else {
						json!(vbits(&a))
					}
				}
				_ => unreachable!(),
			},
			"clone" => {
				let c = match hs[h as usize].as_ref().unwrap() {
					H::Plain(m) => H::Plain(m.clone()),
					H::Hist(m) => H::Hist(m.clone()),
					H::Last(m) => H::Last(m.clone()),
					H::Fun(_) => unreachable!(),
				};
				hs.push(Some(c));
				json!([])
			}
			"snapshot" => {
				let c = match hs[h as usize].as_ref().unwrap() {
					H::Plain(m) => {
						let text = serde_json::to_string(m).unwrap();
						let back: M = serde_json::from_str(&text).unwrap_or_else(|e| panic!("deserialize: {e}: {text}"));
						// the snapshot of the restored instance is the snapshot again
						let text2 = serde_json::to_string(&back).unwrap();
						if text != text2 {
							panic!("snapshot of the restored instance differs: {text} vs {text2}");
						}
						H::Plain(back)
					}
					_ => unreachable!(),
				};
				hs.push(Some(c));
				json!([])
			}
			"into_fn" => {
				let m = hs[h as usize].take().unwrap();
				match m {
					H::Plain(m) => hs[h as usize] = Some(H::Fun(m.into_fn())),
					_ => unreachable!(),
				}
				json!([])
			}
			other => panic!("unknown op {other}"),
		});
		match r {
			Ok(v) => obs.push(v),
			Err(e) => {
				obs.push(json!({"panic": e}));
				break;
			}
		}
	}
	obs
}

/// The same program through the dynamic registry: bulk / wrapper operations are emulated by element-wise next
/// (what they must be equivalent to); clone, snapshot and peek are the real ones.
fn run_dyn(subject: &str, params: &Value, prog: &[Value], xs: &[In]) -> Vec<Value> {
	let mut hs: Vec<Option<Box<dyn DynM>>> = Vec::new();
	let mut obs = Vec::new();
	let b = |o: &Out| o.bits();
	for o in prog {
		let op = o["op"].as_str().unwrap();
		let h = o["h"].as_i64().unwrap();
		let k = o["k"].as_u64().unwrap() as usize;
		let lo = o["lo"].as_i64().unwrap();
		let c0 = (lo - 1).max(0) as usize;
		let r: Result<Value, String> = catch(|| match op {
			"new" | "with_history" | "new_fn" => {
				hs.push(Some(build(subject, params, &xs[0]).unwrap().unwrap()));
				json!([])
			}
			"with_last_value" => {
				let mut m = build(subject, params, &xs[0]).unwrap().unwrap();
				let y = m.next(&xs[0]);
				hs.push(Some(m));
				json!([b(&y)])
			}
			"new_over" | "new_apply" => {
				if k == 0 {
					json!([])
				} else {
					let mut m = build(subject, params, &xs[0]).unwrap().unwrap();
					json!(xs[..k].iter().map(|x| b(&m.next(x))).collect::<Vec<_>>())
				}
			}
			"next" | "fncall" | "over" | "call" | "apply" => {
				let kk = if op == "next" || op == "fncall" { 1 } else { k };
				let m = hs[h as usize].as_mut().unwrap();
				json!(xs[c0..c0 + kk].iter().map(|x| b(&m.next(x))).collect::<Vec<_>>())
			}
			"peek" | "peek0" => hs[h as usize].as_ref().unwrap().peek().map_or(json!("n/a"), |p| json!([b(&p)])),
			"get" | "iter" => json!("n/a"),
			"clone" => {
				let c = hs[h as usize].as_ref().unwrap().boxed_clone();
				hs.push(Some(c));
				json!([])
			}
			"snapshot" => {
				let text = hs[h as usize].as_ref().unwrap().snapshot();
				// a NaN in the state (VWMA on zero total volume, ...) cannot be carried by JSON: clone instead
				let back = if text.contains("null") { Ok(Ok(hs[h as usize].as_ref().unwrap().boxed_clone())) } else { restore(subject, &text) };
				let back = match back {
					Ok(Ok(m)) => m,
					Ok(Err(e)) => panic!("deserialize: {e}: {text}"),
					Err(e) => panic!("deserialize panicked: {e}"),
				};
				hs.push(Some(back));
				json!([])
			}
			"into_fn" => json!([]),
			other => panic!("unknown op {other}"),
		});
		match r {
			Ok(v) => obs.push(v),
			Err(e) => {
				obs.push(json!({"panic": e}));
				break;
			}
		}
	}
	obs
}

fn typed_dispatch(subject: &str, prog: &[Value], n: PeriodType, xs: &[ValueType]) -> Option<Vec<Value>> {
	macro_rules! t {
		($($name:literal => $ty:ty),*) => {
			match subject { $($name => Some(run_typed::<$ty>(prog, n, xs)),)* _ => None }
		};
	}
	t!("SMA" => SMA, "WMA" => WMA, "SWMA" => SWMA, "TRIMA" => TRIMA, "HMA" => HMA, "LinReg" => LinReg, "Integral" => Integral,
		"Integral0" => Integral, "Derivative" => Derivative, "Momentum" => Momentum, "RateOfChange" => RateOfChange,
		"Past" => Past<ValueType>, "StDev" => StDev, "MeanAbsDev" => MeanAbsDev, "MedianAbsDev" => MedianAbsDev, "CCI" => CCI,
		"LinearVolatility" => LinearVolatility, "EMA" => EMA, "DMA" => DMA, "TMA" => TMA, "DEMA" => DEMA, "TEMA" => TEMA, "RMA" => RMA,
		"WSMA" => WSMA, "Vidya" => Vidya, "SMM" => SMM, "Highest" => Highest, "Lowest" => Lowest,
		"HighestLowestDelta" => HighestLowestDelta)
}

pub const ALL_SUBJECTS: &[(&str, &[u64])] = &[
	("SMA", &[3]), ("WMA", &[4]), ("SWMA", &[5]), ("SWMA", &[1]), ("TRIMA", &[3]), ("HMA", &[9]), ("LinReg", &[4]), ("Integral", &[3]),
	("Integral0", &[0]), ("Derivative", &[2]), ("Momentum", &[3]), ("RateOfChange", &[2]), ("Past", &[2]), ("StDev", &[4]),
	("MeanAbsDev", &[3]), ("MedianAbsDev", &[4]), ("CCI", &[5]), ("LinearVolatility", &[3]), ("EMA", &[5]), ("DMA", &[4]), ("TMA", &[3]),
	("DEMA", &[6]), ("TEMA", &[4]), ("RMA", &[5]), ("WSMA", &[3]), ("Vidya", &[4]), ("SMM", &[4]), ("SMM", &[5]), ("Highest", &[3]),
	("Lowest", &[3]), ("HighestLowestDelta", &[4]), ("HighestIndex", &[3]), ("LowestIndex", &[4]), ("TSI", &[3, 5]), ("VWMA", &[3]),
	("ADI", &[3]), ("ADI0", &[0]), ("TR", &[]), ("HeikinAshi", &[]), ("CrossAbove", &[]), ("CrossUnder", &[]), ("Cross", &[]),
	("UpperReversalSignal", &[2, 1]), ("LowerReversalSignal", &[1, 2]), ("ReversalSignal", &[2, 2]), ("CollapseTimeframe", &[3]),
	("Conv", &[]),
];

fn expected_of(o: &Value, ys_plain: &[Value], ys_pre: &[Value]) -> Value {
	let ys = if o["ref"] == "pre" { ys_pre } else { ys_plain };
	let lo = o["lo"].as_i64().unwrap();
	let hi = o["hi"].as_i64().unwrap();
	if hi < lo {
		return json!([]);
	}
	json!(ys[(lo - 1) as usize..hi as usize].to_vec())
}

/// `yv api-replay <programs.ndjson> <seed>`
pub fn replay(args: &[String]) {
	let progs = read_lines(&args[0]);
	let seed: u64 = arg(args, 1, "seed");
	// "snap": only what Api_snap programs talk about (C13); the WithLastValue sequence relation belongs to C09
	let snap_only = args.get(2).map(String::as_str) == Some("snap");
	let mut out = Sink::new();
	let mut runs = 0u64;
	let mut typed_runs = 0u64;
	let len = 24usize;
	for (si, (subject, p)) in ALL_SUBJECTS.iter().enumerate() {
		let params = if *subject == "Conv" { json!([bits(1.0), bits(2.5), bits(0.5)]) } else { json!(p) };
		for stream in 0..3u64 {
			let kind = input_kind(subject);
			let mut g = Gen::new(seed * 7919 + si as u64 * 31 + stream, *subject == "RateOfChange" || kind == 'c');
			let mut xs: Vec<In> = (0..len).map(|_| g.input(kind)).collect();
			if stream == 1 {
				// ties and plateaus
				for i in (3..len).step_by(3) {
					xs[i] = xs[i - 1].clone();
				}
			}
			if stream == 2 {
				// movement, then a flat stretch longer than the (small) windows, then movement again
				for i in 5..17 {
					xs[i] = xs[4].clone();
				}
			}
			// reference run: element-wise next on a fresh instance
			let mut m = match build(subject, &params, &xs[0]) {
				Ok(Ok(m)) => m,
				_ => {
					out.mismatch(&format!("{subject}:new:rejected"), json!({"params": params}));
					continue;
				}
			};
			let ys: Vec<Value> = xs.iter().map(|x| m.next(x).bits()).collect();
			// second reference: the construction value fed once more before the stream (WithLastValue::new)
			let mut m2 = build(subject, &params, &xs[0]).unwrap().unwrap();
			let _ = m2.next(&xs[0]);
			let ysl_out: Vec<Out> = xs.iter().map(|x| m2.next(x)).collect();
			let ysl: Vec<Value> = ysl_out.iter().map(Out::bits).collect();
			// the property-level claim: both runs are the same sequence (exact for non-float outputs, rounding otherwise)
			let mut m3 = build(subject, &params, &xs[0]).unwrap().unwrap();
			let scale = xs.iter().map(|x| match x { In::S(v) => v.abs(), In::P(a, _) => a.abs(), In::C(c) => (c.high as f64).abs() }).fold(0.0f64, f64::max);
			for (i, x) in xs.iter().enumerate() {
				if snap_only {
					break;
				}
				let a = m3.next(x);
				let b2 = &ysl_out[i];
				out.checked += 1;
				let same = a.bits() == b2.bits() || match (&a, b2) {
					(Out::F(p), Out::F(q)) => (p - q).abs() <= 1e-12 * scale.max(p.abs()),
					(Out::C(p), Out::C(q)) => ((p.open - q.open).abs() as f64) <= 1e-12 * scale,
					_ => false,
				};
				if !same {
					out.mismatch(&format!("{subject}:with_last_value:sequence"), json!({"params": params, "step": i,
						"plain": a.bits(), "after_prefeed": b2.bits(), "what": "WithLastValue::new feeds the construction value once: the wrapped run differs from the plain run"}));
					break;
				}
			}
			let sx: Vec<ValueType> = if kind == 's' { xs.iter().map(In::s).collect() } else { Vec::new() };
			for (pi, pr) in progs.iter().enumerate() {
				let prog = pr["prog"].as_array().unwrap();
				// every subject runs the programs through the registry; scalar->scalar subjects also through the real generic API
				let mut variants: Vec<(&str, Vec<Value>)> = vec![("dyn", run_dyn(subject, &params, prog, &xs))];
				if kind == 's' && p.len() == 1 {
					if let Some(o) = typed_dispatch(subject, prog, p[0] as PeriodType, &sx) {
						variants.push(("typed", o));
						typed_runs += 1;
					}
				}
				runs += 1;
				for (via, obs) in variants {
					for (oi, o) in prog.iter().enumerate() {
						let op = o["op"].as_str().unwrap();
						let act = obs.get(oi).cloned().unwrap_or(json!("not executed"));
						if act == json!("n/a") {
							continue;
						}
						let exp = match op {
							"new" | "with_history" | "new_fn" | "clone" | "snapshot" | "into_fn" => json!([]),
							_ => expected_of(o, &ys, &ysl),
						};
						// bit patterns of typed runs are plain strings; registry outputs may be structured: compare as JSON
						let act_n = if via == "typed" { act.clone() } else { act.clone() };
						out.checked += 1;
						if act_n != exp {
							let mut cls = if act.get("panic").is_some() { "panic" } else { "value" }.to_string();
							// Past::peek: the listed finding is "peek returns the newest INPUT"; any other wrong value is a different violation
							if *subject == "Past" && (op == "peek" || op == "peek0") && cls == "value" {
								let hi = o["hi"].as_i64().unwrap_or(0);
								let newest = &xs[if hi >= 1 { (hi - 1) as usize } else { 0 }];
								if act != json!([bits(newest.s() as f64)]) {
									cls = "value@not-newest-input".to_string();
								}
							}
							let pclass = if *subject == "SWMA" && p[0] == 1 { "SWMA(1)".to_string() } else { subject.to_string() };
							out.mismatch(
								&format!("{pclass}:{op}:{cls}"),
								json!({"via": via, "params": params, "program": pi, "op_index": oi, "op": o, "stream": stream,
									"expected": exp, "actual": act, "prog": prog}),
							);
							break;
						}
					}
				}
			}
		}
	}
	// Buffered::get(index) of the methods that expose their window (SMA, Past, TRIMA): the value `index` positions back as the
	// verified Window (C01) holds it, None from `length` on -- for small indices and for indices beyond every PeriodType width
	if !snap_only {
		use yata::core::Window;
		use yata::methods::{Past, SMA, TRIMA};
		let mut g = Gen::new(seed * 7 + 5, false);
		for n in [1u64, 2, 3, 10, 100, 254] {
			let x0 = g.scalar() as ValueType;
			let n8 = n as PeriodType;
			let (Ok(mut sma), Ok(mut past), Ok(mut trima)) = (SMA::new(n8, &x0), Past::<ValueType>::new(n8, &x0), TRIMA::new(n8, &x0)) else { continue };
			let mut mirror: Window<ValueType> = Window::new(n8, x0);
			for _step in 0..40 {
				let x = g.scalar() as ValueType;
				let _ = (Method::next(&mut sma, &x), Method::next(&mut past, &x), Method::next(&mut trima, &x));
				mirror.push(x);
				for idx in [0usize, 1, 2, n as usize - 1, n as usize, n as usize + 1, 253, 254, 255, 256, 258, 300, 512, 65535, 65536, 65538, 1 << 32] {
					let exp = if idx < n as usize { mirror.get(idx as PeriodType).map(|v| v.to_bits()) } else { None };
					out.checked += 2;
					let (a, b) = (Buffered::get(&sma, idx).map(|v: ValueType| v.to_bits()), Buffered::get(&past, idx).map(|v: ValueType| v.to_bits()));
					if a != exp {
						out.mismatch("SMA:buffered-get:value", json!({"length": n, "index": idx, "expected": format!("{exp:?}"), "actual": format!("{a:?}")}));
					}
					if b != exp {
						out.mismatch("Past:buffered-get:value", json!({"length": n, "index": idx, "expected": format!("{exp:?}"), "actual": format!("{b:?}")}));
					}
					let t = Buffered::get(&trima, idx).is_some();
					if t != (idx < n as usize) {
						out.mismatch("TRIMA:buffered-get:value", json!({"length": n, "index": idx, "expected_some": idx < n as usize, "actual_some": t}));
					}
				}
			}
		}
	}
	// a snapshot taken at EVERY position of a long regime-shaped stream (plateaus, spikes, scale jumps: running sums holding
	// rounding residue of either sign, cached extrema with ties) restores, and the restored instance continues bit-identically
	let mut snap_steps = 0u64;
	for (si, (subject, p)) in ALL_SUBJECTS.iter().enumerate() {
		if !snap_only {
			break; // (C13's stage: run with the "snap" mode only)
		}
		let params = if *subject == "Conv" { json!([bits(1.0), bits(2.5), bits(0.5)]) } else { json!(p) };
		let kind = input_kind(subject);
		for stream in 0..2u64 {
			let mut g = Gen::new(seed * 104729 + si as u64 * 37 + stream, *subject == "RateOfChange" || kind == 'c');
			let xs: Vec<In> = (0..260).map(|_| g.input(kind)).collect();
			let Ok(Ok(mut m)) = build(subject, &params, &xs[0]) else { continue };
			for i in 0..xs.len() - 1 {
				if catch(|| m.next(&xs[i])).is_err() {
					break;
				}
				snap_steps += 1;
				// second carrier: the in-memory format (no text, floats native)
				match catch(|| m.mem_roundtrip()) {
					Ok(Ok(mut r)) => {
						let mut o = m.boxed_clone();
						let (a, b) = (catch(|| o.next(&xs[i + 1])), catch(|| r.next(&xs[i + 1])));
						let same = match (&a, &b) { (Ok(x), Ok(y)) => x.bits() == y.bits(), (Err(_), Err(_)) => true, _ => false };
						if !same {
							out.mismatch(&format!("{subject}:snapshot-every-step(mem):value"), json!({"params": params, "step": i, "stream": stream}));
							break;
						}
					}
					other => {
						out.mismatch(&format!("{subject}:snapshot-every-step(mem):err"), json!({"params": params, "step": i, "stream": stream,
							"msg": match other { Ok(Err(e)) => e, Err(e) => format!("panic: {e}"), _ => String::new() }}));
						break;
					}
				}
				match restore(subject, &m.snapshot()) {
					Ok(Ok(mut r)) => {
						let mut o = m.boxed_clone();
						let (a, b) = (catch(|| o.next(&xs[i + 1])), catch(|| r.next(&xs[i + 1])));
						let same = match (&a, &b) { (Ok(x), Ok(y)) => x.bits() == y.bits(), (Err(_), Err(_)) => true, _ => false };
						if !same {
							out.mismatch(&format!("{subject}:snapshot-every-step:value"), json!({"params": params, "step": i, "stream": stream}));
							break;
						}
					}
					other => {
						out.mismatch(&format!("{subject}:snapshot-every-step:err"), json!({"params": params, "step": i, "stream": stream,
							"msg": match other { Ok(Err(e)) => e, Err(e) => format!("panic: {e}"), _ => String::new() }}));
						break;
					}
				}
			}
		}
	}
	// candles without a volume (what the 4-tuple conversion produces: volume = NaN) inside windowed state: the text carrier
	// cannot hold a NaN, the in-memory one can -- a restored Window<Candle> / Past<Candle> returns them bit for bit
	if snap_only {
		use yata::core::{Candle, Window};
		use yata::methods::Past;
		let mut g = Gen::new(seed * 31 + 7, true);
		let bitsc = |c: &Candle| [c.open, c.high, c.low, c.close, c.volume].map(|x| (x as f64).to_bits());
		let mk = |g: &mut Gen, i: usize| { let mut c = g.candle(); if i % 2 == 0 { c.volume = ValueType::NAN; } c };
		let first = mk(&mut g, 0);
		let mut w: Window<Candle> = Window::new(5, first);
		let mut p: Past<Candle> = Past::new(3, &first).unwrap();
		for i in 1..20 {
			let c = mk(&mut g, i);
			w.push(c);
			let _ = Method::next(&mut p, &c);
			let w2: Result<Window<Candle>, _> = crate::memfmt::from_value(crate::memfmt::to_value(&w));
			let p2: Result<Past<Candle>, _> = crate::memfmt::from_value(crate::memfmt::to_value(&p));
			match (w2, p2) {
				(Ok(w2), Ok(mut p2)) => {
					let a: Vec<_> = w.iter().map(bitsc).collect();
					let b: Vec<_> = w2.iter().map(bitsc).collect();
					if a != b {
						out.mismatch("Window<Candle>:snapshot(mem):value", json!({"step": i}));
					}
					let nx = mk(&mut g, i + 100);
					let mut pc = p.clone();
					if bitsc(&Method::next(&mut pc, &nx)) != bitsc(&Method::next(&mut p2, &nx)) {
						out.mismatch("Past<Candle>:snapshot(mem):value", json!({"step": i}));
					}
				}
				_ => out.mismatch("Window<Candle>:snapshot(mem):err", json!({"step": i})),
			}
		}
	}
	out.summary(json!({"programs": progs.len(), "subjects": ALL_SUBJECTS.len(), "runs": runs, "typed_runs": typed_runs, "snapshot_steps": snap_steps}));
}


/// `yv doc-record <seed> <out.ndjson>` — documents that were never produced by Serialize: the snapshot of every method,
/// with one array made shorter / longer or one length-like integer changed, is offered to Deserialize; whatever is accepted
/// is then driven for a few steps.  The transcript (err / outputs / caught panics) is compared between builds (C19, C20):
/// a build with unchecked indexing must not read out of bounds where the default build returns normally.
pub fn doc_record(args: &[String]) {
	let seed: u64 = arg(args, 0, "seed");
	let mut tw = TraceWriter::create(&args[1]);
	// YV_DOC_REF=<transcript of the default build>: documents on which the default build panics are outside the property's
	// antecedent ("calls on which the default build does not panic"): their events are copied, not executed
	let reference: std::collections::HashMap<String, Value> = std::env::var("YV_DOC_REF").ok().map(|f| {
		read_lines(&f).into_iter().filter(|e| e.to_string().contains("panic"))
			.map(|e| (format!("{}|{}", e["subject"].as_str().unwrap_or(""), e["mutation"].as_str().unwrap_or("")), e)).collect()
	}).unwrap_or_default();
	for (si, (subject, p)) in ALL_SUBJECTS.iter().enumerate() {
		let params = if *subject == "Conv" { json!([bits(1.0), bits(2.5), bits(0.5)]) } else { json!(p) };
		let kind = input_kind(subject);
		let mut g = Gen::new(seed * 131 + si as u64, *subject == "RateOfChange" || kind == 'c');
		let xs: Vec<In> = (0..9).map(|_| g.input(kind)).collect();
		let Ok(Ok(mut m)) = build(subject, &params, &xs[0]) else { continue };
		for x in &xs[..5] {
			let _ = catch(|| m.next(x));
		}
		let Ok(doc) = serde_json::from_str::<Value>(&m.snapshot()) else { continue };
		// mutations of one array / one small integer, anywhere in the document
		let mut paths: Vec<Vec<String>> = Vec::new();
		fn walk(v: &Value, path: &mut Vec<String>, acc: &mut Vec<Vec<String>>) {
			match v {
				Value::Array(a) => {
					acc.push(path.clone());
					for (i, e) in a.iter().enumerate().take(3) {
						path.push(i.to_string());
						walk(e, path, acc);
						path.pop();
					}
				}
				Value::Object(o) => {
					for (k, e) in o {
						path.push(k.clone());
						walk(e, path, acc);
						path.pop();
					}
				}
				Value::Number(n) if n.is_u64() => acc.push(path.clone()),
				_ => {}
			}
		}
		walk(&doc, &mut Vec::new(), &mut paths);
		for path in paths {
			for variant in 0..3 {
				let mut d = doc.clone();
				{
					let mut cur = &mut d;
					for k in &path {
						cur = if cur.is_array() { &mut cur[k.parse::<usize>().unwrap()] } else { &mut cur[k.as_str()] };
					}
					match cur {
						Value::Array(a) => match variant {
							0 => {
								a.pop();
							}
							1 => {
								if let Some(l) = a.last().cloned() {
									a.push(l);
								}
							}
							_ => a.clear(),
						},
						Value::Number(n) => {
							let v = n.as_u64().unwrap();
							*cur = json!(match variant { 0 => v + 1, 1 => v.saturating_sub(1), _ => v + 7 });
						}
						_ => {}
					}
				}
				let what = format!("{}:{}", path.join("."), variant);
				if let Some(e) = reference.get(&format!("{subject}|{what}")) {
					tw.ev(e.clone());
					continue;
				}
				match restore(subject, &d.to_string()) {
					Ok(Ok(mut r)) => {
						let ys: Vec<Value> = xs[5..].iter().map(|x| match catch(|| r.next(x)) { Ok(y) => y.bits(), Err(_) => json!("panic") }).collect();
						tw.ev(json!({"ev":"doc","subject":subject,"mutation":what,"res":"ok","ys":ys}));
					}
					Ok(Err(_)) => tw.ev(json!({"ev":"doc","subject":subject,"mutation":what,"res":"err"})),
					Err(_) => tw.ev(json!({"ev":"doc","subject":subject,"mutation":what,"res":"panic"})),
				}
			}
		}
	}
	{
		use yata::methods::{Past, SMA, TRIMA};
		let mut g = Gen::new(seed * 7 + 5, false);
		for n in [1u64, 3, 10, 200] {
			let x0 = g.scalar() as ValueType;
			let n8 = n as PeriodType;
			let (Ok(mut sma), Ok(mut past), Ok(mut trima)) = (SMA::new(n8, &x0), Past::<ValueType>::new(n8, &x0), TRIMA::new(n8, &x0)) else { continue };
			for _ in 0..30 {
				let x = g.scalar() as ValueType;
				let _ = (Method::next(&mut sma, &x), Method::next(&mut past, &x), Method::next(&mut trima, &x));
			}
			for idx in [0usize, 1, 2, 9, 10, 199, 200, 254, 255, 256, 258, 300, 512, 65535, 65536, 65538] {
				let f = |v: Option<ValueType>| v.map(|x| format!("{:#x}", (x as f64).to_bits()));
				tw.ev(json!({"ev":"buffered_get","length":n,"index":idx,"sma":f(Buffered::get(&sma, idx)),"past":f(Buffered::get(&past, idx)),"trima":f(Buffered::get(&trima, idx))}));
			}
		}
	}
	let n = tw.finish();
	println!("{}", json!({"kind":"summary","events":n}));
}
