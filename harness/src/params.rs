//! C10: constructor outcome tables (TLC's complete tables vs. the real constructors), accepted instances never panic.
use crate::methods::*;
use crate::util::*;
use serde_json::{json, Value};
use yata::core::{MovingAverageConstructor, Method, PeriodType, ValueType};
use yata::helpers::MA;

fn outcome<T>(r: Result<Result<T, String>, String>) -> (&'static str, Option<T>) {
	match r {
		Ok(Ok(v)) => ("ok", Some(v)),
		Ok(Err(_)) => ("err", None),
		Err(_) => ("panic", None),
	}
}

fn ma_of(kind: &str, n: PeriodType) -> MA {
	match kind {
		"SMA" => MA::SMA(n),
		"WMA" => MA::WMA(n),
		"HMA" => MA::HMA(n),
		"RMA" => MA::RMA(n),
		"EMA" => MA::EMA(n),
		"DMA" => MA::DMA(n),
		"DEMA" => MA::DEMA(n),
		"TMA" => MA::TMA(n),
		"TEMA" => MA::TEMA(n),
		"WSMA" => MA::WSMA(n),
		"SMM" => MA::SMM(n),
		"SWMA" => MA::SWMA(n),
		"TRIMA" => MA::TRIMA(n),
		"LinReg" => MA::LinReg(n),
		"Vidya" => MA::Vidya(n),
		other => panic!("unknown MA kind {other}"),
	}
}

fn init_for(subject: &str, g: &mut Gen) -> In {
	g.input(input_kind(subject))
}

/// run an accepted instance on valid finite inputs; a panic is reported
fn soak(out: &mut Sink, subject: &str, params: &Value, m: &mut Box<dyn DynM>, g: &mut Gen, first: &In, steps: usize) {
	let kind = input_kind(subject);
	for i in 0..steps {
		let x = if i == 0 { first.clone() } else { g.input(kind) };
		out.checked += 1;
		if let Err(e) = catch(|| m.next(&x)) {
			out.mismatch(&format!("{subject}:next:panic"), json!({"params": params, "step": i, "msg": e}));
			return;
		}
	}
}

/// `yv params-replay <rows.ndjson> <seed> <steps>`
pub fn replay(args: &[String]) {
	let rows = read_lines(&args[0]);
	let seed: u64 = arg(args, 1, "seed");
	let steps: usize = arg(args, 2, "steps");
	let maxp = PeriodType::MAX as u64;
	let mut out = Sink::new();
	let mut constructed = 0u64;
	for (ri, r) in rows.iter().enumerate() {
		let subject = r["subject"].as_str().unwrap();
		let a = r["a"].as_u64().unwrap();
		let mut g = Gen::new(seed * 1_000_003 + ri as u64, subject == "RateOfChange");
		if let Some(outs) = r.get("outs").and_then(Value::as_array) {
			// two-parameter constructors: all second parameters
			for (b, exp) in outs.iter().enumerate() {
				let params = json!([a, b]);
				let init = init_for(subject, &mut g);
				let (act, m) = outcome(build(subject, &params, &init));
				constructed += 1;
				let cls = exp.as_str().unwrap();
				out.cmp(&format!("{subject}:new:outcome"), || json!({"params": params}), exp, &json!(act));
				let _ = cls;
				if let Some(mut m) = m {
					if b as u64 % 16 < 2 || a < 3 || a + b as u64 + 2 >= maxp {
						soak(&mut out, subject, &params, &mut m, &mut g, &init, steps);
					}
				}
			}
			continue;
		}
		let exp = &r["out"];
		if exp == "n/a" {
			continue;
		}
		if r["ma"] == json!(true) {
			let v = g.scalar();
			let res = catch(|| ma_of(subject, a as PeriodType).init(v as ValueType).map_err(|e| format!("{e:?}")));
			let (act, m) = outcome(res);
			constructed += 1;
			out.cmp(&format!("MA::{subject}:init:outcome"), || json!({"length": a}), exp, &json!(act));
			if let Some(mut m) = m {
				for i in 0..steps {
					let x = if i == 0 { v } else { g.scalar() } as ValueType;
					if let Err(e) = catch(|| m.next(&x)) {
						out.mismatch(&format!("MA::{subject}:next:panic"), json!({"length": a, "step": i, "msg": e}));
						break;
					}
				}
			}
			continue;
		}
		// one parameter: a length, a number of weights (Conv) or a period (CollapseTimeframe)
		let params = if subject == "Conv" { json!((0..a).map(|i| bits(1.0 + (i % 7) as f64 * 0.25)).collect::<Vec<_>>()) } else { json!([a]) };
		if subject != "Conv" && subject != "CollapseTimeframe" && a > maxp {
			continue;
		}
		let init = init_for(subject, &mut g);
		let (act, m) = outcome(build(subject, &params, &init));
		constructed += 1;
		out.cmp(&format!("{subject}:new:outcome"), || json!({"a": a}), exp, &json!(act));
		if let Some(mut m) = m {
			soak(&mut out, subject, &params, &mut m, &mut g, &init, steps);
		}
		// non-finite construction values
		if r["nonfinite"] != "n/a" && input_kind(subject) == 's' {
			for bad in [f64::NAN, f64::INFINITY, f64::NEG_INFINITY] {
				let (act, _) = outcome(build(subject, &params, &In::S(bad)));
				// the model states the outcome for the subjects that check finiteness; the others must at least not panic
				let expn = &r["nonfinite"];
				out.checked += 1;
				let ok = if expn == "err" { act == "err" } else { act != "panic" || expn == "panic" };
				if !ok {
					out.mismatch(&format!("{subject}:new:nonfinite"), json!({"a": a, "init": format!("{bad}"), "expected": expn, "actual": act}));
				}
			}
		}
	}
	out.summary(json!({"rows": rows.len(), "constructed": constructed}));
}
