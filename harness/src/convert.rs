//! C17: CollapseTimeframe (streaming + batch) and Renko.
use crate::methods::{candle, candle_fx, Gen};
use crate::util::*;
use serde_json::{json, Value};
use yata::core::{Candle, Method, Sequence, Source, ValueType, OHLCV};
use yata::methods::renko::RenkoBlock;
use yata::methods::{CollapseTimeframe, Renko};

fn cint(c: &Value) -> Candle {
	let g = |k: &str| c[k].as_i64().unwrap() as f64;
	candle(g("o"), g("h"), g("l"), g("c"), g("v"))
}
fn cval(c: &Candle) -> Value {
	json!({"o": c.open as i64, "h": c.high as i64, "l": c.low as i64, "c": c.close as i64, "v": c.volume as i64})
}
fn oc(o: &Option<Candle>) -> Value {
	match o {
		None => json!({"none": true}),
		Some(c) => json!({"none": false, "c": cval(c)}),
	}
}

/// `yv convert-replay <behaviours.ndjson>` — MC_Convert behaviours on CollapseTimeframe and Sequence::collapse_timeframe
pub fn replay(args: &[String]) {
	let rows = read_lines(&args[0]);
	let mut out = Sink::new();
	for b in &rows {
		let p = b["period"].as_u64().unwrap() as usize;
		let xs: Vec<Candle> = b["xs"].as_array().unwrap().iter().map(cint).collect();
		let r = catch(|| {
			let mut m = CollapseTimeframe::<Candle>::new(p, &xs[0]).unwrap();
			let a: Vec<Value> = xs.iter().map(|x| oc(&Method::next(&mut m, x))).collect();
			// over() on a second instance must give the same
			let mut m2 = CollapseTimeframe::<Candle>::new(p, &xs[0]).unwrap();
			let a2: Vec<Value> = m2.over(&xs).iter().map(oc).collect();
			(a, a2)
		});
		match r {
			Err(e) => out.mismatch("CollapseTimeframe:next:panic", json!({"period": p, "msg": e})),
			Ok((a, a2)) => {
				out.cmp("CollapseTimeframe:next:value", || json!({"period": p, "xs": b["xs"]}), &b["outs"], &json!(a));
				out.cmp("CollapseTimeframe:over:value", || json!({"period": p, "xs": b["xs"]}), &b["outs"], &json!(a2));
			}
		}
		for (field, cont) in [("batch", false), ("sliding", true)] {
			let r = catch(|| xs.collapse_timeframe(p, cont).iter().map(cval).collect::<Vec<_>>());
			match r {
				Err(e) => out.mismatch("Sequence:collapse_timeframe:panic", json!({"period": p, "continuous": cont, "msg": e})),
				Ok(v) => {
					out.cmp("Sequence:collapse_timeframe:value", || json!({"period": p, "continuous": cont, "xs": b["xs"]}), &b[field], &json!(v));
				}
			}
		}
	}
	out.summary(json!({"behaviours": rows.len()}));
}

fn brick_json(b: &RenkoBlock) -> Value {
	json!({"o": fx(b.open as f64), "c": fx(b.close as f64), "v": fx(b.volume as f64)})
}

fn index_of(list: &[RenkoBlock], b: Option<RenkoBlock>) -> i64 {
	match b {
		None => 0,
		Some(x) => list.iter().position(|y| *y == x).map_or(-1, |i| i as i64 + 1),
	}
}

/// `yv convert-record <seed> <programs> <steps> <out.ndjson>` — direction B
pub fn record(args: &[String]) {
	let seed: u64 = arg(args, 0, "seed");
	let programs: u64 = arg(args, 1, "programs");
	let steps: u64 = arg(args, 2, "steps");
	let mut tw = TraceWriter::create(&args[3]);
	let mut rng = Rng::new(seed ^ 0xc0117);
	for k in 0..programs {
		let mut g = Gen::new(rng.u64(), true);
		if k % 3 == 0 {
			// CollapseTimeframe with small and large periods (a usize, not a PeriodType)
			let p = *rng.pick(&[0usize, 1, 2, 3, 7, 60, 255, 256, 288, 300, 513]);
			let first = g.candle();
			let m = catch(|| CollapseTimeframe::<Candle>::new(p, &first));
			let res = match &m { Ok(Ok(_)) => "ok", Ok(Err(_)) => "err", Err(_) => "panic" };
			tw.ev(json!({"ev":"ct_new","period":p,"res":res}));
			let Ok(Ok(mut m)) = m else { continue };
			let n = (steps as usize).max(2 * p + 3).min(1100);
			for i in 0..n {
				let x = if i == 0 { first } else { g.candle() };
				match catch(|| Method::next(&mut m, &x)) {
					Ok(y) => tw.ev(json!({"ev":"ct_next","x":candle_fx(&x),"y": y.map_or(json!({"none": true}), |c| candle_fx(&c))})),
					Err(e) => {
						tw.ev(json!({"ev":"ct_next","x":candle_fx(&x),"y":{"panic": e}}));
						break;
					}
				}
			}
			continue;
		}
		// Renko
		let b = match rng.below(8) {
			0 => 0.0,
			1 => 1.0,
			2 => 0.5,
			3 => 0.013,
			4 => 0.25,
			5 => 1e-3,
			_ => 0.002 + rng.unit() * 0.2,
		};
		let src = *rng.pick(&[Source::Close, Source::HL2, Source::TP, Source::Open]);
		let first = g.candle();
		let m = catch(|| Renko::new((b as ValueType, src), &first));
		let res = match &m { Ok(Ok(_)) => "ok", Ok(Err(_)) => "err", Err(_) => "panic" };
		tw.ev(json!({"ev":"rk_new","b":fx(b),"v":fx(first.source(src) as f64),"res":res}));
		let Ok(Ok(mut m)) = m else { continue };
		let mut price = first.close as f64;
		for _ in 0..steps {
			// aim: exactly at / just below / just above the instance's current boundaries, multi-brick jumps, reversals, drift
			let st = serde_json::to_value(m).unwrap();
			let nu = st["next_block_upper"].as_f64().unwrap();
			let nl = st["next_block_lower"].as_f64().unwrap();
			let target = match rng.below(12) {
				0 => nu,
				1 => nl,
				2 => f64::from_bits(nu.to_bits() - 1),
				3 => f64::from_bits(nu.to_bits() + 1),
				4 => f64::from_bits(nl.to_bits() + 1),
				5 => f64::from_bits(nl.to_bits() - 1),
				6 => nu * (1.0 + b * (1.0 + rng.below(4) as f64) + rng.unit() * b),
				7 => nl * (1.0 - b * (rng.below(3) as f64) * 0.9 - rng.unit() * b * 0.5).max(0.05),
				_ => price * (1.0 + (rng.unit() - 0.5) * b * 1.2),
			};
			price = target.max(1e-3);
			let vol = if rng.chance(0.2) { 0.0 } else { (rng.unit() * 100.0).floor() + 1.0 };
			// a candle whose source value is exactly `price`
			let x = candle(price, price, price, price, vol);
			let r = catch(|| m.next(&x));
			let Ok(o) = r else {
				tw.ev(json!({"ev":"rk_next","v":fx(price),"vol":fx(vol),"len":-1,"sign":0,"bricks":[],"total_vol":fx(0.0),"panic":true}));
				break;
			};
			let bricks: Vec<RenkoBlock> = o.clone().collect();
			tw.ev(json!({"ev":"rk_next","v":fx(price),"vol":fx(vol),"len":o.len(),"sign":o.sign(),
				"bricks":bricks.iter().map(brick_json).collect::<Vec<_>>(),"total_vol":fx(if bricks.is_empty() { 0.0 } else { o.volume() as f64 })}));
			// iterator protocol of the output at a random position
			let len = bricks.len();
			let pos = rng.below(len as u64 + 1) as usize;
			let n = rng.below(len as u64 + 3) as usize;
			let at = || {
				let mut it = o.clone();
				for _ in 0..pos {
					it.next();
				}
				it
			};
			let iter_ev = catch(|| {
				let mut a = at();
				let hint = a.size_hint();
				let exact = a.len();
				let nxt = index_of(&bricks, a.next());
				let count = at().count();
				let last = index_of(&bricks, at().last());
				let mut c = at();
				let nth = index_of(&bricks, c.nth(n));
				let hint2 = c.size_hint().0;
				let nxt2 = index_of(&bricks, c.next());
				json!({"ev":"rk_iter","len":len,"pos":pos,"n":n,"hint":hint.0,"hint_hi":hint.1,"exact_len":exact,"count":count,"next":nxt,"last":last,
					"nth":nth,"hint_after_nth":hint2,"next_after_nth":nxt2})
			});
			match iter_ev {
				Ok(e) => tw.ev(e),
				Err(_) => tw.ev(json!({"ev":"rk_iter","len":len,"pos":pos,"n":n,"hint":-1,"exact_len":-1,"count":-1,"next":-1,"last":-1,"nth":-1,"hint_after_nth":-1,"next_after_nth":-1})),
			}
		}
	}
	let n = tw.finish();
	println!("{}", json!({"kind":"summary","events":n}));
}


/// Smallest price >= `from` (dir = +1) / largest price <= `from` (dir = -1) at which a copy of `m` emits a brick, found by
/// bisection on the float bit patterns (the emission is monotone in the price on either side).
fn brick_boundary(m: &Renko, from: f64, dir: i32) -> Option<f64> {
	let emits = |p: f64| -> bool {
		let mut c = *m;
		let x = candle(p, p, p, p, 1.0);
		catch(|| Method::next(&mut c, &x).len() > 0).unwrap_or(false)
	};
	if emits(from) {
		return None;
	}
	let mut far = from;
	for _ in 0..60 {
		far = if dir > 0 { far * 1.5 } else { far / 1.5 };
		if emits(far) {
			break;
		}
	}
	if !emits(far) {
		return None;
	}
	// invariant: !emits(near) && emits(far)
	let (mut near, mut farb) = (from.to_bits(), far.to_bits());
	while (if dir > 0 { farb - near } else { near - farb }) > 1 {
		let mid = if dir > 0 { near + (farb - near) / 2 } else { farb + (near - farb) / 2 };
		if emits(f64::from_bits(mid)) {
			farb = mid;
		} else {
			near = mid;
		}
	}
	Some(f64::from_bits(farb))
}

/// `yv renko-snapshot <seed> <programs> <steps>` — C13 for Renko: a restored instance has exactly the same brick boundaries
/// (probed behaviourally: the first price in either direction at which a brick is emitted), at every step of a stream.
pub fn renko_snapshot(args: &[String]) {
	let seed: u64 = arg(args, 0, "seed");
	let programs: u64 = arg(args, 1, "programs");
	let steps: u64 = arg(args, 2, "steps");
	let mut out = Sink::new();
	let mut rng = Rng::new(seed ^ 0x4e4b0);
	for _ in 0..programs {
		let b = *rng.pick(&[0.003, 0.0137, 0.01, 0.25, 0.013, 0.5, 1e-3, 0.0731]);
		let mut g = Gen::new(rng.u64(), true);
		let first = g.candle();
		let Ok(Ok(mut m)) = catch(|| Renko::new((b as ValueType, Source::Close), &first)) else { continue };
		for i in 0..steps {
			let x = g.candle();
			if catch(|| Method::next(&mut m, &x).len()).is_err() {
				break;
			}
			let text = serde_json::to_string(&m).unwrap();
			let r: Renko = match serde_json::from_str(&text) {
				Ok(r) => r,
				Err(e) => {
					out.mismatch("Renko:snapshot:err", json!({"brick": b, "step": i, "msg": e.to_string()}));
					break;
				}
			};
			let p = x.close as f64;
			for dir in [1, -1] {
				out.checked += 1;
				let (bo, br) = (brick_boundary(&m, p, dir), brick_boundary(&r, p, dir));
				if bo.map(f64::to_bits) != br.map(f64::to_bits) {
					out.mismatch("Renko:snapshot:boundary", json!({"brick": b, "step": i, "direction": dir, "original": bo, "restored": br, "snapshot": text}));
				}
			}
		}
	}
	out.summary(json!({"programs": programs}));
}
