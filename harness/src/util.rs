//! Shared helpers: deterministic PRNG, panic capture, float <-> JSON conversions, output.
use serde_json::{json, Value};
use std::io::Write;
use std::panic::{catch_unwind, AssertUnwindSafe};

/// xoshiro256** seeded through splitmix64
#[derive(Clone)]
pub struct Rng([u64; 4]);

impl Rng {
	pub fn new(seed: u64) -> Self {
		let mut s = seed.wrapping_add(0x9E37_79B9_7F4A_7C15);
		let mut next = || {
			s = s.wrapping_add(0x9E37_79B9_7F4A_7C15);
			let mut z = s;
			z = (z ^ (z >> 30)).wrapping_mul(0xBF58_476D_1CE4_E5B9);
			z = (z ^ (z >> 27)).wrapping_mul(0x94D0_49BB_1331_11EB);
			z ^ (z >> 31)
		};
		Self([next(), next(), next(), next()])
	}
	pub fn u64(&mut self) -> u64 {
		let s = &mut self.0;
		let r = s[1].wrapping_mul(5).rotate_left(7).wrapping_mul(9);
		let t = s[1] << 17;
		s[2] ^= s[0];
		s[3] ^= s[1];
		s[1] ^= s[2];
		s[0] ^= s[3];
		s[2] ^= t;
		s[3] = s[3].rotate_left(45);
		r
	}
	/// uniform in 0..n (n > 0)
	pub fn below(&mut self, n: u64) -> u64 {
		self.u64() % n
	}
	pub fn range(&mut self, lo: i64, hi: i64) -> i64 {
		lo + (self.u64() % ((hi - lo + 1) as u64)) as i64
	}
	pub fn unit(&mut self) -> f64 {
		(self.u64() >> 11) as f64 / (1u64 << 53) as f64
	}
	pub fn chance(&mut self, p: f64) -> bool {
		self.unit() < p
	}
	pub fn pick<'a, T>(&mut self, xs: &'a [T]) -> &'a T {
		&xs[self.below(xs.len() as u64) as usize]
	}
}

pub static LAST_PANIC: std::sync::Mutex<String> = std::sync::Mutex::new(String::new());

/// Panics are data: nothing is printed, the last message is kept for the top-level handler.
pub fn silence_panics() {
	std::panic::set_hook(Box::new(|info| {
		if let Ok(mut g) = LAST_PANIC.lock() {
			*g = info.to_string();
		}
	}));
}

/// Run `f`; a panic in the code under test is data.
pub fn catch<T>(f: impl FnOnce() -> T) -> Result<T, String> {
	catch_unwind(AssertUnwindSafe(f)).map_err(|e| {
		if let Some(s) = e.downcast_ref::<&str>() {
			(*s).to_string()
		} else if let Some(s) = e.downcast_ref::<String>() {
			s.clone()
		} else {
			"panic".to_string()
		}
	})
}

pub fn some(v: Value) -> Value {
	json!(["some", v])
}
pub fn none() -> Value {
	json!(["none"])
}
pub fn panic_v() -> Value {
	json!(["panic"])
}
pub fn opt<T: Into<Value>>(o: Option<T>) -> Value {
	match o {
		Some(v) => some(v.into()),
		None => none(),
	}
}
pub fn outcome<T: Into<Value>>(r: Result<Option<T>, String>) -> Value {
	match r {
		Ok(o) => opt(o),
		Err(_) => panic_v(),
	}
}

/// Output sink: one JSON object per line on stdout.
pub struct Sink {
	pub mismatches: u64,
	pub checked: u64,
	limit: u64,
	per_key: std::collections::HashMap<String, u64>,
}

impl Sink {
	pub fn new() -> Self {
		Self { mismatches: 0, checked: 0, limit: 400, per_key: std::collections::HashMap::new() }
	}
	pub fn line(&self, v: &Value) {
		let stdout = std::io::stdout();
		let mut l = stdout.lock();
		let _ = writeln!(l, "{}", v);
	}
	/// at most 2 lines per key (every key is reported), `limit` lines in total
	fn admit(&mut self, key: &str) -> bool {
		self.mismatches += 1;
		let n = self.per_key.entry(key.to_string()).or_insert(0);
		*n += 1;
		*n <= 2 && (self.per_key.len() as u64) <= self.limit
	}
	/// record a comparison; emits a mismatch line when `exp != act`
	pub fn cmp(&mut self, key: &str, ctx: impl FnOnce() -> Value, exp: &Value, act: &Value) -> bool {
		self.checked += 1;
		if exp != act {
			if self.admit(key) {
				self.line(&json!({"kind":"mismatch","key":key,"ctx":ctx(),"expected":exp,"actual":act}));
			}
			return false;
		}
		true
	}
	pub fn mismatch(&mut self, key: &str, detail: Value) {
		if self.admit(key) {
			self.line(&json!({"kind":"mismatch","key":key,"ctx":detail}));
		}
	}
	pub fn summary(&self, extra: Value) {
		self.line(&json!({"kind":"summary","checked":self.checked,"mismatches":self.mismatches,"extra":extra}));
	}
}

pub struct TraceWriter {
	w: std::io::BufWriter<std::fs::File>,
	pub events: u64,
}

impl TraceWriter {
	pub fn create(path: &str) -> Self {
		Self { w: std::io::BufWriter::new(std::fs::File::create(path).expect("create trace")), events: 0 }
	}
	pub fn ev(&mut self, v: Value) {
		self.events += 1;
		let _ = writeln!(self.w, "{}", v);
	}
	pub fn finish(mut self) -> u64 {
		let _ = self.w.flush();
		self.events
	}
}

// ---------------------------------------------------------------- floats

pub fn bits(x: f64) -> String {
	format!("0x{:016x}", x.to_bits())
}

pub fn from_bits(s: &str) -> f64 {
	f64::from_bits(u64::from_str_radix(s.trim_start_matches("0x"), 16).expect("hex bits"))
}

/// Fx form of a finite f64: nearest multiple of 10^-24, as sign + little-endian base-10^4 limbs
/// of |x| * 10^24.  Non-finite values become {"k": "nan" | "inf" | "-inf"}.
pub fn fx(x: f64) -> Value {
	if x.is_nan() {
		return json!({"k":"nan"});
	}
	if x.is_infinite() {
		return json!({"k": if x > 0.0 {"inf"} else {"-inf"}});
	}
	let s = format!("{:.24}", x.abs());
	let digits: String = s.chars().filter(|c| c.is_ascii_digit()).collect();
	let digits = digits.trim_start_matches('0');
	let mut limbs: Vec<u32> = Vec::new();
	let bytes = digits.as_bytes();
	let mut end = bytes.len();
	while end > 0 {
		let start = end.saturating_sub(4);
		let chunk = std::str::from_utf8(&bytes[start..end]).unwrap();
		limbs.push(chunk.parse::<u32>().unwrap());
		end = start;
	}
	let sign = if limbs.is_empty() { 0 } else if x < 0.0 { -1 } else { 1 };
	json!({"s": sign, "m": limbs})
}

pub fn arg<T: std::str::FromStr>(args: &[String], i: usize, what: &str) -> T {
	args.get(i)
		.unwrap_or_else(|| panic!("missing argument {what}"))
		.parse::<T>()
		.unwrap_or_else(|_| panic!("bad argument {what}"))
}

pub fn read_lines(path: &str) -> Vec<Value> {
	let text = std::fs::read_to_string(path).unwrap_or_else(|e| panic!("read {path}: {e}"));
	text.lines()
		.filter(|l| !l.trim().is_empty())
		.map(|l| serde_json::from_str(l).unwrap_or_else(|e| panic!("json in {path}: {e}")))
		.collect()
}

/// PeriodType::MAX as the generators see it: YV_PMAX overrides it so that builds with a wider PeriodType can be
/// driven with exactly the programs of the default build (C20) or with larger lengths.
pub fn maxp() -> u64 {
	std::env::var("YV_PMAX").ok().and_then(|v| v.parse().ok()).unwrap_or(yata::core::PeriodType::MAX as u64)
}
/// YV_SAFE_ONLY=1: generators leave out calls on which the default (safe) build panics (C19's antecedent)
pub fn safe_only() -> bool {
	std::env::var("YV_SAFE_ONLY").map_or(false, |v| v == "1")
}
