//! Token-domain subjects (Selection, Cross, Reversal): tokens [rank, bits] are embedded into floats,
//! the real methods are run, and results are mapped back to ranks / compared with the spec's selection.
use crate::util::*;
use serde_json::{json, Value};
use yata::core::{Action, Method, PeriodType, ValueType};
use yata::helpers::Peekable;
use yata::methods::*;

/// order-preserving embeddings of ranks into floats; rank 0 <-> +-0.0
#[derive(Clone, Copy, Debug)]
pub struct Emb(pub u8);
pub const EMBS: u8 = 11;
/// an embedding used by the cross-build transcripts only: magnitudes near the top of the range (sums of two values overflow)
pub const EMB_EXTREME: u8 = 11;
pub const LINEAR_EMBS: [u8; 3] = [0, 1, 2];

impl Emb {
	pub fn scale(self) -> f64 {
		match self.0 {
			0 => 1.0,
			1 => 1.0 / 4096.0,
			2 => 8_589_934_592.0,
			11 => 6e307,
			_ => f64::NAN,
		}
	}
	pub fn rank(self, r: i64) -> f64 {
		let x = r as f64;
		match self.0 {
			0 | 1 | 2 => x * self.scale(),
			3 => x * x * x,
			4 => x * 0.1,
			5 => x * 333_333.333_333_333_3,
			// magnitudes whose products under- / overflow (a decaying oscillator late in a stream; a sign test written as a product)
			11 => x * 6e307,
			9 => x * 1e-170,
			10 => x * 1e160,
			// "ugly" monotone odd tables: full mantissas, irregular gaps (rounding of sums/differences shows)
			k => {
				let a = r.unsigned_abs();
				let mut h = a.wrapping_mul(0x9E37_79B9_7F4A_7C15).wrapping_add((k as u64).wrapping_mul(0xD1B5_4A32_D192_ED03));
				h ^= h >> 29;
				h = h.wrapping_mul(0xBF58_476D_1CE4_E5B9);
				h ^= h >> 32;
				let frac = (h >> 11) as f64 / (1u64 << 53) as f64;
				let mag = a as f64 * 1.37 + frac * 0.61;
				let mag = if k == 8 { mag * 1e-7 } else { mag };
				if r < 0 { -mag } else if r == 0 { 0.0 } else { mag }
			}
		}
	}
	pub fn tok(self, t: &Value) -> f64 {
		let r = t[0].as_i64().unwrap();
		let b = t[1].as_i64().unwrap();
		if r == 0 {
			if b == 1 {
				-0.0
			} else {
				0.0
			}
		} else {
			self.rank(r)
		}
	}
	/// inverse on the range [-lim, lim]
	pub fn inv(self, x: f64, lim: i64) -> Option<i64> {
		let (mut lo, mut hi) = (-lim, lim);
		while lo <= hi {
			let mid = (lo + hi) / 2;
			let v = self.rank(mid);
			if v == x {
				return Some(mid);
			}
			if v < x {
				lo = mid + 1;
			} else {
				hi = mid - 1;
			}
		}
		None
	}
}

fn act(a: Action) -> i64 {
	match a {
		Action::None => 0,
		Action::Buy(255) => 1,
		Action::Sell(255) => -1,
		Action::Buy(s) => 1000 + s as i64,
		Action::Sell(s) => -1000 - s as i64,
	}
}

pub enum Subj {
	Highest(Highest),
	Lowest(Lowest),
	Delta(HighestLowestDelta),
	HIdx(HighestIndex),
	LIdx(LowestIndex),
	Smm(SMM),
	Mad(MedianAbsDev),
	Above(CrossAbove),
	Under(CrossUnder),
	Cross(Cross),
	Upper(UpperReversalSignal),
	Lower(LowerReversalSignal),
	Both(ReversalSignal),
}

/// raw result of one call, before interpretation
pub enum Raw {
	F(f64),
	I(i64),
}

pub fn is_pair(subject: &str) -> bool {
	matches!(subject, "CrossAbove" | "CrossUnder" | "Cross")
}

impl Subj {
	pub fn new(subject: &str, p: &[u64], emb: Emb, init: &Value) -> Result<Result<Subj, String>, String> {
		let v = |t: &Value| emb.tok(t) as ValueType;
		let n = *p.first().unwrap_or(&0) as PeriodType;
		let lr = (n, *p.get(1).unwrap_or(&0) as PeriodType);
		let subject = subject.to_string();
		let init = init.clone();
		catch(move || -> Result<Subj, String> {
			let e = |x: yata::core::Error| format!("{x:?}");
			Ok(match subject.as_str() {
				"Highest" => Subj::Highest(Highest::new(n, &v(&init)).map_err(e)?),
				"Lowest" => Subj::Lowest(Lowest::new(n, &v(&init)).map_err(e)?),
				"HighestLowestDelta" => Subj::Delta(HighestLowestDelta::new(n, &v(&init)).map_err(e)?),
				"HighestIndex" => Subj::HIdx(HighestIndex::new(n, &v(&init)).map_err(e)?),
				"LowestIndex" => Subj::LIdx(LowestIndex::new(n, &v(&init)).map_err(e)?),
				"SMM" => Subj::Smm(SMM::new(n, &v(&init)).map_err(e)?),
				"MadMedian" => Subj::Mad(MedianAbsDev::new(n, &v(&init)).map_err(e)?),
				"CrossAbove" => Subj::Above(CrossAbove::new((), &(v(&init[0]), v(&init[1]))).map_err(e)?),
				"CrossUnder" => Subj::Under(CrossUnder::new((), &(v(&init[0]), v(&init[1]))).map_err(e)?),
				"Cross" => Subj::Cross(Cross::new((), &(v(&init[0]), v(&init[1]))).map_err(e)?),
				"UpperReversalSignal" => Subj::Upper(UpperReversalSignal::new(lr.0, lr.1, &v(&init)).map_err(e)?),
				"LowerReversalSignal" => Subj::Lower(LowerReversalSignal::new(lr.0, lr.1, &v(&init)).map_err(e)?),
				"ReversalSignal" => Subj::Both(ReversalSignal::new(lr.0, lr.1, &v(&init)).map_err(e)?),
				other => panic!("unknown token subject {other}"),
			})
		})
	}

	pub fn next(&mut self, emb: Emb, x: &Value) -> Result<Raw, String> {
		let v = |t: &Value| emb.tok(t) as ValueType;
		catch(move || match self {
			Subj::Highest(m) => Raw::F(m.next(&v(x)) as f64),
			Subj::Lowest(m) => Raw::F(m.next(&v(x)) as f64),
			Subj::Delta(m) => Raw::F(m.next(&v(x)) as f64),
			Subj::HIdx(m) => Raw::I(m.next(&v(x)) as i64),
			Subj::LIdx(m) => Raw::I(m.next(&v(x)) as i64),
			Subj::Smm(m) => Raw::F(m.next(&v(x)) as f64),
			Subj::Mad(m) => {
				m.next(&v(x));
				Raw::F(m.get_smm().peek() as f64)
			}
			Subj::Above(m) => Raw::I(act(m.next(&(v(&x[0]), v(&x[1]))))),
			Subj::Under(m) => Raw::I(act(m.next(&(v(&x[0]), v(&x[1]))))),
			Subj::Cross(m) => Raw::I(act(m.next(&(v(&x[0]), v(&x[1]))))),
			Subj::Upper(m) => Raw::I(act(m.next(&v(x)))),
			Subj::Lower(m) => Raw::I(act(m.next(&v(x)))),
			Subj::Both(m) => Raw::I(act(m.next(&v(x)))),
		})
	}

	/// replace the instance by its own serde_json snapshot restored (C13): Err(msg) when deserialization fails
	pub fn reserialize(&mut self) -> Result<(), String> {
		macro_rules! rt {
			($m:expr, $ty:ty) => {{
				let text = serde_json::to_string(&*$m).map_err(|e| e.to_string())?;
				*$m = serde_json::from_str::<$ty>(&text).map_err(|e| format!("{e}: {text}"))?;
			}};
		}
		match self {
			Subj::Highest(m) => rt!(m, Highest),
			Subj::Lowest(m) => rt!(m, Lowest),
			Subj::Delta(m) => rt!(m, HighestLowestDelta),
			Subj::HIdx(m) => rt!(m, HighestIndex),
			Subj::LIdx(m) => rt!(m, LowestIndex),
			Subj::Smm(m) => rt!(m, SMM),
			Subj::Mad(m) => rt!(m, MedianAbsDev),
			Subj::Above(m) => rt!(m, CrossAbove),
			Subj::Under(m) => rt!(m, CrossUnder),
			Subj::Cross(m) => rt!(m, Cross),
			Subj::Upper(m) => rt!(m, UpperReversalSignal),
			Subj::Lower(m) => rt!(m, LowerReversalSignal),
			Subj::Both(m) => rt!(m, ReversalSignal),
		}
		Ok(())
	}

	/// Peekable::peek where the subject implements it
	pub fn peek(&self) -> Option<Raw> {
		Some(match self {
			Subj::Highest(m) => Raw::F(m.peek() as f64),
			Subj::Lowest(m) => Raw::F(m.peek() as f64),
			Subj::Delta(m) => Raw::F(m.peek() as f64),
			Subj::HIdx(m) => Raw::I(m.peek() as i64),
			Subj::LIdx(m) => Raw::I(m.peek() as i64),
			Subj::Smm(m) => Raw::F(m.peek() as f64),
			Subj::Mad(m) => Raw::F(m.get_smm().peek() as f64),
			_ => return None,
		})
	}
}

fn same_float(a: f64, b: f64) -> bool {
	a == b || (a.is_nan() && b.is_nan())
}

/// Does the raw result equal the spec's output `y` (a tuple of ranks / integers) under embedding `emb`?
pub fn matches(subject: &str, emb: Emb, y: &Value, raw: &Raw) -> bool {
	let yi = |k: usize| y[k].as_i64().unwrap();
	match (subject, raw) {
		("Highest" | "Lowest", Raw::F(x)) => same_float(*x, emb.rank(yi(0))),
		("HighestLowestDelta", Raw::F(x)) => same_float(*x, emb.rank(yi(0)) - emb.rank(yi(1))),
		("SMM" | "MadMedian", Raw::F(x)) => same_float(*x, (emb.rank(yi(1)) + emb.rank(yi(0))) * 0.5),
		(_, Raw::I(i)) => *i == yi(0),
		_ => false,
	}
}

pub fn raw_json(r: &Result<Raw, String>) -> Value {
	match r {
		Ok(Raw::F(x)) => json!({"f": x, "bits": bits(*x)}),
		Ok(Raw::I(i)) => json!(i),
		Err(e) => json!({"panic": e}),
	}
}

fn params_of(b: &Value) -> Vec<u64> {
	b["params"].as_array().map(|a| a.iter().map(|x| x.as_u64().unwrap()).collect()).unwrap_or_default()
}

/// `yv tok-replay <behaviours.ndjson>` — direction A.
/// Each behaviour: {subject, params, init, xs: [...], ys: [...]}; ys[i] is the spec's output after xs[i].
pub fn replay(args: &[String]) {
	let rows = read_lines(&args[0]);
	let mut out = Sink::new();
	let mut calls = 0u64;
	for b in &rows {
		let subject = b["subject"].as_str().unwrap();
		let p = params_of(b);
		let xs = b["xs"].as_array().unwrap();
		let ys = b["ys"].as_array().unwrap();
		// every behaviour runs under every embedding; under embeddings 0 and 6 it runs a second time with the
		// instance replaced by its restored serde_json snapshot before every call (C13)
		for e2 in 0..(EMBS + 2) {
			let (e, restore) = if e2 < EMBS { (e2, false) } else { ([0u8, 6u8][(e2 - EMBS) as usize], true) };
			let emb = Emb(e);
			let mut m = match Subj::new(subject, &p, emb, &b["init"]) {
				Ok(Ok(m)) => m,
				other => {
					let msg = match other {
						Ok(Err(e)) => e,
						Err(e) => format!("panic: {e}"),
						_ => unreachable!(),
					};
					out.mismatch(&format!("{subject}:new:rejected"), json!({"params": p, "init": b["init"], "msg": msg}));
					break;
				}
			};
			// a clone taken before the stream must not be disturbed by it (checked at the end)
			for (i, x) in xs.iter().enumerate() {
				if restore {
					match catch(|| m.reserialize()) {
						Ok(Ok(())) => {}
						Ok(Err(msg)) => {
							out.mismatch(&format!("{subject}:restore:err"), json!({"params": p, "init": b["init"], "xs": xs[..i], "msg": msg}));
							break;
						}
						Err(msg) => {
							out.mismatch(&format!("{subject}:restore:panic"), json!({"params": p, "init": b["init"], "xs": xs[..i], "msg": msg}));
							break;
						}
					}
				}
				let r = m.next(emb, x);
				calls += 1;
				let ok = match &r {
					Ok(raw) => matches(subject, emb, &ys[i], raw),
					Err(_) => false,
				};
				out.checked += 1;
				if !ok {
					out.mismatch(
						&format!("{subject}:{}:{}", if restore { "next-after-restore" } else { "next" }, if r.is_err() { "panic" } else { "value" }),
						json!({"params": p, "init": b["init"], "xs": xs[..=i], "emb": e, "step": i,
							"expected": ys[i], "actual": raw_json(&r)}),
					);
					break;
				}
				if let Some(pk) = m.peek() {
					out.checked += 1;
					if !matches(subject, emb, &ys[i], &pk) {
						out.mismatch(&format!("{subject}:peek:value"), json!({"params": p, "xs": xs[..=i], "emb": e,
							"expected": ys[i], "actual": raw_json(&Ok(pk))}));
						break;
					}
				}
			}
		}
	}
	// Reversal detectors renumber their position counters when they reach the capacity of PeriodType: every enumerated
	// behaviour is replayed again LATE in a stream -- after so many copies of the construction value (a constant prehistory
	// changes no output of the definition) that the renumbering step falls on each position of the behaviour in turn
	let mut late_runs = 0u64;
	if std::env::var("YV_LATE").is_ok() {
		for b in &rows {
			let subject = b["subject"].as_str().unwrap();
			if !subject.contains("Reversal") {
				continue;
			}
			let p = params_of(b);
			let xs = b["xs"].as_array().unwrap();
			let ys = b["ys"].as_array().unwrap();
			let wl = p.iter().sum::<u64>() + 1;
			let cap = PeriodType::MAX as u64;
			if cap > 100_000 {
				continue; // (wide PeriodType builds: the counters never reach their capacity in a replay)
			}
			let mut starts: Vec<u64> = Vec::new();
			for j in 0..=(xs.len() as u64 + 1) {
				starts.push((cap - 1).saturating_sub(j));
				starts.push((cap - 1).saturating_add(cap.saturating_add(1).saturating_sub(wl)).saturating_sub(j));
			}
			let emb = Emb(0);
			for l in starts {
				let Ok(Ok(mut m)) = Subj::new(subject, &p, emb, &b["init"]) else { continue };
				let mut alive = true;
				for _ in 0..l {
					alive = alive && m.next(emb, &b["init"]).is_ok();
				}
				if !alive {
					out.mismatch(&format!("{subject}:next-late:panic"), json!({"params": p, "init": b["init"], "prefix": l}));
					continue;
				}
				late_runs += 1;
				for (i, x) in xs.iter().enumerate() {
					let r = m.next(emb, x);
					calls += 1;
					out.checked += 1;
					let ok = match &r {
						Ok(raw) => matches(subject, emb, &ys[i], raw),
						Err(_) => false,
					};
					if !ok {
						out.mismatch(&format!("{subject}:next-late:{}", if r.is_err() { "panic" } else { "value" }),
							json!({"params": p, "init": b["init"], "prefix_copies_of_init": l, "xs": xs[..=i], "step": i, "expected": ys[i], "actual": raw_json(&r)}));
						break;
					}
				}
			}
		}
	}
	out.summary(json!({"behaviours": rows.len(), "calls": calls, "embeddings": EMBS, "late_runs": late_runs}));
}

// ------------------------------------------------------------------ direction B

fn gen_tok(rng: &mut Rng, shape: u64, prev: i64, lim: i64, negzero: bool) -> Value {
	let r = match shape {
		0 => rng.range(-lim, lim),                     // uniform
		1 => rng.range(-2, 2),                         // heavy ties
		2 => (prev + 1).min(lim),                      // monotone up
		3 => (prev - 1).max(-lim),                     // monotone down
		4 => if rng.chance(0.1) { rng.range(-lim, lim) } else { prev }, // plateaus with jumps
		5 => (prev + rng.range(-1, 1)).clamp(-lim, lim), // slow walk
		_ => if rng.chance(0.5) { 0 } else { rng.range(-1, 1) }, // zeros
	};
	let b = if r == 0 && negzero && rng.chance(0.4) { 1 } else { 0 };
	json!([r, b])
}

/// output in "rank units" for linear embeddings
fn rank_units(subject: &str, emb: Emb, raw: &Result<Raw, String>) -> Value {
	match raw {
		Err(_) => json!([-999]), // panic sentinel (an integer, so that the trace spec can compare it)
		Ok(Raw::I(i)) => json!([i]),
		Ok(Raw::F(x)) => {
			let s = emb.scale();
			let u = if subject == "SMM" || subject == "MadMedian" { x / s * 2.0 } else { x / s };
			if u.fract() == 0.0 && u.abs() < 1e15 {
				json!([u as i64])
			} else {
				json!([-998, x])
			}
		}
	}
}

/// `yv tok-record <family> <seed> <programs> <steps> <out.ndjson>` — direction B.
/// family: sel | cross | rev
pub fn record(args: &[String]) {
	let family = args[0].as_str();
	let seed: u64 = arg(args, 1, "seed");
	let programs: u64 = arg(args, 2, "programs");
	let steps: u64 = arg(args, 3, "steps");
	let mut tw = TraceWriter::create(&args[4]);
	let mut rng = Rng::new(seed ^ 0x70c);
	let maxp = maxp();
	let subjects: &[&str] = match family {
		"sel" | "selx" => &["Highest", "Lowest", "HighestLowestDelta", "HighestIndex", "LowestIndex", "SMM", "MadMedian"],
		"cross" => &["CrossAbove", "CrossUnder", "Cross"],
		_ => &["UpperReversalSignal", "LowerReversalSignal", "ReversalSignal"],
	};
	for k in 0..programs {
		let subject = subjects[(k % subjects.len() as u64) as usize];
		let mut emb = Emb(LINEAR_EMBS[rng.below(3) as usize]);
		if family == "selx" {
			emb = Emb(EMB_EXTREME);
		}
		// YV_TOK_ZEROS: tiny alphabets full of signed zeros and ties, short windows (the corner the medians' binary searches and
		// the cached extrema are most sensitive to)
		let zeros = std::env::var("YV_TOK_ZEROS").is_ok();
		let lim = if family == "selx" { 2 } else if zeros { *rng.pick(&[1i64, 1, 2]) } else { *rng.pick(&[2i64, 3, 5, 40, 1000]) };
		let negzero = family != "rev" && (zeros || rng.chance(0.5));
		let p: Vec<u64> = match family {
			"sel" | "selx" => {
				let lo = if subject == "MadMedian" { 2 } else { 1 };
				vec![match if family == "selx" { 3 } else if zeros { 3 + rng.below(2) * 4 } else { rng.below(8) } {
					0 => maxp - 1,
					1 => maxp - 2,
					2 => lo,
					3 => rng.range(lo as i64, 9) as u64,
					4 => *rng.pick(&[127, 128, 63, 64, 100]),
					_ => rng.range(lo as i64, 30) as u64,
				}]
			}
			"cross" => vec![],
			_ => {
				let (l, r) = match rng.below(6) {
					0 => (1, 1),
					1 => (rng.range(1, 3) as u64, rng.range(1, 3) as u64),
					2 => (rng.range(1, 10) as u64, rng.range(1, 10) as u64),
					3 => (1, maxp - 3),
					4 => (maxp - 3, 1),
					_ => (rng.range(1, 120) as u64, rng.range(1, 120) as u64),
				};
				vec![l, r]
			}
		};
		let first = gen_tok(&mut rng, 0, 0, lim, negzero);
		let init = if is_pair(subject) { json!([first, gen_tok(&mut rng, 0, 0, lim, negzero)]) } else { first.clone() };
		tw.ev(json!({"ev":"reset"}));
		let m = Subj::new(subject, &p, emb, &init);
		let res = match &m {
			Ok(Ok(_)) => "ok",
			Ok(Err(_)) => "err",
			Err(_) => "panic",
		};
		tw.ev(json!({"ev":"new","subject":subject,"params":p,"init":init,"res":res,"emb":emb.0}));
		let Ok(Ok(mut m)) = m else { continue };
		let mut prev = init[0].as_i64().unwrap_or(0);
		let mut prev2 = 0i64;
		let mut shape = rng.below(7);
		for i in 0..steps {
			if rng.chance(0.03) {
				shape = rng.below(7);
			}
			let x = if i == 0 && family == "rev" {
				init.clone() // Method::new prescribes: the first input is the construction value
			} else if is_pair(subject) {
				let a = gen_tok(&mut rng, shape, prev, lim, negzero);
				// the base series moves rarely, so that touches and repeated zeros of the difference are frequent
				let b = if rng.chance(0.7) { json!([prev2, 0]) } else { gen_tok(&mut rng, 1, prev2, lim, negzero) };
				prev2 = b[0].as_i64().unwrap();
				json!([a, b])
			} else {
				gen_tok(&mut rng, shape, prev, lim, negzero)
			};
			prev = if is_pair(subject) { x[0][0].as_i64().unwrap() } else { x[0].as_i64().unwrap() };
			let r = m.next(emb, &x);
			if r.is_err() {
				tw.ev(json!({"ev":"next","x":x,"y":rank_units(subject, emb, &r),"panic":true}));
			} else {
				tw.ev(json!({"ev":"next","x":x,"y":rank_units(subject, emb, &r)}));
			}
			if r.is_err() {
				break;
			}
		}
	}
	let n = tw.finish();
	println!("{}", json!({"kind":"summary","events":n}));
}
