//! C08: constant prehistory — metamorphic programs recorded for Trace_Prefix.
use crate::methods::*;
use crate::util::*;
use serde_json::{json, Value};

pub fn flat(o: &Out) -> Vec<f64> {
	match o {
		Out::F(x) => vec![*x],
		Out::I(i) => vec![*i as f64],
		Out::A(a) => vec![*a as f64],
		Out::C(c) => vec![c.open as f64, c.high as f64, c.low as f64, c.close as f64, c.volume as f64],
		Out::OC(None) => vec![],
		Out::OC(Some(c)) => vec![c.open as f64, c.high as f64, c.low as f64, c.close as f64, c.volume as f64],
	}
}
fn fxs(v: &[f64]) -> Value {
	json!(v.iter().map(|x| fx(*x)).collect::<Vec<_>>())
}

const EXACT: &[&str] = &["Highest", "Lowest", "HighestLowestDelta", "HighestIndex", "LowestIndex", "SMM", "Past", "CrossAbove", "CrossUnder", "Cross",
	"UpperReversalSignal", "LowerReversalSignal", "ReversalSignal"];
/// subjects the property covers (windowless Integral / ADI, CollapseTimeframe, Renko volume are exempt)
pub const SUBJECTS: &[&str] = &["SMA", "WMA", "SWMA", "TRIMA", "HMA", "LinReg", "Conv", "VWMA", "Integral", "Derivative", "Momentum", "RateOfChange", "Past",
	"StDev", "MeanAbsDev", "MedianAbsDev", "CCI", "LinearVolatility", "ADI", "EMA", "DMA", "TMA", "DEMA", "TEMA", "RMA", "WSMA", "TSI", "Vidya", "TR",
	"HeikinAshi", "SMM", "Highest", "Lowest", "HighestLowestDelta", "HighestIndex", "LowestIndex", "CrossAbove", "CrossUnder", "Cross",
	"UpperReversalSignal", "LowerReversalSignal", "ReversalSignal"];

fn params_for(subject: &str, rng: &mut Rng, big: bool) -> (Value, u64) {
	match subject {
		"Conv" => {
			let n = if big { 100 } else { rng.range(1, 8) as u64 };
			(json!((0..n).map(|i| bits(1.0 + (i % 5) as f64 * 0.37)).collect::<Vec<_>>()), n)
		}
		"TSI" => (json!([rng.range(1, 12), rng.range(2, 30)]), 30),
		"TR" | "HeikinAshi" | "CrossAbove" | "CrossUnder" | "Cross" => (json!([]), 1),
		"UpperReversalSignal" | "LowerReversalSignal" | "ReversalSignal" => {
			let (l, r) = if big { (100, 100) } else { (rng.range(1, 5) as u64, rng.range(1, 5) as u64) };
			(json!([l, r]), l + r + 1)
		}
		_ => {
			let n = crate::num::pick_len(rng, subject, big);
			(json!([n]), n)
		}
	}
}

fn special_value(rng: &mut Rng, positive: bool) -> f64 {
	let v: f64 = *rng.pick(&[0.0, 1.0, -1.0, 0.1, -0.37, 549_755_813_888.0, -549_755_813_888.0, 1.9073486328125e-6, 123.456, -98765.4321]);
	if positive { if v == 0.0 { 1.0 } else { v.abs() } } else { v }
}

/// `yv prefix-record <seed> <rounds> <steps> <out.ndjson>`
pub fn record(args: &[String]) {
	let seed: u64 = arg(args, 0, "seed");
	let rounds: u64 = arg(args, 1, "rounds");
	let steps: u64 = arg(args, 2, "steps");
	let mut tw = TraceWriter::create(&args[3]);
	let mut rng = Rng::new(seed ^ 0x9e0f1);
	for r in 0..rounds {
		for (si, subject) in SUBJECTS.iter().enumerate() {
			let big = (r + si as u64) % 6 == 5;
			let (p, n) = params_for(subject, &mut rng, big);
			let kind = input_kind(subject);
			let positive = *subject == "RateOfChange" || kind == 'c';
			let mut g = Gen::new(rng.u64(), positive);
			// the first element: a special value or a random one; candles incl. high == low and zero volume
			let first = match kind {
				's' => In::S(if rng.chance(0.6) { special_value(&mut rng, positive) } else { g.scalar() }),
				'p' => In::P(if rng.chance(0.5) { special_value(&mut rng, positive) } else { g.scalar() }, (rng.unit() * 90.0).floor() + 1.0),
				_ => {
					let mut c = g.candle();
					if rng.chance(0.3) {
						c.high = c.close;
						c.low = c.close;
						c.open = c.close;
					}
					if rng.chance(0.2) {
						c.volume = 0.0;
					}
					In::C(c)
				}
			};
			let scale = match &first {
				In::S(v) => v.abs(),
				In::P(a, b) => a.abs().max(if *subject == "VWMA" { 0.0 } else { b.abs() }),
				In::C(c) => (c.high as f64).abs().max(if *subject == "ADI" { c.volume as f64 * n as f64 } else { 0.0 }),
			};
			let scale = if matches!(*subject, "Integral") { scale * n as f64 } else { scale };
			let ratio = matches!(*subject, "CCI" | "RateOfChange" | "TSI");
			// ratios are of degree 0: their scale is 1, and they are quotients of rounded quantities (x256 for the conditioning
			// of a non-degenerate window; their streams avoid exactly repeated values, i.e. degenerate denominators)
			let scale = if ratio { 256.0 } else { scale };
			let class = if EXACT.contains(subject) { "exact" } else if *subject == "StDev" { "sq" } else { "arith" };
			let k = *rng.pick(&[1u64, 2, n.saturating_sub(1).max(1), n, n + 1, 3 * n]);
			let (Ok(Ok(mut a)), Ok(Ok(mut b))) = (build(subject, &p, &first), build(subject, &p, &first)) else { continue };
			tw.ev(json!({"ev":"pre_new","subject":subject,"params":if *subject == "Conv" { json!(n) } else { p.clone() },"class":class,"n":n,"k":k,"scale":fx(scale.max(1e-300)),"first":first.fx()}));
			// (1) b is fed k copies of the first element: constant output
			let mut ok = true;
			for _ in 0..k {
				match catch(|| b.next(&first)) {
					Ok(y) => tw.ev(json!({"ev":"pre_const","y":fxs(&flat(&y))})),
					Err(e) => {
						tw.ev(json!({"ev":"pre_const","y":[{"panic": e}]}));
						ok = false;
						break;
					}
				}
			}
			if !ok {
				continue;
			}
			let mut last_scalar = match &first { In::S(v) => *v, _ => 0.0 };
			// (2) both continue with the same stream (which starts with its first element)
			// position counters of the reversal detectors wrap their numbering every PeriodType::MAX inputs: run past it
			let steps = if subject.contains("Reversal") { steps.max(600) } else { steps };
			for i in 0..steps {
				let mut x = if i == 0 { first.clone() } else { g.input(kind) };
				if ratio {
					if let In::S(v) = &mut x {
						if i > 0 && (*v - last_scalar).abs() < 1e-3 * last_scalar.abs().max(1e-6) {
							*v = last_scalar * (1.0 + 0.013 * (1.0 + rng.unit())) + 1e-6;
						}
						last_scalar = *v;
					}
				}
				if let In::P(_, v) = &mut x {
					// a zero total volume leaves VWMA undefined: not this property's subject
					if *v == 0.0 {
						*v = 1.0;
					}
				}
				let mag = match &x {
					In::S(_) if ratio => 256.0,
					In::S(v) => v.abs(),
					In::P(a, _) => a.abs(),
					In::C(c) => (c.high as f64).abs(),
				};
				let (ya, yb) = (catch(|| a.next(&x)), catch(|| b.next(&x)));
				match (ya, yb) {
					(Ok(ya), Ok(yb)) => tw.ev(json!({"ev":"pre_pair","y":fxs(&flat(&ya)),"yk":fxs(&flat(&yb)),"mag":fx(mag * if *subject == "Integral" || *subject == "ADI" { n as f64 } else { 1.0 })})),
					_ => {
						tw.ev(json!({"ev":"pre_pair","y":[{"panic": true}],"yk":[],"mag":fx(mag)}));
						break;
					}
				}
			}
		}
	}
	let n = tw.finish();
	println!("{}", json!({"kind":"summary","events":n}));
}
