//! C18: candle helpers, validate, aggregation, text forms.
use crate::methods::*;
use crate::util::*;
use serde_json::{json, Value};
use std::str::FromStr;
use yata::core::{Candle, PeriodType, Sequence, Source, ValueType, OHLCV};
use yata::helpers::MA;

fn code_val(c: i64) -> ValueType {
	match c {
		9000 => ValueType::NAN,
		7000 => ValueType::MAX * 0.7,
		-7000 => -ValueType::MAX * 0.7,
		8000 => ValueType::INFINITY,
		-8000 => ValueType::NEG_INFINITY,
		v => v as ValueType,
	}
}
const VSEQ: [i64; 8] = [9000, -8000, -1, 0, 1, 2, 3, 8000];

fn cjson(c: &Value) -> Candle {
	let g = |k: &str| code_val(c[k].as_i64().unwrap()) as f64;
	candle(g("o"), g("h"), g("l"), g("c"), g("v"))
}

fn ma_name(m: &MA) -> (String, u64) {
	let s = format!("{m:?}"); // e.g. "SMA(5)"
	let (k, rest) = s.split_once('(').unwrap();
	(k.to_string(), rest.trim_end_matches(')').parse().unwrap())
}

/// `yv candle-replay <rows.ndjson>`
pub fn replay(args: &[String]) {
	let rows = read_lines(&args[0]);
	let mut out = Sink::new();
	for r in &rows {
		if let Some(xs) = r.get("xs").and_then(Value::as_array) {
			// Sequence<ValueType>::validate on every prefix of the triple and of its reverse, as slice and as Vec
			let v: Vec<ValueType> = xs.iter().map(|c| code_val(c.as_i64().unwrap())).collect();
			let w: Vec<ValueType> = v.iter().rev().copied().collect();
			for (vals, exp) in [(&v, &r["valid"]), (&w, &r["valid_rev"])] {
				for n in 1..=3usize {
					let e = exp[n - 1].as_i64().unwrap() == 1;
					let (sl, vc): (&[ValueType], Vec<ValueType>) = (&vals[..n], vals[..n].to_vec());
					let got = (catch(|| Sequence::<ValueType>::validate(&sl)), catch(|| Sequence::<ValueType>::validate(&vc)));
					out.checked += 1;
					if got != (Ok(e), Ok(e)) {
						out.mismatch("Sequence:validate:value", json!({"values": format!("{:?}", &vals[..n]), "expected": e, "actual": format!("{got:?}")}));
					}
				}
			}
			continue;
		}
		if let Some(valid) = r.get("valid") {
			// validate grid: (open, high, low) fixed, all (close, volume)
			let (o, h, l) = (r["o"].as_i64().unwrap(), r["h"].as_i64().unwrap(), r["l"].as_i64().unwrap());
			for (i, &c) in VSEQ.iter().enumerate() {
				for (j, &v) in VSEQ.iter().enumerate() {
					let exp = valid[i][j].as_i64().unwrap() == 1;
					let (fo, fh, fl, fc, fv) = (code_val(o), code_val(h), code_val(l), code_val(c), code_val(v));
					// -0.0 stands with 0 in the grid: check both signs of zero
					for z in [0.0 as ValueType, -0.0] {
						let zz = |x: ValueType| if x == 0.0 { z } else { x };
						let cd = Candle { open: zz(fo), high: zz(fh), low: zz(fl), close: zz(fc), volume: zz(fv) };
						let t = (cd.open, cd.high, cd.low, cd.close, cd.volume);
						let a = [cd.open, cd.high, cd.low, cd.close, cd.volume];
						let got = (catch(|| cd.validate()), catch(|| t.validate()), catch(|| OHLCV::validate(&a)), catch(|| Sequence::validate(&[cd])));
						out.checked += 4;
						if got.0 != Ok(exp) || got.1 != Ok(exp) || got.2 != Ok(exp) || got.3 != Ok(exp) {
							out.mismatch("Candle:validate:value", json!({"candle": [o, h, l, c, v], "expected": exp, "actual": format!("{got:?}")}));
						}
					}
				}
			}
		} else if r.get("tr").is_some() {
			let (h, l, pc) = (r["h"].as_i64().unwrap() as f64, r["l"].as_i64().unwrap() as f64, r["pc"].as_i64().unwrap() as f64);
			let c = candle(l.min(h), h, l, l, 1.0);
			let prev = candle(pc, pc, pc, pc, 1.0);
			let exp = r["tr"].as_i64().unwrap() as f64;
			out.cmp("Candle:tr_close:value", || json!({"h": h, "l": l, "pc": pc}), &json!(exp), &json!(c.tr_close(pc as ValueType) as f64));
			out.cmp("Candle:tr:value", || json!({"h": h, "l": l, "pc": pc}), &json!(exp), &json!(c.tr(&prev) as f64));
		} else if r.get("sum").is_some() {
			let (a, b, c) = (cjson(&r["a"]), cjson(&r["b"]), cjson(&r["c"]));
			let e = cjson(&r["sum"]);
			let s1 = (a + b) + c;
			let s2 = a + (b + c);
			// adding a 5-tuple / array on the right-hand side is the same aggregation
			let s3 = (a + (b.open, b.high, b.low, b.close, b.volume)) + [c.open, c.high, c.low, c.close, c.volume];
			out.checked += 3;
			let same = |x: &Candle| {
				let eq = |p: ValueType, q: ValueType| p == q || (p.is_nan() && q.is_nan());
				eq(x.open, e.open) && eq(x.high, e.high) && eq(x.low, e.low) && eq(x.close, e.close) && eq(x.volume, e.volume)
			};
			if !same(&s1) || !same(&s2) || !same(&s3) {
				out.mismatch("Candle:add:value", json!({"a": r["a"], "b": r["b"], "c": r["c"], "expected": r["sum"], "actual": format!("{s1:?} {s2:?} {s3:?}")}));
			}
		} else if let Some(text) = r.get("text") {
			let s: String = text.as_array().unwrap().iter().map(|c| c.as_str().unwrap()).collect();
			// MA::from_str
			let exp = &r["ma"];
			let got = catch(|| MA::from_str(&s));
			out.checked += 1;
			let ok = match (&got, exp["ok"].as_bool().unwrap()) {
				(Ok(Ok(m)), true) => {
					let (k, n) = ma_name(m);
					k == exp["kind"].as_str().unwrap() && n == exp["len"].as_u64().unwrap()
				}
				(Ok(Err(_)), false) => true,
				_ => false,
			};
			if !ok {
				let cls = if got.is_err() { "panic" } else { "value" };
				out.mismatch(&format!("MA:from_str:{cls}"), json!({"text": s, "expected": exp, "actual": format!("{got:?}")}));
			}
			// the same text through TryFrom<&str> / String of Source and Source::from_str
			let exp = &r["src"];
			let got = catch(|| Source::from_str(&s));
			let got2 = catch(|| <Source as std::convert::TryFrom<&str>>::try_from(s.as_str()));
			let got3 = catch(|| <Source as std::convert::TryFrom<String>>::try_from(s.clone()));
			out.checked += 1;
			let name = |g: &Result<Result<Source, yata::core::Error>, String>| match g {
				Ok(Ok(x)) => format!("{x:?}"),
				Ok(Err(_)) => "err".to_string(),
				Err(_) => "panic".to_string(),
			};
			let e = if exp["ok"].as_bool().unwrap() { exp["kind"].as_str().unwrap().to_string() } else { "err".to_string() };
			if name(&got) != e || name(&got2) != e || name(&got3) != e {
				let cls = if got.is_err() { "panic" } else { "value" };
				out.mismatch(&format!("Source:from_str:{cls}"), json!({"text": s, "expected": e, "actual": [name(&got), name(&got2), name(&got3)]}));
			}
		}
	}
	// canonical text forms parse back to the same value: every source, every MA kind and length
	for src in [Source::Close, Source::Open, Source::High, Source::Low, Source::HL2, Source::TP, Source::Volume, Source::VolumedPrice] {
		let s: &'static str = src.into();
		let s2: String = src.into();
		out.checked += 1;
		if Source::from_str(s).ok() != Some(src) || s2 != s {
			out.mismatch("Source:to_str:roundtrip", json!({"source": format!("{src:?}"), "text": s}));
		}
	}
	for n in 0..=PeriodType::MAX {
		for m in [MA::SMA(n), MA::WMA(n), MA::HMA(n), MA::RMA(n), MA::EMA(n), MA::DMA(n), MA::DEMA(n), MA::TMA(n), MA::TEMA(n), MA::WSMA(n),
			MA::SMM(n), MA::SWMA(n), MA::TRIMA(n), MA::LinReg(n), MA::Vidya(n)]
		{
			let (k, _) = ma_name(&m);
			let text = format!("{}-{}", k.to_lowercase(), n);
			out.checked += 1;
			if MA::from_str(&text).ok() != Some(m) {
				out.mismatch("MA:to_str:roundtrip", json!({"ma": format!("{m:?}"), "text": text}));
			}
		}
	}
	out.summary(json!({"rows": rows.len()}));
}

/// `yv candle-record <seed> <count> <out.ndjson>` — numeric helper identities on arbitrary finite candles
pub fn record(args: &[String]) {
	let seed: u64 = arg(args, 0, "seed");
	let count: u64 = arg(args, 1, "count");
	let mut tw = TraceWriter::create(&args[2]);
	let mut g = Gen::new(seed, true);
	let mut prev = g.candle();
	for i in 0..count {
		let mut c = g.candle();
		if i % 9 == 4 {
			c.high = c.low; // zero range
			c.open = c.low;
			c.close = c.low;
		}
		if i % 11 == 5 {
			// an unordered / gapping candle: helpers are plain formulas, they do not need a valid candle
			std::mem::swap(&mut c.open, &mut c.close);
			c.close *= 1.5;
		}
		let pc = if i % 5 == 0 { prev.close * 1.4 } else if i % 5 == 1 { prev.close * 0.6 } else { prev.close };
		// Correct floating-point code is exactly invariant under scaling of the prices by a power of two: every third candle is
		// evaluated on prices scaled by 2^e (penny-stock / huge-index magnitudes) and the results are logged unscaled, so an
		// absolute constant hidden in a helper shows up although the trace itself stays inside the input band
		let e: i32 = if cfg!(feature = "value_type_f32") { 0 } else { [0, -60, 0, 0, 70, 0][(i % 6) as usize] };
		let k = (2.0 as ValueType).powi(e);
		let ik = (2.0 as ValueType).powi(-e);
		let cs = Candle { open: c.open * k, high: c.high * k, low: c.low * k, close: c.close * k, volume: c.volume };
		let pcs = pc * k;
		let f = |x: ValueType| fx(x as f64);
		let g = |x: ValueType| fx((x * ik) as f64);
		tw.ev(json!({"ev":"candle","c":candle_fx(&c),"pc":f(pc),"tp":g(cs.tp()),"hl2":g(cs.hl2()),"ohlc4":g(cs.ohlc4()),"vp":g(cs.volumed_price()),
			"clv":f(cs.clv()),"tr":g(cs.tr_close(pcs)),"is_rising":cs.is_rising(),"is_falling":cs.is_falling(),"scale_exp":e,
			"src":{"close":g(cs.source(Source::Close)),"open":g(cs.source(Source::Open)),"high":g(cs.source(Source::High)),"low":g(cs.source(Source::Low)),
				"volume":f(cs.source(Source::Volume)),"tp":g(cs.source(Source::TP)),"hl2":g(cs.source(Source::HL2)),"volumed_price":g(cs.source(Source::VolumedPrice))}}));
		let s = prev + c;
		tw.ev(json!({"ev":"add","a":candle_fx(&prev),"b":candle_fx(&c),"sum":candle_fx(&s)}));
		prev = c;
	}
	let n = tw.finish();
	println!("{}", json!({"kind":"summary","events":n}));
}
