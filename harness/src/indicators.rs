//! Registry of all indicators behind one dynamic interface: configs (default, set, serde), static and dyn init,
//! instances (next, over, clone, snapshot/restore, into_fn).
use crate::methods::{candle_fx, Gen};
use crate::util::*;
use serde_json::{json, Value};
use yata::core::{Candle, Error, IndicatorConfig, IndicatorConfigDyn, IndicatorInstance, IndicatorInstanceDyn, IndicatorResult};
use yata::indicators::*;

pub trait CfgI {
	fn name(&self) -> &'static str;
	fn size(&self) -> (u8, u8);
	fn validate(&self) -> bool;
	fn set(&mut self, k: &str, v: String) -> Result<(), Error>;
	fn to_json(&self) -> Value;
	fn boxed(&self) -> Box<dyn CfgI>;
	fn init(&self, c: &Candle) -> Result<Box<dyn InstI>, Error>;
	fn init_fn_run(&self, cs: &[Candle]) -> Result<Vec<IndicatorResult>, Error>;
	fn over(&self, cs: &[Candle]) -> Result<Vec<IndicatorResult>, Error>;
	fn dyn_cfg(&self) -> Box<dyn IndicatorConfigDyn<Candle>>;
	fn restore_instance(&self, text: &str) -> Result<Box<dyn InstI>, String>;
	fn from_json(&self, v: &Value) -> Result<Box<dyn CfgI>, String>;
}

pub trait InstI {
	fn next(&mut self, c: &Candle) -> IndicatorResult;
	fn over(&mut self, cs: &[Candle]) -> Vec<IndicatorResult>;
	fn size(&self) -> (u8, u8);
	fn name(&self) -> &'static str;
	fn boxed_clone(&self) -> Box<dyn InstI>;
	fn snapshot(&self) -> String;
	fn cfg_json(&self) -> Value;
}

macro_rules! ind {
	($cfg:ty, $inst:ty) => {
		impl CfgI for $cfg {
			fn name(&self) -> &'static str {
				IndicatorConfig::name(self)
			}
			fn size(&self) -> (u8, u8) {
				IndicatorConfig::size(self)
			}
			fn validate(&self) -> bool {
				IndicatorConfig::validate(self)
			}
			fn set(&mut self, k: &str, v: String) -> Result<(), Error> {
				IndicatorConfig::set(self, k, v)
			}
			fn to_json(&self) -> Value {
				serde_json::to_value(self).unwrap()
			}
			fn boxed(&self) -> Box<dyn CfgI> {
				Box::new(self.clone())
			}
			fn init(&self, c: &Candle) -> Result<Box<dyn InstI>, Error> {
				Ok(Box::new(IndicatorConfig::init(self.clone(), c)?))
			}
			fn init_fn_run(&self, cs: &[Candle]) -> Result<Vec<IndicatorResult>, Error> {
				let mut f = IndicatorConfig::init_fn(self.clone(), &cs[0])?;
				Ok(cs.iter().map(|c| f(c)).collect())
			}
			fn over(&self, cs: &[Candle]) -> Result<Vec<IndicatorResult>, Error> {
				IndicatorConfig::over(self.clone(), cs)
			}
			fn dyn_cfg(&self) -> Box<dyn IndicatorConfigDyn<Candle>> {
				Box::new(self.clone())
			}
			fn restore_instance(&self, text: &str) -> Result<Box<dyn InstI>, String> {
				Ok(Box::new(serde_json::from_str::<$inst>(text).map_err(|e| e.to_string())?))
			}
			fn from_json(&self, v: &Value) -> Result<Box<dyn CfgI>, String> {
				Ok(Box::new(serde_json::from_value::<$cfg>(v.clone()).map_err(|e| e.to_string())?))
			}
		}
		impl InstI for $inst {
			fn next(&mut self, c: &Candle) -> IndicatorResult {
				IndicatorInstance::next(self, c)
			}
			fn over(&mut self, cs: &[Candle]) -> Vec<IndicatorResult> {
				IndicatorInstance::over(self, cs)
			}
			fn size(&self) -> (u8, u8) {
				IndicatorInstance::size(self)
			}
			fn name(&self) -> &'static str {
				IndicatorInstance::name(self)
			}
			fn boxed_clone(&self) -> Box<dyn InstI> {
				Box::new(self.clone())
			}
			fn snapshot(&self) -> String {
				serde_json::to_string(self).unwrap()
			}
			fn cfg_json(&self) -> Value {
				serde_json::to_value(IndicatorInstance::config(self)).unwrap()
			}
		}
	};
}

ind!(Aroon, AroonInstance);
ind!(AverageDirectionalIndex, AverageDirectionalIndexInstance);
ind!(AwesomeOscillator, AwesomeOscillatorInstance);
ind!(BollingerBands, BollingerBandsInstance);
ind!(ChaikinMoneyFlow, ChaikinMoneyFlowInstance);
ind!(ChaikinOscillator, ChaikinOscillatorInstance);
ind!(ChandeKrollStop, ChandeKrollStopInstance);
ind!(ChandeMomentumOscillator, ChandeMomentumOscillatorInstance);
ind!(CommodityChannelIndex, CommodityChannelIndexInstance);
ind!(CoppockCurve, CoppockCurveInstance);
ind!(DetrendedPriceOscillator, DetrendedPriceOscillatorInstance);
ind!(DonchianChannel, DonchianChannelInstance);
ind!(EaseOfMovement, EaseOfMovementInstance);
ind!(EldersForceIndex, EldersForceIndexInstance);
ind!(Envelopes, EnvelopesInstance);
ind!(FisherTransform, FisherTransformInstance);
ind!(HullMovingAverage, HullMovingAverageInstance);
ind!(IchimokuCloud, IchimokuCloudInstance);
ind!(Kaufman, KaufmanInstance);
ind!(KeltnerChannel, KeltnerChannelInstance);
ind!(KlingerVolumeOscillator, KlingerVolumeOscillatorInstance);
ind!(KnowSureThing, KnowSureThingInstance);
ind!(MACD, MACDInstance<yata::helpers::MA>);
ind!(MomentumIndex, MomentumIndexInstance);
ind!(MoneyFlowIndex, MoneyFlowIndexInstance);
ind!(ParabolicSAR, ParabolicSARInstance);
ind!(PivotReversalStrategy, PivotReversalStrategyInstance);
ind!(PriceChannelStrategy, PriceChannelStrategyInstance);
ind!(RelativeStrengthIndex, RelativeStrengthIndexInstance);
ind!(RelativeVigorIndex, RelativeVigorIndexInstance);
ind!(SMIErgodicIndicator, SMIErgodicIndicatorInstance);
ind!(StochasticOscillator, StochasticOscillatorInstance);
ind!(Trix, TRIXInstance);
ind!(TrendStrengthIndex, TrendStrengthIndexInstance);
ind!(TrueStrengthIndex, TrueStrengthIndexInstance);
ind!(WoodiesCCI, WoodiesCCIInstance);

pub const NAMES: &[&str] = &[
	"Aroon", "AverageDirectionalIndex", "AwesomeOscillator", "BollingerBands", "ChaikinMoneyFlow", "ChaikinOscillator", "ChandeKrollStop",
	"ChandeMomentumOscillator", "CommodityChannelIndex", "CoppockCurve", "DetrendedPriceOscillator", "DonchianChannel", "EaseOfMovement",
	"EldersForceIndex", "Envelopes", "FisherTransform", "HullMovingAverage", "IchimokuCloud", "Kaufman", "KeltnerChannel",
	"KlingerVolumeOscillator", "KnowSureThing", "MACD", "MomentumIndex", "MoneyFlowIndex", "ParabolicSAR", "PivotReversalStrategy",
	"PriceChannelStrategy", "RelativeStrengthIndex", "RelativeVigorIndex", "SMIErgodicIndicator", "StochasticOscillator", "Trix",
	"TrendStrengthIndex", "TrueStrengthIndex", "WoodiesCCI",
];

pub fn default_cfg(name: &str) -> Box<dyn CfgI> {
	match name {
		"Aroon" => Box::new(Aroon::default()),
		"AverageDirectionalIndex" => Box::new(AverageDirectionalIndex::default()),
		"AwesomeOscillator" => Box::new(AwesomeOscillator::default()),
		"BollingerBands" => Box::new(BollingerBands::default()),
		"ChaikinMoneyFlow" => Box::new(ChaikinMoneyFlow::default()),
		"ChaikinOscillator" => Box::new(ChaikinOscillator::default()),
		"ChandeKrollStop" => Box::new(ChandeKrollStop::default()),
		"ChandeMomentumOscillator" => Box::new(ChandeMomentumOscillator::default()),
		"CommodityChannelIndex" => Box::new(CommodityChannelIndex::default()),
		"CoppockCurve" => Box::new(CoppockCurve::default()),
		"DetrendedPriceOscillator" => Box::new(DetrendedPriceOscillator::default()),
		"DonchianChannel" => Box::new(DonchianChannel::default()),
		"EaseOfMovement" => Box::new(EaseOfMovement::default()),
		"EldersForceIndex" => Box::new(EldersForceIndex::default()),
		"Envelopes" => Box::new(Envelopes::default()),
		"FisherTransform" => Box::new(FisherTransform::default()),
		"HullMovingAverage" => Box::new(HullMovingAverage::default()),
		"IchimokuCloud" => Box::new(IchimokuCloud::default()),
		"Kaufman" => Box::new(Kaufman::default()),
		"KeltnerChannel" => Box::new(KeltnerChannel::default()),
		"KlingerVolumeOscillator" => Box::new(KlingerVolumeOscillator::default()),
		"KnowSureThing" => Box::new(KnowSureThing::default()),
		"MACD" => Box::new(MACD::default()),
		"MomentumIndex" => Box::new(MomentumIndex::default()),
		"MoneyFlowIndex" => Box::new(MoneyFlowIndex::default()),
		"ParabolicSAR" => Box::new(ParabolicSAR::default()),
		"PivotReversalStrategy" => Box::new(PivotReversalStrategy::default()),
		"PriceChannelStrategy" => Box::new(PriceChannelStrategy::default()),
		"RelativeStrengthIndex" => Box::new(RelativeStrengthIndex::default()),
		"RelativeVigorIndex" => Box::new(RelativeVigorIndex::default()),
		"SMIErgodicIndicator" => Box::new(SMIErgodicIndicator::default()),
		"StochasticOscillator" => Box::new(StochasticOscillator::default()),
		"Trix" => Box::new(Trix::default()),
		"TrendStrengthIndex" => Box::new(TrendStrengthIndex::default()),
		"TrueStrengthIndex" => Box::new(TrueStrengthIndex::default()),
		"WoodiesCCI" => Box::new(WoodiesCCI::default()),
		other => panic!("unknown indicator {other}"),
	}
}

const MA_KINDS: &[&str] = &["sma", "wma", "hma", "rma", "ema", "dma", "dema", "tma", "tema", "wsma", "smm", "swma", "trima", "linreg", "vidya"];
const SOURCES: &[&str] = &["close", "open", "high", "low", "hl2", "tp", "volume", "volumed_price"];

/// A random valid configuration reached from the default one through `set` (the public way to configure by text).
/// `kinds`: restrict MA kinds (None = any); `smm`: allow the median kind.
pub fn random_cfg(name: &str, rng: &mut Rng, vary: bool) -> Box<dyn CfgI> {
	let base = default_cfg(name);
	if !vary {
		return base;
	}
	for _attempt in 0..60 {
		let mut c = base.boxed();
		let j = base.to_json();
		let obj = j.as_object().unwrap();
		for (k, v) in obj {
			if rng.chance(0.35) {
				continue;
			}
			let text = if v.is_object() {
				// an MA constructor: {"ema": 12}
				let n = v.as_object().unwrap().values().next().unwrap().as_u64().unwrap();
				let kind = rng.pick(MA_KINDS);
				let nn = match rng.below(5) {
					0 => n,
					1 => (n / 2).max(2),
					2 => n + rng.below(6),
					3 => rng.range(2, 9) as u64,
					_ => rng.range(2, 40) as u64,
				};
				format!("{kind}-{nn}")
			} else if v.is_string() {
				rng.pick(SOURCES).to_string()
			} else if v.is_u64() {
				let n = v.as_u64().unwrap();
				match rng.below(5) {
					0 => n.to_string(),
					1 => (n / 2).max(1).to_string(),
					2 => (n + rng.below(5)).to_string(),
					3 => rng.range(1, 6).to_string(),
					_ => rng.range(2, 30).to_string(),
				}
			} else if v.is_f64() {
				let x = v.as_f64().unwrap();
				format!("{}", x * (0.5 + rng.unit()))
			} else if v.is_boolean() {
				format!("{}", rng.chance(0.5))
			} else {
				continue;
			};
			let _ = c.set(k, text);
		}
		if c.validate() {
			return c;
		}
	}
	base
}

/// config JSON for the trace specs, sorted by type (TLA+ cannot test the type of a value):
/// {"i": integers, "f": floats as fixed point, "m": MA constructors as {"ma": kind, "n": length}, "s": strings, "b": booleans}
pub fn cfg_for_trace(j: &Value) -> Value {
	let mut i = serde_json::Map::new();
	let mut f = serde_json::Map::new();
	let mut m = serde_json::Map::new();
	let mut s = serde_json::Map::new();
	let mut b = serde_json::Map::new();
	for (k, v) in j.as_object().unwrap() {
		match v {
			Value::Object(o) => {
				let (kind, n) = o.iter().next().unwrap();
				m.insert(k.clone(), json!({"ma": if kind == "lin_reg" { "linreg" } else { kind.as_str() }, "n": n}));
			}
			Value::Number(n) if n.is_f64() => {
				f.insert(k.clone(), fx(n.as_f64().unwrap()));
			}
			Value::Number(n) => {
				i.insert(k.clone(), json!(n));
			}
			Value::String(t) => {
				s.insert(k.clone(), json!(t));
			}
			Value::Bool(t) => {
				b.insert(k.clone(), json!(t));
			}
			_ => {}
		}
	}
	json!({"i": i, "f": f, "m": m, "s": s, "b": b})
}

/// exact ordering key of a finite float: [sign, high 31 bits, middle 16 bits, low 16 bits] of its magnitude bits;
/// magnitudes compare lexicographically (TLC's integers are 32-bit, Fx resolves only 10^-24)
pub fn fkey(x: f64) -> Value {
	let b = x.abs().to_bits();
	let s = if x == 0.0 { 0 } else if x < 0.0 { -1 } else { 1 };
	json!([s, (b >> 32) as u32, ((b >> 16) & 0xffff) as u32, (b & 0xffff) as u32])
}

/// sum of the integer parameters (period-like) of a config: the `k` of the rounding allowance
pub fn cfg_k(j: &Value) -> u64 {
	match j {
		Value::Object(o) => o.values().map(cfg_k).sum(),
		Value::Number(n) if n.is_u64() => n.as_u64().unwrap(),
		_ => 0,
	}
}

pub fn result_json(r: &IndicatorResult) -> Value {
	json!({"v": r.values().iter().map(|x| fx(*x as f64)).collect::<Vec<_>>(),
		"o": r.values().iter().map(|x| fkey(*x as f64)).collect::<Vec<_>>(),
		"s": r.signals().iter().map(|a| crate::action::code(*a)).collect::<Vec<_>>()})
}
pub fn result_bits(r: &IndicatorResult) -> Value {
	json!({"v": r.values().iter().map(|x| bits(*x as f64)).collect::<Vec<_>>(),
		"s": r.signals().iter().map(|a| crate::action::code(*a)).collect::<Vec<_>>(), "size": [r.size().0, r.size().1]})
}

/// `yv ind-record <seed> <programs> <steps> <vary 0|1> <out.ndjson> [name]`
pub fn record(args: &[String]) {
	let seed: u64 = arg(args, 0, "seed");
	let programs: u64 = arg(args, 1, "programs");
	let steps: u64 = arg(args, 2, "steps");
	let vary: u64 = arg(args, 3, "vary");
	let mut tw = TraceWriter::create(&args[4]);
	let only = args.get(5).map(String::as_str);
	let mut rng = Rng::new(seed ^ 0x1d1c);
	for k in 0..programs {
		let name = only.unwrap_or(NAMES[((k + seed) % NAMES.len() as u64) as usize]);
		let cfg = random_cfg(name, &mut rng, vary == 1 && k % 3 != 0);
		let mut g = Gen::new(rng.u64(), true);
		let first = g.candle();
		let inst = catch(|| cfg.init(&first));
		let res = match &inst {
			Ok(Ok(_)) => "ok",
			Ok(Err(_)) => "err",
			Err(_) => "panic",
		};
		tw.ev(json!({"ev":"ind_new","name":name,"cfg":cfg_for_trace(&cfg.to_json()),"raw_cfg":cfg.to_json().to_string(),"c":candle_fx(&first),
			"size":[cfg.size().0, cfg.size().1],"valid":cfg.validate(),"res":res,"k":cfg_k(&cfg.to_json()).max(4)}));
		let cfgsize = json!([cfg.size().0, cfg.size().1]);
		let Ok(Ok(mut inst)) = inst else { continue };
		for i in 0..steps {
			let c = if i == 0 { first } else { g.candle() };
			match catch(|| inst.next(&c)) {
				Ok(r) => tw.ev(json!({"ev":"ind_next","c":candle_fx(&c),"v":result_json(&r)["v"],"o":result_json(&r)["o"],"s":result_json(&r)["s"],"size":[r.size().0, r.size().1],"cfgsize":cfgsize})),
				Err(e) => {
					tw.ev(json!({"ev":"ind_next","c":candle_fx(&c),"v":[],"o":[],"s":[],"size":[0,0],"cfgsize":cfgsize,"panic":e}));
					break;
				}
			}
		}
	}
	let n = tw.finish();
	println!("{}", json!({"kind":"summary","events":n}));
}
