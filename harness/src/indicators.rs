//! Registry of all indicators behind one dynamic interface: configs (default, set, serde), static and dyn init,
//! instances (next, over, clone, snapshot/restore, into_fn).
use crate::methods::{candle_fx, Gen};
use crate::util::*;
use serde_json::{json, Value};
use yata::core::{Candle, Error, IndicatorConfig, IndicatorConfigDyn, IndicatorInstance, IndicatorInstanceDyn, IndicatorResult};
use yata::indicators::*;

pub trait CfgI {
	fn name(&self) -> &'static str;
	fn size(&self) -> (u8, u8);
	fn validate(&self) -> bool;
	fn set(&mut self, k: &str, v: String) -> Result<(), Error>;
	fn to_json(&self) -> Value;
	fn boxed(&self) -> Box<dyn CfgI>;
	fn init(&self, c: &Candle) -> Result<Box<dyn InstI>, Error>;
	fn init_fn_run(&self, cs: &[Candle]) -> Result<Vec<IndicatorResult>, Error>;
	fn over(&self, cs: &[Candle]) -> Result<Vec<IndicatorResult>, Error>;
	fn dyn_cfg(&self) -> Box<dyn IndicatorConfigDyn<Candle>>;
	fn restore_instance(&self, text: &str) -> Result<Box<dyn InstI>, String>;
	fn from_json(&self, v: &Value) -> Result<Box<dyn CfgI>, String>;
}

pub trait InstI {
	fn next(&mut self, c: &Candle) -> IndicatorResult;
	fn over(&mut self, cs: &[Candle]) -> Vec<IndicatorResult>;
	fn size(&self) -> (u8, u8);
	fn name(&self) -> &'static str;
	fn boxed_clone(&self) -> Box<dyn InstI>;
	fn snapshot(&self) -> String;
	fn cfg_json(&self) -> Value;
}

macro_rules! ind {
	($cfg:ty, $inst:ty) => {
		impl CfgI for $cfg {
			fn name(&self) -> &'static str {
				IndicatorConfig::name(self)
			}
			fn size(&self) -> (u8, u8) {
				IndicatorConfig::size(self)
			}
			fn validate(&self) -> bool {
				IndicatorConfig::validate(self)
			}
			fn set(&mut self, k: &str, v: String) -> Result<(), Error> {
				IndicatorConfig::set(self, k, v)
			}
			fn to_json(&self) -> Value {
				serde_json::to_value(self).unwrap()
			}
			fn boxed(&self) -> Box<dyn CfgI> {
				Box::new(self.clone())
			}
			fn init(&self, c: &Candle) -> Result<Box<dyn InstI>, Error> {
				Ok(Box::new(IndicatorConfig::init(self.clone(), c)?))
			}
			fn init_fn_run(&self, cs: &[Candle]) -> Result<Vec<IndicatorResult>, Error> {
				let mut f = IndicatorConfig::init_fn(self.clone(), &cs[0])?;
				Ok(cs.iter().map(|c| f(c)).collect())
			}
			fn over(&self, cs: &[Candle]) -> Result<Vec<IndicatorResult>, Error> {
				IndicatorConfig::over(self.clone(), cs)
			}
			fn dyn_cfg(&self) -> Box<dyn IndicatorConfigDyn<Candle>> {
				Box::new(self.clone())
			}
			fn restore_instance(&self, text: &str) -> Result<Box<dyn InstI>, String> {
				Ok(Box::new(serde_json::from_str::<$inst>(text).map_err(|e| e.to_string())?))
			}
			fn from_json(&self, v: &Value) -> Result<Box<dyn CfgI>, String> {
				Ok(Box::new(serde_json::from_value::<$cfg>(v.clone()).map_err(|e| e.to_string())?))
			}
		}
		impl InstI for $inst {
			fn next(&mut self, c: &Candle) -> IndicatorResult {
				IndicatorInstance::next(self, c)
			}
			fn over(&mut self, cs: &[Candle]) -> Vec<IndicatorResult> {
				IndicatorInstance::over(self, cs)
			}
			fn size(&self) -> (u8, u8) {
				IndicatorInstance::size(self)
			}
			fn name(&self) -> &'static str {
				IndicatorInstance::name(self)
			}
			fn boxed_clone(&self) -> Box<dyn InstI> {
				Box::new(self.clone())
			}
			fn snapshot(&self) -> String {
				serde_json::to_string(self).unwrap()
			}
			fn cfg_json(&self) -> Value {
				serde_json::to_value(IndicatorInstance::config(self)).unwrap()
			}
		}
	};
}

ind!(Aroon, AroonInstance);
ind!(AverageDirectionalIndex, AverageDirectionalIndexInstance);
ind!(AwesomeOscillator, AwesomeOscillatorInstance);
ind!(BollingerBands, BollingerBandsInstance);
ind!(ChaikinMoneyFlow, ChaikinMoneyFlowInstance);
ind!(ChaikinOscillator, ChaikinOscillatorInstance);
ind!(ChandeKrollStop, ChandeKrollStopInstance);
ind!(ChandeMomentumOscillator, ChandeMomentumOscillatorInstance);
ind!(CommodityChannelIndex, CommodityChannelIndexInstance);
ind!(CoppockCurve, CoppockCurveInstance);
ind!(DetrendedPriceOscillator, DetrendedPriceOscillatorInstance);
ind!(DonchianChannel, DonchianChannelInstance);
ind!(EaseOfMovement, EaseOfMovementInstance);
ind!(EldersForceIndex, EldersForceIndexInstance);
ind!(Envelopes, EnvelopesInstance);
ind!(FisherTransform, FisherTransformInstance);
ind!(HullMovingAverage, HullMovingAverageInstance);
ind!(IchimokuCloud, IchimokuCloudInstance);
ind!(Kaufman, KaufmanInstance);
ind!(KeltnerChannel, KeltnerChannelInstance);
ind!(KlingerVolumeOscillator, KlingerVolumeOscillatorInstance);
ind!(KnowSureThing, KnowSureThingInstance);
ind!(MACD, MACDInstance<yata::helpers::MA>);
ind!(MomentumIndex, MomentumIndexInstance);
ind!(MoneyFlowIndex, MoneyFlowIndexInstance);
ind!(ParabolicSAR, ParabolicSARInstance);
ind!(PivotReversalStrategy, PivotReversalStrategyInstance);
ind!(PriceChannelStrategy, PriceChannelStrategyInstance);
ind!(RelativeStrengthIndex, RelativeStrengthIndexInstance);
ind!(RelativeVigorIndex, RelativeVigorIndexInstance);
ind!(SMIErgodicIndicator, SMIErgodicIndicatorInstance);
ind!(StochasticOscillator, StochasticOscillatorInstance);
ind!(Trix, TRIXInstance);
ind!(TrendStrengthIndex, TrendStrengthIndexInstance);
ind!(TrueStrengthIndex, TrueStrengthIndexInstance);
ind!(WoodiesCCI, WoodiesCCIInstance);

pub const NAMES: &[&str] = &[
	"Aroon", "AverageDirectionalIndex", "AwesomeOscillator", "BollingerBands", "ChaikinMoneyFlow", "ChaikinOscillator", "ChandeKrollStop",
	"ChandeMomentumOscillator", "CommodityChannelIndex", "CoppockCurve", "DetrendedPriceOscillator", "DonchianChannel", "EaseOfMovement",
	"EldersForceIndex", "Envelopes", "FisherTransform", "HullMovingAverage", "IchimokuCloud", "Kaufman", "KeltnerChannel",
	"KlingerVolumeOscillator", "KnowSureThing", "MACD", "MomentumIndex", "MoneyFlowIndex", "ParabolicSAR", "PivotReversalStrategy",
	"PriceChannelStrategy", "RelativeStrengthIndex", "RelativeVigorIndex", "SMIErgodicIndicator", "StochasticOscillator", "Trix",
	"TrendStrengthIndex", "TrueStrengthIndex", "WoodiesCCI",
];

pub fn default_cfg(name: &str) -> Box<dyn CfgI> {
	match name {
		"Aroon" => Box::new(Aroon::default()),
		"AverageDirectionalIndex" => Box::new(AverageDirectionalIndex::default()),
		"AwesomeOscillator" => Box::new(AwesomeOscillator::default()),
		"BollingerBands" => Box::new(BollingerBands::default()),
		"ChaikinMoneyFlow" => Box::new(ChaikinMoneyFlow::default()),
		"ChaikinOscillator" => Box::new(ChaikinOscillator::default()),
		"ChandeKrollStop" => Box::new(ChandeKrollStop::default()),
		"ChandeMomentumOscillator" => Box::new(ChandeMomentumOscillator::default()),
		"CommodityChannelIndex" => Box::new(CommodityChannelIndex::default()),
		"CoppockCurve" => Box::new(CoppockCurve::default()),
		"DetrendedPriceOscillator" => Box::new(DetrendedPriceOscillator::default()),
		"DonchianChannel" => Box::new(DonchianChannel::default()),
		"EaseOfMovement" => Box::new(EaseOfMovement::default()),
		"EldersForceIndex" => Box::new(EldersForceIndex::default()),
		"Envelopes" => Box::new(Envelopes::default()),
		"FisherTransform" => Box::new(FisherTransform::default()),
		"HullMovingAverage" => Box::new(HullMovingAverage::default()),
		"IchimokuCloud" => Box::new(IchimokuCloud::default()),
		"Kaufman" => Box::new(Kaufman::default()),
		"KeltnerChannel" => Box::new(KeltnerChannel::default()),
		"KlingerVolumeOscillator" => Box::new(KlingerVolumeOscillator::default()),
		"KnowSureThing" => Box::new(KnowSureThing::default()),
		"MACD" => Box::new(MACD::default()),
		"MomentumIndex" => Box::new(MomentumIndex::default()),
		"MoneyFlowIndex" => Box::new(MoneyFlowIndex::default()),
		"ParabolicSAR" => Box::new(ParabolicSAR::default()),
		"PivotReversalStrategy" => Box::new(PivotReversalStrategy::default()),
		"PriceChannelStrategy" => Box::new(PriceChannelStrategy::default()),
		"RelativeStrengthIndex" => Box::new(RelativeStrengthIndex::default()),
		"RelativeVigorIndex" => Box::new(RelativeVigorIndex::default()),
		"SMIErgodicIndicator" => Box::new(SMIErgodicIndicator::default()),
		"StochasticOscillator" => Box::new(StochasticOscillator::default()),
		"Trix" => Box::new(Trix::default()),
		"TrendStrengthIndex" => Box::new(TrendStrengthIndex::default()),
		"TrueStrengthIndex" => Box::new(TrueStrengthIndex::default()),
		"WoodiesCCI" => Box::new(WoodiesCCI::default()),
		other => panic!("unknown indicator {other}"),
	}
}

const MA_KINDS: &[&str] = &["sma", "wma", "hma", "rma", "ema", "dma", "dema", "tma", "tema", "wsma", "smm", "swma", "trima", "linreg", "vidya"];
const SOURCES: &[&str] = &["close", "open", "high", "low", "hl2", "tp", "volume", "volumed_price"];

/// A random valid configuration reached from the default one through `set` (the public way to configure by text).
/// `kinds`: restrict MA kinds (None = any); `smm`: allow the median kind.
pub fn random_cfg(name: &str, rng: &mut Rng, vary: bool) -> Box<dyn CfgI> {
	let base = default_cfg(name);
	if !vary {
		return base;
	}
	for _attempt in 0..60 {
		let mut c = base.boxed();
		let j = base.to_json();
		let obj = j.as_object().unwrap();
		for (k, v) in obj {
			if rng.chance(0.35) {
				continue;
			}
			let text = if v.is_object() {
				// an MA constructor: {"ema": 12}
				let n = v.as_object().unwrap().values().next().unwrap().as_u64().unwrap();
				let mut kind = *rng.pick(MA_KINDS);
				// Vidya's smoothing factor is a 0/0 on a series that is exactly constant: averages of DERIVED series (signal lines
				// over oscillators that sit at an exact constant on plateaus) are fed noise there; keep vidya to the price-fed fields
				if kind == "vidya" && !matches!(k.as_str(), "ma" | "ma1" | "method1") {
					kind = "ema";
				}
				let nn = match rng.below(5) {
					0 => n,
					1 => (n / 2).max(2),
					2 => n + rng.below(6),
					3 => rng.range(2, 9) as u64,
					_ => rng.range(2, 40) as u64,
				};
				format!("{kind}-{nn}")
			} else if v.is_string() {
				rng.pick(SOURCES).to_string()
			} else if v.is_u64() {
				let n = v.as_u64().unwrap();
				// YV_CFG_WIDE: parameter orders the defaults never have (a secondary period larger than the main one, ...)
				let wide = std::env::var("YV_CFG_WIDE").is_ok();
				match rng.below(if wide { 8 } else { 5 }) {
					5 => (n * 2 + rng.below(4)).min(200).to_string(),
					6 => rng.range(20, 60).to_string(),
					7 => rng.range(1, 4).to_string(),
					0 => n.to_string(),
					1 => (n / 2).max(1).to_string(),
					2 => (n + rng.below(5)).to_string(),
					3 => rng.range(1, 6).to_string(),
					_ => rng.range(2, 30).to_string(),
				}
			} else if v.is_f64() {
				let x = v.as_f64().unwrap();
				format!("{}", x * (0.5 + rng.unit()))
			} else if v.is_boolean() {
				format!("{}", rng.chance(0.5))
			} else {
				continue;
			};
			let _ = c.set(k, text);
		}
		if c.validate() {
			return c;
		}
	}
	base
}

/// config JSON for the trace specs, sorted by type (TLA+ cannot test the type of a value):
/// {"i": integers, "f": floats as fixed point, "m": MA constructors as {"ma": kind, "n": length}, "s": strings, "b": booleans}
pub fn cfg_for_trace(j: &Value) -> Value {
	let mut i = serde_json::Map::new();
	let mut f = serde_json::Map::new();
	let mut m = serde_json::Map::new();
	let mut s = serde_json::Map::new();
	let mut b = serde_json::Map::new();
	for (k, v) in j.as_object().unwrap() {
		match v {
			Value::Object(o) => {
				let (kind, n) = o.iter().next().unwrap();
				m.insert(k.clone(), json!({"ma": if kind == "lin_reg" { "linreg" } else { kind.as_str() }, "n": n}));
			}
			Value::Number(n) if n.is_f64() => {
				f.insert(k.clone(), fx(n.as_f64().unwrap()));
			}
			Value::Number(n) => {
				i.insert(k.clone(), json!(n));
			}
			Value::String(t) => {
				s.insert(k.clone(), json!(t));
			}
			Value::Bool(t) => {
				b.insert(k.clone(), json!(t));
			}
			_ => {}
		}
	}
	json!({"i": i, "f": f, "m": m, "s": s, "b": b})
}

/// exact ordering key of a finite float: [sign, high 31 bits, middle 16 bits, low 16 bits] of its magnitude bits;
/// magnitudes compare lexicographically (TLC's integers are 32-bit, Fx resolves only 10^-24)
pub fn fkey(x: f64) -> Value {
	let b = x.abs().to_bits();
	let s = if x == 0.0 { 0 } else if x < 0.0 { -1 } else { 1 };
	json!([s, (b >> 32) as u32, ((b >> 16) & 0xffff) as u32, (b & 0xffff) as u32])
}

/// sum of the integer parameters (period-like) of a config: the `k` of the rounding allowance
pub fn cfg_k(j: &Value) -> u64 {
	match j {
		Value::Object(o) => o.values().map(cfg_k).sum(),
		Value::Number(n) if n.is_u64() => n.as_u64().unwrap(),
		_ => 0,
	}
}

pub fn result_json(r: &IndicatorResult) -> Value {
	json!({"v": r.values().iter().map(|x| fx(*x as f64)).collect::<Vec<_>>(),
		"o": r.values().iter().map(|x| fkey(*x as f64)).collect::<Vec<_>>(),
		"s": r.signals().iter().map(|a| crate::action::code(*a)).collect::<Vec<_>>()})
}
pub fn result_bits(r: &IndicatorResult) -> Value {
	json!({"v": r.values().iter().map(|x| bits(*x as f64)).collect::<Vec<_>>(),
		"s": r.signals().iter().map(|a| crate::action::code(*a)).collect::<Vec<_>>(), "size": [r.size().0, r.size().1]})
}

/// `yv ind-record <seed> <programs> <steps> <vary 0|1> <out.ndjson> [name]`
pub fn record(args: &[String]) {
	let seed: u64 = arg(args, 0, "seed");
	let programs: u64 = arg(args, 1, "programs");
	let steps: u64 = arg(args, 2, "steps");
	let vary: u64 = arg(args, 3, "vary");
	let mut tw = TraceWriter::create(&args[4]);
	let only = args.get(5).map(String::as_str);
	let mut rng = Rng::new(seed ^ 0x1d1c);
	// YV_EXCLUDE=Name,Name: indicators left out of this trace (an open known finding gets its own trace, so that it does not
	// cut short the validation of the others)
	let excluded: Vec<String> = std::env::var("YV_EXCLUDE").map(|v| v.split(',').map(str::to_string).collect()).unwrap_or_default();
	for k in 0..programs {
		let name = only.unwrap_or(NAMES[((k + seed) % NAMES.len() as u64) as usize]);
		if excluded.iter().any(|x| x == name) {
			continue;
		}
		let mut cfg = random_cfg(name, &mut rng, vary == 1 && k % 3 != 0);
		// YV_WITNESS_SETS="field=text;field=text": the configuration of a recorded witness (known finding), on a scripted stream
		let witness = std::env::var("YV_WITNESS_SETS").ok();
		if let Some(sets) = &witness {
			cfg = default_cfg(name);
			for kv in sets.split(';').filter(|x| !x.is_empty()) {
				let (f, t) = kv.split_once('=').expect("field=text");
				cfg.set(f, t.to_string()).expect("witness set");
			}
		}
		let mut g = Gen::new(rng.u64(), true);
		// a volume-based source makes zero-volume bars zero "prices": relative changes (ROC) are undefined on them
		g.no_zero_volume = cfg.to_json().as_object().unwrap().values().any(|v| v == "volume" || v == "volumed_price");
		// TrendStrengthIndex is a correlation: 0/0 on a flat window (undefined); its signal machine is specified on defined values
		g.no_plateau = name == "TrendStrengthIndex";
		if std::env::var("YV_FORCE_DROP").is_ok() {
			g.force_drop_at = Some(60);
		}
		g.long_regimes = std::env::var("YV_LONG_REGIMES").is_ok();
		g.halts = std::env::var("YV_HALTS").is_ok();
		// every fourth program runs on a tick grid (about 0.4 % of the price): double tops, equal lows, repeated closes
		if k % 4 == 1 && name != "TrendStrengthIndex" && witness.is_none() {
			let p0 = g.candle().close as f64;
			g.tick_grid = Some(2f64.powi((p0 * 0.004).log2().floor() as i32));
		}
		if std::env::var("YV_RANGE_REGIMES").is_ok() {
			g.one_sided = true;
			g.droughts = !g.no_zero_volume;
		}
		let first = g.candle();
		let inst = catch(|| cfg.init(&first));
		let res = match &inst {
			Ok(Ok(_)) => "ok",
			Ok(Err(_)) => "err",
			Err(_) => "panic",
		};
		tw.ev(json!({"ev":"ind_new","name":name,"cfg":cfg_for_trace(&cfg.to_json()),"raw_cfg":cfg.to_json().to_string(),"c":candle_fx(&first),
			"size":[cfg.size().0, cfg.size().1],"valid":cfg.validate(),"res":res,"k":cfg_k(&cfg.to_json()).max(4)}));
		let cfgsize = json!([cfg.size().0, cfg.size().1]);
		let ma_kinds: Vec<String> = cfg.to_json().as_object().unwrap().values().filter_map(|v| v.as_object().map(|o| {
			let k = o.keys().next().unwrap().clone();
			if k == "lin_reg" { "linreg".to_string() } else { k }
		})).collect();
		let Ok(Ok(mut inst)) = inst else { continue };
		let mut wprev = first.close as f64;
		for i in 0..steps {
			let c = if i == 0 {
				first
			} else if witness.is_some() {
				// scripted: volatile at a large scale, a x1/1024 drop, volatile, a long exactly flat stretch, volatile again
				let u = g.rng.unit();
				let close = match i % 160 {
					0..=39 => 3000.0 * (0.5 + u),
					40..=59 => 3000.0 / 1024.0 * (0.5 + u),
					60..=119 => wprev,
					_ => 3.0 * (0.5 + u),
				};
				let (o, cl) = (wprev, close);
				let flat = (60..=119).contains(&(i % 160));
				let h = o.max(cl) * if flat { 1.0 } else { 1.0 + 0.01 * g.rng.unit() };
				let l = o.min(cl) * if flat { 1.0 } else { 1.0 - 0.01 * g.rng.unit() };
				wprev = close;
				crate::methods::candle(o, h, l, cl, (1.0 + (g.rng.unit() * 500.0).floor()) as f64)
			} else {
				g.candle()
			};
			match catch(|| inst.next(&c)) {
				Ok(r) => tw.ev(json!({"ev":"ind_next","c":candle_fx(&c),"v":result_json(&r)["v"],"o":result_json(&r)["o"],"s":result_json(&r)["s"],"size":[r.size().0, r.size().1],"cfgsize":cfgsize,"raw_ma_kinds":ma_kinds})),
				Err(e) => {
					tw.ev(json!({"ev":"ind_next","c":candle_fx(&c),"v":[],"o":[],"s":[],"size":[0,0],"cfgsize":cfgsize,"raw_ma_kinds":ma_kinds,"panic":e}));
					break;
				}
			}
		}
	}
	let n = tw.finish();
	println!("{}", json!({"kind":"summary","events":n}));
}

/// `yv ind-catalog` — the public fields of every indicator config with their types (from the serialized default config),
/// NAME and size(): the ground truth Config.tla is instantiated with.
pub fn catalog(_args: &[String]) {
	let mut out = Vec::new();
	for name in NAMES {
		let c = default_cfg(name);
		let j = c.to_json();
		let fields: Vec<Value> = j
			.as_object()
			.unwrap()
			.iter()
			.map(|(k, v)| {
				let t = if v.is_object() { "ma" } else if v.is_string() { "source" } else if v.is_boolean() { "bool" } else if v.is_f64() { "float" } else { "int" };
				json!({"f": k, "t": t})
			})
			.collect();
		out.push(json!({"name": name, "fields": fields, "size": [c.size().0, c.size().1], "cfg_name": c.name(), "default_valid": c.validate()}));
	}
	println!("{}", json!(out));
}

fn expected_json(d: &Value) -> Value {
	match d["as"].as_str().unwrap() {
		"int" => json!(d["v"].as_u64().unwrap()),
		"float" => json!(d["num"].as_f64().unwrap() / d["den"].as_f64().unwrap()),
		"nan" => Value::Null,
		"ma" => json!({ d["kind"].as_str().unwrap(): d["n"].as_u64().unwrap() }),
		"source" => json!(d["v"].as_str().unwrap()),
		"bool" => json!(d["v"].as_bool().unwrap()),
		other => panic!("descriptor {other}"),
	}
}

fn json_num_eq(a: &Value, b: &Value) -> bool {
	match (a.as_f64(), b.as_f64()) {
		(Some(x), Some(y)) => x == y,
		_ => a == b,
	}
}

/// `yv cfg-replay <programs.ndjson>` — Config.tla programs: sequences of set(name, text) with the expected effect
pub fn cfg_replay(args: &[String]) {
	let rows = read_lines(&args[0]);
	let mut out = Sink::new();
	for r in &rows {
		let name = r["ind"].as_str().unwrap();
		let mut c = default_cfg(name);
		// static and dyn configuration side by side
		let mut d = c.dyn_cfg();
		for (si, st) in r["sets"].as_array().unwrap().iter().enumerate() {
			let before = c.to_json();
			let field = st["field"].as_str().unwrap();
			let text = st["text"].as_str().unwrap();
			let res = catch(|| c.set(field, text.to_string()));
			let resd = catch(|| d.set(field, text.to_string()));
			let after = c.to_json();
			out.checked += 1;
			let ctx = || json!({"ind": name, "field": field, "text": text, "step": si});
			match (&res, &resd) {
				(Err(e), _) | (_, Err(e)) => {
					out.mismatch(&format!("{name}:set:panic"), json!({"ind": name, "field": field, "text": text, "msg": e}));
					break;
				}
				(Ok(a), Ok(b)) if a.is_ok() != b.is_ok() => {
					out.mismatch(&format!("{name}:set:dyn-differs"), ctx());
					break;
				}
				_ => {}
			}
			let ok = res.unwrap().is_ok();
			let exp = &st["exp"];
			if exp["ok"].as_bool().unwrap() {
				let want = expected_json(exp);
				let mut expect_cfg = before.clone();
				expect_cfg[field] = want.clone();
				let same = after.as_object().unwrap().iter().all(|(k, v)| json_num_eq(v, &expect_cfg[k]));
				if !ok || !same {
					out.mismatch(&format!("{name}:set:{field}"), json!({"ind": name, "field": field, "text": text, "expected_value": want,
						"result": if ok {"Ok"} else {"Err"}, "before": before, "after": after}));
					break;
				}
			} else if ok || after != before {
				out.mismatch(&format!("{name}:set:{}", if st["known_field"].as_bool().unwrap() { field } else { "unknown-name" }),
					json!({"ind": name, "field": field, "text": text, "expected": "Err, configuration unchanged", "result": if ok {"Ok"} else {"Err"},
						"before": before, "after": after}));
				break;
			}
		}
	}
	out.summary(json!({"programs": rows.len()}));
}

enum IH<'x> {
	Static(Box<dyn InstI>),
	Dyn(Box<dyn IndicatorInstanceDyn<Candle>>, usize),
	Fun(Box<dyn FnMut(&'x Candle) -> IndicatorResult + 'x>),
}

fn rb(v: &[IndicatorResult]) -> Value {
	json!(v.iter().map(result_bits).collect::<Vec<_>>())
}

fn run_ind_prog<'x>(cfg: &dyn CfgI, prog: &[Value], cs: &'x [Candle], use_dyn: bool) -> Vec<Value> {
	let mut hs: Vec<Option<IH<'x>>> = Vec::new();
	let mut obs = Vec::new();
	let dcfg = cfg.dyn_cfg();
	for o in prog {
		let op = o["op"].as_str().unwrap();
		let h = o["h"].as_i64().unwrap();
		let k = o["k"].as_u64().unwrap() as usize;
		let lo = o["lo"].as_i64().unwrap();
		let c0 = (lo - 1).max(0) as usize;
		let r: Result<Value, String> = catch(|| match op {
			"new" => {
				hs.push(Some(if use_dyn { IH::Dyn(dcfg.init(&cs[0]).unwrap(), 0) } else { IH::Static(cfg.init(&cs[0]).unwrap()) }));
				json!([])
			}
			"new_fn" => {
				// init_fn: the boxed closure of the configuration
				let mut inst = cfg.init(&cs[0]).unwrap();
				hs.push(Some(IH::Fun(Box::new(move |c: &Candle| inst.next(c)))));
				json!([])
			}
			"new_over" => {
				let v = if use_dyn { dcfg.over(&cs[..k].to_vec()).unwrap() } else { cfg.over(&cs[..k]).unwrap() };
				rb(&v)
			}
			"next" | "fncall" => {
				let x = &cs[c0];
				let y = match hs[h as usize].as_mut().unwrap() {
					IH::Static(m) => m.next(x),
					IH::Dyn(m, n) => {
						*n += 1;
						m.next(x)
					}
					IH::Fun(f) => f(x),
				};
				rb(&[y])
			}
			"over" => {
				let s = &cs[c0..c0 + k];
				let y = match hs[h as usize].as_mut().unwrap() {
					IH::Static(m) => m.over(s),
					IH::Dyn(m, n) => {
						*n += k;
						m.over(&s.to_vec())
					}
					IH::Fun(_) => unreachable!(),
				};
				rb(&y)
			}
			"clone" | "snapshot" => {
				let mut return_clone = false;
				let c = match hs[h as usize].as_ref().unwrap() {
					IH::Static(m) => {
						if op == "clone" {
							IH::Static(m.boxed_clone())
						} else {
							let text = m.snapshot();
							if text.contains("null") {
								// a NaN in the state (e.g. 0/0 on a constant window): JSON, the carrier, cannot represent it
								return_clone = true;
							}
							let back = if return_clone { m.boxed_clone() } else { cfg.restore_instance(&text).unwrap_or_else(|e| panic!("deserialize: {e}")) };
							if !return_clone && back.snapshot() != text {
								panic!("snapshot of the restored instance differs");
							}
							IH::Static(back)
						}
					}
					// a dyn instance cannot be cloned: an identically built instance fed the same inputs stands in
					IH::Dyn(_, n) => {
						let mut m = dcfg.init(&cs[0]).unwrap();
						for x in &cs[..*n] {
							m.next(x);
						}
						IH::Dyn(m, *n)
					}
					IH::Fun(_) => unreachable!(),
				};
				hs.push(Some(c));
				json!([])
			}
			other => panic!("unknown op {other}"),
		});
		match r {
			Ok(v) => obs.push(v),
			Err(e) => {
				obs.push(json!({"panic": e}));
				break;
			}
		}
	}
	obs
}

/// `yv ind-api-replay <programs.ndjson> <seed> <mode>` — Api.tla programs on every indicator, static and dyn (C09, C11, C13)
pub fn api_replay(args: &[String]) {
	let progs = read_lines(&args[0]);
	let seed: u64 = arg(args, 1, "seed");
	let mut out = Sink::new();
	let mut rng = Rng::new(seed ^ 0xa91);
	let mut runs = 0u64;
	let mut shape_steps = 0u64;
	// every moving-average kind in every MA-typed field (and every source in every source field) survives the serde round
	// trip of the configuration and of a running instance (C13)
	for name in NAMES {
		let base = default_cfg(name);
		let j = base.to_json();
		for (field, _v) in j.as_object().unwrap() {
			// the type of a field is found out through `set` (not through the serialized form, which is what is being checked):
			// a field that accepts "ema-5" is a moving-average constructor, one that accepts "close" a source, ...
			let accepts = |t: &str| { let mut c = base.boxed(); c.set(field, t.to_string()).is_ok() };
			let texts: Vec<String> = if accepts("ema-5") {
				MA_KINDS.iter().flat_map(|k| [2u64, 3, 5, 9, 12, 14, 26, 30].iter().map(move |n| format!("{k}-{n}"))).collect()
			} else if accepts("close") {
				SOURCES.iter().map(|x| x.to_string()).collect()
			} else if accepts("true") {
				vec!["true".into(), "false".into()]
			} else {
				continue;
			};
			let mut ran: std::collections::HashSet<String> = std::collections::HashSet::new();
			for text in texts {
				let mut c = base.boxed();
				if c.set(field, text.clone()).is_err() || !c.validate() {
					continue;
				}
				match c.from_json(&c.to_json()) {
					Ok(c2) => {
						out.cmp(&format!("{name}:config-serde:value"), || json!({"field": field, "text": text}), &c.to_json(), &c2.to_json());
					}
					Err(e) => out.mismatch(&format!("{name}:config-serde:err"), json!({"msg": e, "cfg": c.to_json()})),
				}
				// a running instance: once per kind / source (the first length that validates)
				if !ran.insert(text.split('-').next().unwrap().to_string()) {
					continue;
				}
				let mut g = Gen::new(rng.u64(), true);
				g.no_zero_volume = true;
				let cs: Vec<Candle> = (0..14).map(|_| g.candle()).collect();
				let Ok(Ok(mut a)) = catch(|| c.init(&cs[0])) else { continue };
				let mut alive = true;
				for x in &cs[..6] {
					alive = alive && catch(std::panic::AssertUnwindSafe(|| a.next(x))).is_ok();
				}
				if !alive {
					continue;
				}
				match c.restore_instance(&a.snapshot()) {
					Ok(mut b) => {
						out.cmp(&format!("{name}:snapshot:config"), || json!({"field": field, "text": text}), &a.cfg_json(), &b.cfg_json());
						for (i, x) in cs[6..].iter().enumerate() {
							let (ya, yb) = (catch(std::panic::AssertUnwindSafe(|| result_bits(&a.next(x)))), catch(std::panic::AssertUnwindSafe(|| result_bits(&b.next(x)))));
							if let (Ok(ya), Ok(yb)) = (ya, yb) {
								out.cmp(&format!("{name}:snapshot:value"), || json!({"field": field, "text": text, "step_after_restore": i}), &ya, &yb);
							} else {
								break;
							}
						}
					}
					Err(e) => out.mismatch(&format!("{name}:snapshot:err"), json!({"msg": e, "cfg": c.to_json()})),
				}
			}
		}
	}
	for name in NAMES {
		for variant in 0..2 {
			let cfg = random_cfg(name, &mut rng, variant == 1);
			let mut g = Gen::new(rng.u64(), true);
			let cs: Vec<Candle> = (0..24).map(|_| g.candle()).collect();
			let Ok(Ok(mut inst)) = catch(|| cfg.init(&cs[0])) else {
				out.mismatch(&format!("{name}:init:rejected"), json!({"cfg": cfg.to_json()}));
				continue;
			};
			// contract facts of C11 on this configuration
			out.cmp(&format!("{name}:name:value"), || json!({}), &json!([name, name]), &json!([cfg.name(), inst.name()]));
			out.cmp(&format!("{name}:size:value"), || json!({}), &json!([cfg.size().0, cfg.size().1]), &json!([inst.size().0, inst.size().1]));
			out.cmp(&format!("{name}:config:value"), || json!({}), &cfg.to_json(), &inst.cfg_json());
			let d = cfg.dyn_cfg();
			out.cmp(&format!("{name}:dyn-contract:value"), || json!({}), &json!([cfg.name(), cfg.size().0, cfg.size().1, cfg.validate()]),
				&json!([d.name(), d.size().0, d.size().1, d.validate()]));
			// config serde round trip (C13)
			match cfg.from_json(&cfg.to_json()) {
				Ok(c2) => {
					out.cmp(&format!("{name}:config-serde:value"), || json!({}), &cfg.to_json(), &c2.to_json());
				}
				Err(e) => out.mismatch(&format!("{name}:config-serde:err"), json!({"msg": e, "cfg": cfg.to_json()})),
			}
			let ys: Vec<Value> = cs.iter().map(|c| result_bits(&inst.next(c))).collect();
			// every result carries exactly size() values and signals
			for (i, y) in ys.iter().enumerate() {
				out.cmp(&format!("{name}:result-shape:value"), || json!({"step": i}), &json!([cfg.size().0, cfg.size().1]), &y["size"]);
			}
			// ... on long streams too, with untraded stretches (runs of zero-volume candles) and flat prices
			for sweep in 0..3u64 {
				let mut g2 = Gen::new(rng.u64(), true);
				g2.droughts = true;
				let first = if sweep == 0 { let mut c0 = g2.candle(); c0.volume = 0.0; c0 } else { g2.candle() };
				let Ok(Ok(mut i2)) = catch(|| cfg.init(&first)) else { continue };
				let mut cand = first;
				for step in 0..400 {
					let r = catch(std::panic::AssertUnwindSafe(|| result_bits(&i2.next(&cand))));
					let Ok(y) = r else { break };
					shape_steps += 1;
					out.cmp(&format!("{name}:result-shape:value"), || json!({"step": step, "sweep": sweep, "cfg": cfg.to_json()}), &json!([cfg.size().0, cfg.size().1]), &y["size"]);
					cand = g2.candle();
				}
			}
			// init_fn over the whole stream
			match catch(|| cfg.init_fn_run(&cs)) {
				Ok(Ok(v)) => {
					out.cmp(&format!("{name}:init_fn:value"), || json!({}), &json!(ys), &rb(&v));
				}
				other => out.mismatch(&format!("{name}:init_fn:failed"), json!({"res": format!("{:?}", other.is_ok())})),
			}
			for (pi, pr) in progs.iter().enumerate() {
				let prog = pr["prog"].as_array().unwrap();
				for use_dyn in [false, true] {
					let obs = run_ind_prog(cfg.as_ref(), prog, &cs, use_dyn);
					runs += 1;
					for (oi, o) in prog.iter().enumerate() {
						let op = o["op"].as_str().unwrap();
						let act = obs.get(oi).cloned().unwrap_or(json!("not executed"));
						let exp = match op {
							"new" | "new_fn" | "clone" | "snapshot" => json!([]),
							_ => {
								let lo = o["lo"].as_i64().unwrap();
								let hi = o["hi"].as_i64().unwrap();
								if hi < lo { json!([]) } else { json!(ys[(lo - 1) as usize..hi as usize].to_vec()) }
							}
						};
						out.checked += 1;
						if act != exp {
							let cls = if act.get("panic").is_some() { "panic" } else { "value" };
							out.mismatch(&format!("{name}:{op}:{cls}"), json!({"via": if use_dyn {"dyn"} else {"static"}, "cfg": cfg.to_json(), "program": pi,
								"op_index": oi, "op": o, "expected": exp, "actual": act}));
							break;
						}
					}
				}
			}
		}
	}
	out.summary(json!({"programs": progs.len(), "indicators": NAMES.len(), "runs": runs, "shape_steps": shape_steps}));
}

/// `yv ind-prefix-record <seed> <rounds> <steps> <out.ndjson> [name]` — C08 for indicators (events of Trace_Prefix):
/// an instance initialised with a candle and fed that candle returns a constant result (values up to rounding without
/// drift, signals exactly), and k extra leading copies of the first candle do not change the later results.
pub fn prefix_record(args: &[String]) {
	let seed: u64 = arg(args, 0, "seed");
	let rounds: u64 = arg(args, 1, "rounds");
	let steps: u64 = arg(args, 2, "steps");
	let mut tw = TraceWriter::create(&args[3]);
	let only = args.get(4).map(String::as_str);
	let mut rng = Rng::new(seed ^ 0x9e1f7);
	let vals = |r: &IndicatorResult| -> Vec<f64> { r.values().iter().map(|x| *x as f64).collect() };
	let sigs = |r: &IndicatorResult| -> Vec<i64> { r.signals().iter().map(|a| crate::action::code(*a)).collect() };
	// YV_EXCLUDE: indicators left out (an open known finding gets its own traces); YV_PREFIX_NOSIG: values only
	let excluded: Vec<String> = std::env::var("YV_EXCLUDE").map(|v| v.split(',').map(str::to_string).collect()).unwrap_or_default();
	let nosig = std::env::var("YV_PREFIX_NOSIG").is_ok();
	for round in 0..rounds {
		for name in NAMES {
			if only.is_some_and(|o| o != *name) || excluded.iter().any(|x| x == name) {
				continue;
			}
			let mut cfg = random_cfg(name, &mut rng, round % 3 != 0);
			// YV_PREFIX_WITNESS={"sets":"f=t;f=t","candle":[o,h,l,c,v],"k":K}: the recorded witness of a known finding
			// (explicit data: independent of the stream generators)
			let witness: Option<Value> = std::env::var("YV_PREFIX_WITNESS").ok().and_then(|t| serde_json::from_str(&t).ok());
			if let Some(w) = &witness {
				cfg = default_cfg(name);
				for kv in w["sets"].as_str().unwrap_or("").split(';').filter(|x| !x.is_empty()) {
					let (f, t) = kv.split_once('=').expect("field=text");
					cfg.set(f, t.to_string()).expect("witness set");
				}
			}
			let j = cfg.to_json();
			// exempt by the property: indicators configured with a windowless (cumulative) ADI
			if *name == "ChaikinOscillator" && j["window"].as_u64() == Some(0) {
				continue;
			}
			let mut g = Gen::new(rng.u64(), true);
			g.no_zero_volume = j.as_object().unwrap().values().any(|v| v == "volume" || v == "volumed_price");
			let mut first = g.candle();
			match rng.below(6) {
				0 => {
					first.high = first.close;
					first.low = first.close;
					first.open = first.close;
				}
				1 if !g.no_zero_volume => first.volume = 0.0,
				2 => first.open = first.low,
				_ => {}
			}
			let kcfg = cfg_k(&j).max(4);
			let mut k = *rng.pick(&[1u64, 2, 3, kcfg.saturating_sub(1).max(1), kcfg, kcfg + 1, 3 * kcfg]);
			if let Some(w) = &witness {
				let c = w["candle"].as_array().unwrap();
				let f = |i: usize| c[i].as_f64().unwrap();
				first = crate::methods::candle(f(0), f(1), f(2), f(3), f(4));
				k = w["k"].as_u64().unwrap();
			}
			let (Ok(Ok(mut a)), Ok(Ok(mut b))) = (catch(|| cfg.init(&first)), catch(|| cfg.init(&first))) else { continue };
			let p0 = (first.high as f64).abs().max(first.volume as f64).max(1e-300);
			tw.ev(json!({"ev":"pre_new","subject":name,"params":j.to_string(),"class":"ind","n":kcfg,"k":k,"scale":fx(p0),"first":candle_fx(&first)}));
			// the parabolic SAR's documented trend value goes from "no trend" to its initial trend on the first candle:
			// its results are compared from the second step on
			let skip_first = *name == "ParabolicSAR";
			if skip_first && catch(|| a.next(&first)).is_err() | catch(|| b.next(&first)).is_err() {
				continue;
			}
			let mut ok = true;
			// signals are derived from the values: they are required to stay constant as long as the values themselves are
			// bit-constant (values that move at rounding level may move a comparison with them)
			let mut v0: Option<Vec<u64>> = None;
			let mut still = true;
			for _ in 0..k {
				match catch(|| b.next(&first)) {
					Ok(r) => {
						let v = vals(&r);
						let vb: Vec<u64> = v.iter().map(|x| x.to_bits()).collect();
						still = still && v0.as_ref().map_or(true, |w| *w == vb);
						v0.get_or_insert(vb);
						let m = v.iter().fold(0.0f64, |m, x| if x.is_finite() { m.max(x.abs()) } else { m });
						let mut ev = json!({"ev":"pre_const","y":v.iter().map(|x| fx(*x)).collect::<Vec<_>>(),"mag":fx(m)});
						if still && !nosig {
							ev["s"] = json!(sigs(&r));
						}
						tw.ev(ev)
					}
					Err(e) => {
						tw.ev(json!({"ev":"pre_const","y":[{"panic": e}],"s":[]}));
						ok = false;
						break;
					}
				}
			}
			if !ok {
				continue;
			}
			// signals are compared exactly as long as the two runs carry bit-identical values (a one-ulp difference of the
			// values may legitimately move a threshold comparison)
			let mut same_bits = true;
			for i in 0..steps {
				let x = if i == 0 { first } else { g.candle() };
				let mag = (x.high as f64).abs().max(x.volume as f64);
				match (catch(|| a.next(&x)), catch(|| b.next(&x))) {
					(Ok(ra), Ok(rb)) => {
						let (va, vb) = (vals(&ra), vals(&rb));
						same_bits = same_bits && va.iter().zip(vb.iter()).all(|(p, q)| p.to_bits() == q.to_bits() || (p.is_nan() && q.is_nan()));
						let m = va.iter().chain(vb.iter()).fold(mag, |m, x| if x.is_finite() { m.max(x.abs()) } else { m });
						let mut ev = json!({"ev":"pre_pair","y":va.iter().map(|x| fx(*x)).collect::<Vec<_>>(),"yk":vb.iter().map(|x| fx(*x)).collect::<Vec<_>>(),"mag":fx(m)});
						if same_bits && !nosig {
							ev["s"] = json!(sigs(&ra));
							ev["sk"] = json!(sigs(&rb));
						}
						tw.ev(ev);
					}
					(Err(_), Err(_)) => break,
					_ => {
						tw.ev(json!({"ev":"pre_pair","y":[{"panic": true}],"yk":[],"mag":fx(mag)}));
						break;
					}
				}
			}
		}
	}
	let n = tw.finish();
	println!("{}", json!({"kind":"summary","events":n}));
}

/// `yv ind-dyn-replay <configs.ndjson> <seed>` — C11: the dynamically dispatched configuration behaves like the static one on
/// EVERY configuration (valid or not; the rows are MC_IndParams' deviations from the default), for every entry point:
/// validate, name, size, init (Ok / Err), over on slices of 0, 1 and 6 candles (Ok with equal results / Err).
pub fn dyn_replay(args: &[String]) {
	let rows = read_lines(&args[0]);
	let seed: u64 = arg(args, 1, "seed");
	let mut out = Sink::new();
	let mut rng = Rng::new(seed ^ 0xd1a);
	let mut g = Gen::new(rng.u64(), true);
	g.no_zero_volume = true;
	let cs: Vec<Candle> = (0..6).map(|_| g.candle()).collect();
	let kind = |r: &Result<Result<Vec<IndicatorResult>, Error>, String>| -> Value {
		match r {
			Ok(Ok(v)) => json!({"ok": v.iter().map(result_bits).collect::<Vec<_>>()}),
			Ok(Err(_)) => json!("err"),
			Err(_) => json!("panic"),
		}
	};
	for r in &rows {
		let name = r["ind"].as_str().unwrap();
		let mut c = default_cfg(name);
		let mut applied = Vec::new();
		for st in r["sets"].as_array().unwrap() {
			let (f, t) = (st["field"].as_str().unwrap(), st["text"].as_str().unwrap());
			if let Ok(Ok(())) = catch(|| c.set(f, t.to_string())) {
				applied.push(format!("{f}={t}"));
			}
		}
		let d = c.dyn_cfg();
		let ctx = || json!({"deviation": applied.join(","), "cfg": c.to_json()});
		out.cmp(&format!("{name}:dyn-contract:value"), ctx, &json!([c.name(), c.size().0, c.size().1, catch(|| c.validate()).ok()]),
			&json!([d.name(), d.size().0, d.size().1, catch(|| d.validate()).ok()]));
		let si = match catch(|| c.init(&cs[0])) { Ok(Ok(_)) => "ok", Ok(Err(_)) => "err", Err(_) => "panic" };
		let di = match catch(|| d.init(&cs[0])) { Ok(Ok(_)) => "ok", Ok(Err(_)) => "err", Err(_) => "panic" };
		out.cmp(&format!("{name}:dyn-init:value"), ctx, &json!(si), &json!(di));
		if si == "panic" {
			continue; // (C10's finding; the bulk calls would panic alike)
		}
		for n in [0usize, 1, 6] {
			let sl = cs[..n].to_vec();
			let so = catch(|| c.over(&sl));
			let dd = catch(|| d.over(&sl));
			out.cmp(&format!("{name}:dyn-over:value"), || json!({"deviation": applied.join(","), "cfg": c.to_json(), "candles": n}), &kind(&so), &kind(&dd));
		}
	}
	out.summary(json!({"configs": rows.len()}));
}

/// `yv result-replay <rows.ndjson>` — MC_Result rows on the real IndicatorResult
pub fn result_replay(args: &[String]) {
	use yata::core::{Action, ValueType};
	let rows = read_lines(&args[0]);
	let mut out = Sink::new();
	let vals: Vec<ValueType> = (0..8).map(|i| 1.5 + i as ValueType).collect();
	let sigs: Vec<Action> = (0..8).map(|i| if i % 2 == 0 { Action::Buy(10 + i as u8) } else { Action::Sell(20 + i as u8) }).collect();
	for r in &rows {
		let (nv, ns) = (r["nv"].as_u64().unwrap() as usize, r["ns"].as_u64().unwrap() as usize);
		let (vl, sl) = (r["vlen"].as_u64().unwrap() as usize, r["slen"].as_u64().unwrap() as usize);
		let got = catch(|| {
			let res = IndicatorResult::new(&vals[..nv], &sigs[..ns]);
			json!({"size": [res.size().0, res.size().1], "vlen": res.values_length(), "slen": res.signals_length(),
				"values": res.values().iter().map(|x| *x as f64).collect::<Vec<_>>(),
				"signals": res.signals().iter().map(|a| crate::action::code(*a)).collect::<Vec<_>>(),
				"value_i": (0..vl).map(|i| res.value(i) as f64).collect::<Vec<_>>(),
				"signal_i": (0..sl).map(|i| crate::action::code(res.signal(i))).collect::<Vec<_>>()})
		});
		let exp = json!({"size": [vl, sl], "vlen": vl, "slen": sl,
			"values": vals[..vl].iter().map(|x| *x as f64).collect::<Vec<_>>(),
			"signals": sigs[..sl].iter().map(|a| crate::action::code(*a)).collect::<Vec<_>>(),
			"value_i": vals[..vl].iter().map(|x| *x as f64).collect::<Vec<_>>(),
			"signal_i": sigs[..sl].iter().map(|a| crate::action::code(*a)).collect::<Vec<_>>()});
		out.checked += 1;
		match got {
			Ok(g) if g == exp => {}
			Ok(g) => out.mismatch("IndicatorResult:new:value", json!({"nv": nv, "ns": ns, "expected": exp, "actual": g})),
			Err(e) => out.mismatch("IndicatorResult:new:panic", json!({"nv": nv, "ns": ns, "msg": e})),
		}
	}
	out.summary(json!({"rows": rows.len()}));
}

/// class of a panic message (the site inside the crate that gave up)
fn panic_class(msg: &str) -> &'static str {
	if msg.contains("PeriodType overflow") {
		"window-of-PeriodType::MAX"
	} else if msg.contains("overflow") {
		"arithmetic-overflow"
	} else if msg.contains("out of range") || msg.contains("out of bounds") {
		"index-out-of-range"
	} else if msg.contains("NAN") || msg.contains("NaN") {
		"nan-input"
	} else if msg.contains("unwrap") {
		"unwrap"
	} else if msg.contains("empty window") {
		"empty-window"
	} else {
		"other"
	}
}

/// `yv indparams-replay <configs.ndjson> <seed> <steps>` — C10 at indicator level
pub fn params_replay(args: &[String]) {
	let rows = read_lines(&args[0]);
	let seed: u64 = arg(args, 1, "seed");
	let steps: usize = arg(args, 2, "steps");
	let mut out = Sink::new();
	let mut inits = 0u64;
	let mut accepted = 0u64;
	for (ri, r) in rows.iter().enumerate() {
		let name = r["ind"].as_str().unwrap();
		let mut c = default_cfg(name);
		let mut applied = Vec::new();
		for st in r["sets"].as_array().unwrap() {
			let (f, t) = (st["field"].as_str().unwrap(), st["text"].as_str().unwrap());
			match catch(|| c.set(f, t.to_string())) {
				Ok(Ok(())) => applied.push(format!("{f}={t}")),
				Ok(Err(_)) => {}
				Err(e) => {
					out.mismatch(&format!("{name}:set:panic"), json!({"field": f, "text": t, "msg": e}));
				}
			}
		}
		let class = applied.join(",");
		let valid = match catch(|| c.validate()) {
			Ok(v) => v,
			Err(e) => {
				out.mismatch(&format!("{name}:validate:panic"), json!({"cfg": c.to_json(), "deviation": class, "msg": e}));
				continue;
			}
		};
		let mut g = Gen::new(seed * 7_919 + ri as u64, true);
		g.no_zero_volume = c.to_json().as_object().unwrap().values().any(|v| v == "volume" || v == "volumed_price");
		let first = g.candle();
		inits += 1;
		out.checked += 1;
		match catch(|| c.init(&first)) {
			Err(e) => out.mismatch(&format!("{name}:init:panic[{}]", panic_class(&e)), json!({"cfg": c.to_json(), "deviation": class, "valid": valid, "msg": e})),
			Ok(Err(_)) => {}
			Ok(Ok(mut inst)) => {
				if !valid {
					out.mismatch(&format!("{name}:init:ok-though-invalid"), json!({"cfg": c.to_json(), "deviation": class}));
				}
				accepted += 1;
				for i in 0..steps {
					let x = if i == 0 { first } else { g.candle() };
					if let Err(e) = catch(|| inst.next(&x)) {
						out.mismatch(&format!("{name}:next:panic[{}]", panic_class(&e)), json!({"cfg": c.to_json(), "deviation": class, "step": i, "msg": e}));
						break;
					}
				}
			}
		}
	}
	out.summary(json!({"configs": rows.len(), "inits": inits, "accepted": accepted}));
}
