//! yata::core::Action — replay of TLC's complete tables (direction A), probes, float sweeps.
use crate::util::*;
use serde_json::{json, Value};
use std::cmp::Ordering;
use yata::core::{Action, ValueType};

pub fn code(a: Action) -> i64 {
	match a {
		Action::Buy(s) => s as i64,
		Action::Sell(s) => -1 - s as i64,
		Action::None => 600,
	}
}
pub fn decode(c: i64) -> Action {
	if c == 600 {
		Action::None
	} else if c >= 0 {
		Action::Buy(c as u8)
	} else {
		Action::Sell((-1 - c) as u8)
	}
}
fn all() -> Vec<Action> {
	let mut v: Vec<Action> = (0..=255u8).map(Action::Buy).collect();
	v.extend((0..=255u8).map(Action::Sell));
	v.push(Action::None);
	v
}
fn ord(o: Ordering) -> i64 {
	match o {
		Ordering::Less => -1,
		Ordering::Equal => 0,
		Ordering::Greater => 1,
	}
}

/// `yv action-replay <rows.ndjson>`: rows of MC_Action (emit: per action; float: per grid point)
pub fn replay(args: &[String]) {
	let rows = read_lines(&args[0]);
	let mut out = Sink::new();
	let seq = all();
	for r in &rows {
		if let Some(k) = r.get("k").and_then(Value::as_i64) {
			// From<f64> / From<f32> on the grid v = k/1020; k = 2 (mod 4) are the rational break points, where
			// the product v*255 is rounded once before round(): either neighbour is admissible there
			let exp = r["act"].as_i64().unwrap();
			let v = k as f64 / 1020.0;
			for (ty, got) in [("f64", catch(|| Action::from(v))), ("f32", catch(|| Action::from(v as f32))), ("valuetype", catch(|| Action::from(v as yata::core::ValueType)))] {
				out.checked += 1;
				match got {
					Err(e) => out.mismatch(&format!("Action:from_{ty}:panic"), json!({"v": v, "msg": e})),
					Ok(a) => {
						let c = code(a);
						let ok = if k.rem_euclid(4) == 2 && k.abs() < 1020 { (c - exp).abs() <= 1 && (c >= 0) == (exp >= 0) } else { c == exp };
						if !ok {
							out.mismatch(&format!("Action:from_{ty}:value"), json!({"v": v, "k": k, "expected": exp, "actual": c}));
						}
					}
				}
			}
			continue;
		}
		let a = decode(r["a"].as_i64().unwrap());
		let ctx = || json!({"a": code(a)});
		out.cmp("Action:neg:value", ctx, &r["neg"], &json!(catch(|| code(-a)).unwrap_or(9999)));
		out.cmp("Action:analog:value", ctx, &r["analog"], &json!(a.analog()));
		out.cmp("Action:is_none:value", ctx, &r["none"], &json!(a.is_none()));
		// sign(): None for no signal, otherwise Some(analog)
		let sign_exp = if a.is_none() { json!(null) } else { r["analog"].clone() };
		out.cmp("Action:sign:value", ctx, &sign_exp, &json!(a.sign()));
		// value(): the payload
		let val_exp = if a.is_none() { json!(null) } else { json!(r["ratio"].as_i64().unwrap().abs()) };
		out.cmp("Action:value:value", ctx, &val_exp, &json!(a.value()));
		// ratio() = num/255 exactly as computed in floating point, sign of zero included for Sell(0)
		let num = r["ratio"].as_i64().unwrap();
		match a.ratio() {
			None => {
				out.cmp("Action:ratio:value", ctx, &json!(true), &r["none"]);
			}
			Some(x) => {
				let e = num as ValueType / 255.0;
				out.checked += 1;
				if !(x == e && x.abs() <= 1.0) || a.is_none() {
					out.mismatch("Action:ratio:value", json!({"a": code(a), "expected": e, "actual": x}));
				}
				// from(ratio(a)) == a
				let back = catch(|| Action::from(x)).unwrap_or(Action::None);
				out.checked += 1;
				if catch(|| back != a).unwrap_or(true) || (code(back) != code(a) && num != 0) {
					out.mismatch("Action:from_ratio:roundtrip", json!({"a": code(a), "ratio": x, "back": code(back)}));
				}
			}
		}
		let sub: Vec<i64> = seq.iter().map(|&b| catch(|| code(a - b)).unwrap_or(9999)).collect();
		let eq: Vec<i64> = seq.iter().map(|&b| catch(|| (a == b) as i64).unwrap_or(9999)).collect();
		let cmp: Vec<i64> = seq.iter().map(|&b| catch(|| ord(a.cmp(&b))).unwrap_or(9999)).collect();
		let pc: Vec<i64> = seq.iter().map(|&b| catch(|| a.partial_cmp(&b).map_or(7, ord)).unwrap_or(9999)).collect();
		for (name, act) in [("sub", &sub), ("eq", &eq), ("cmp", &cmp), ("partial_cmp", &pc)] {
			let exp = &r[if name == "partial_cmp" { "cmp" } else { name }];
			let expv: Vec<i64> = exp.as_array().unwrap().iter().map(|x| x.as_i64().unwrap()).collect();
			for (i, (e, g)) in expv.iter().zip(act.iter()).enumerate() {
				out.checked += 1;
				if e != g {
					out.mismatch(&format!("Action:{name}:value"), json!({"a": code(a), "b": code(seq[i]), "expected": e, "actual": g}));
				}
			}
		}
	}
	// From<i8>, From<bool>, From<Option<..>>, From<&T>, from_analog: complete over i8
	for v in i8::MIN..=i8::MAX {
		let exp = if v == 0 { 600 } else if v > 0 { 255 } else { -256 };
		out.cmp("Action:from_i8:value", || json!({"v": v}), &json!(exp), &json!(code(Action::from(v))));
		out.cmp("Action:from_analog:value", || json!({"v": v}), &json!(exp), &json!(code(Action::from_analog(v))));
		out.cmp("Action:from_opt_i8:value", || json!({"v": v}), &json!(exp), &json!(code(Action::from(Some(v)))));
		out.cmp("Action:from_ref_i8:value", || json!({"v": v}), &json!(exp), &json!(code(Action::from(&v))));
	}
	out.cmp("Action:from_bool:value", || json!({}), &json!([255, 600]), &json!([code(Action::from(true)), code(Action::from(false))]));
	out.cmp("Action:from_none:value", || json!({}), &json!([600, 600, 600, 600]),
		&json!([code(Action::from(None::<i8>)), code(Action::from(None::<f64>)), code(Action::from(None::<f32>)), code(Action::default())]));
	let specials: [(f64, i64); 12] = [(f64::NAN, 600), (f64::INFINITY, 255), (f64::NEG_INFINITY, -256), (f64::MAX, 255),
		(f64::MIN, -256), (0.0, 0), (-0.0, -1), (1e7, 255), (-1e7, -256), (f64::MIN_POSITIVE, 0), (-f64::MIN_POSITIVE, -1), (-1e300, -256)];
	for (v, exp) in specials {
		out.cmp("Action:from_f64:special", || json!({"v": format!("{v:e}")}), &json!(exp), &json!(catch(|| code(Action::from(v))).unwrap_or(9999)));
		out.cmp("Action:from_f32:special", || json!({"v": format!("{v:e}")}), &json!(exp), &json!(catch(|| code(Action::from(v as f32))).unwrap_or(9999)));
		// the Option / reference forms go through the same conversion
		out.cmp("Action:from_opt_f64:special", || json!({"v": format!("{v:e}")}), &json!(exp), &json!(catch(|| code(Action::from(Some(v)))).unwrap_or(9999)));
		out.cmp("Action:from_opt_f32:special", || json!({"v": format!("{v:e}")}), &json!(exp), &json!(catch(|| code(Action::from(Some(v as f32)))).unwrap_or(9999)));
		out.cmp("Action:from_ref_f64:special", || json!({"v": format!("{v:e}")}), &json!(exp), &json!(catch(|| code(Action::from(&v))).unwrap_or(9999)));
		out.cmp("Action:from_valuetype:special", || json!({"v": format!("{v:e}")}), &json!(exp), &json!(catch(|| code(Action::from(v as yata::core::ValueType))).unwrap_or(9999)));
	}
	out.summary(json!({"rows": rows.len()}));
}

/// `yv action-probe <law>`: evaluates a law on the REAL type for all pairs / edge triples and prints the violating tuples
pub fn probe(args: &[String]) {
	let law = args[0].as_str();
	let seq = all();
	let mut bad: Vec<Value> = Vec::new();
	match law {
		"eq-ord-consistent" => {
			for &a in &seq {
				for &b in &seq {
					if catch(|| (a == b) != (a.cmp(&b) == Ordering::Equal)).unwrap_or(true) {
						bad.push(json!([code(a), code(b)]));
					}
				}
			}
		}
		"cmp-transitive" => {
			let edge: Vec<Action> = [600, 0, 1, 2, 127, 128, 254, 255, -1, -2, -3, -128, -129, -255, -256].iter().map(|&c| decode(c)).collect();
			for &a in &edge {
				for &b in &edge {
					for &c in &edge {
						if catch(|| a.cmp(&b) != Ordering::Greater && b.cmp(&c) != Ordering::Greater && a.cmp(&c) == Ordering::Greater).unwrap_or(true) {
							bad.push(json!([code(a), code(b), code(c)]));
						}
					}
				}
			}
		}
		_ => panic!("unknown law"),
	}
	println!("{}", json!({"kind":"probe","law":law,"violations":bad}));
}
