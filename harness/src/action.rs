//! yata::core::Action — replay of TLC's complete tables (direction A), probes, float sweeps.
use crate::util::*;
use serde_json::{json, Value};
use std::cmp::Ordering;
use yata::core::{Action, ValueType};

pub fn code(a: Action) -> i64 {
	match a {
		Action::Buy(s) => s as i64,
		Action::Sell(s) => -1 - s as i64,
		Action::None => 600,
	}
}
pub fn decode(c: i64) -> Action {
	if c == 600 {
		Action::None
	} else if c >= 0 {
		Action::Buy(c as u8)
	} else {
		Action::Sell((-1 - c) as u8)
	}
}
fn all() -> Vec<Action> {
	let mut v: Vec<Action> = (0..=255u8).map(Action::Buy).collect();
	v.extend((0..=255u8).map(Action::Sell));
	v.push(Action::None);
	v
}
fn ord(o: Ordering) -> i64 {
	match o {
		Ordering::Less => -1,
		Ordering::Equal => 0,
		Ordering::Greater => 1,
	}
}

/// `yv action-replay <rows.ndjson>`: rows of MC_Action (emit: per action; float: per grid point)
pub fn replay(args: &[String]) {
	let rows = read_lines(&args[0]);
	let mut out = Sink::new();
	let seq = all();
	for r in &rows {
		if let Some(k) = r.get("k").and_then(Value::as_i64) {
			// From<f64> / From<f32> on the grid v = k/1020; k = 2 (mod 4) are the rational break points, where
			// the product v*255 is rounded once before round(): either neighbour is admissible there
			let exp = r["act"].as_i64().unwrap();
			let v = k as f64 / 1020.0;
			for (ty, got) in [("f64", catch(|| Action::from(v))), ("f32", catch(|| Action::from(v as f32))), ("valuetype", catch(|| Action::from(v as yata::core::ValueType)))] {
				out.checked += 1;
				match got {
					Err(e) => out.mismatch(&format!("Action:from_{ty}:panic"), json!({"v": v, "msg": e})),
					Ok(a) => {
						let c = code(a);
						let ok = if k.rem_euclid(4) == 2 && k.abs() < 1020 { (c - exp).abs() <= 1 && (c >= 0) == (exp >= 0) } else { c == exp };
						if !ok {
							out.mismatch(&format!("Action:from_{ty}:value"), json!({"v": v, "k": k, "expected": exp, "actual": c}));
						}
					}
				}
			}
			continue;
		}
		let a = decode(r["a"].as_i64().unwrap());
		let ctx = || json!({"a": code(a)});
		out.cmp("Action:neg:value", ctx, &r["neg"], &json!(catch(|| code(-a)).unwrap_or(9999)));
		out.cmp("Action:analog:value", ctx, &r["analog"], &json!(a.analog()));
		out.cmp("Action:is_none:value", ctx, &r["none"], &json!(a.is_none()));
		// sign(): None for no signal, otherwise Some(analog)
		let sign_exp = if a.is_none() { json!(null) } else { r["analog"].clone() };
		out.cmp("Action:sign:value", ctx, &sign_exp, &json!(a.sign()));
		// value(): the payload
		let val_exp = if a.is_none() { json!(null) } else { json!(r["ratio"].as_i64().unwrap().abs()) };
		out.cmp("Action:value:value", ctx, &val_exp, &json!(a.value()));
		// ratio() = num/255 exactly as computed in floating point, sign of zero included for Sell(0)
		let num = r["ratio"].as_i64().unwrap();
		match a.ratio() {
			None => {
				out.cmp("Action:ratio:value", ctx, &json!(true), &r["none"]);
			}
			Some(x) => {
				let e = num as ValueType / 255.0;
				out.checked += 1;
				if !(x == e && x.abs() <= 1.0) || a.is_none() {
					out.mismatch("Action:ratio:value", json!({"a": code(a), "expected": e, "actual": x}));
				}
				// from(ratio(a)) == a
				let back = catch(|| Action::from(x)).unwrap_or(Action::None);
				out.checked += 1;
				if catch(|| back != a).unwrap_or(true) || (code(back) != code(a) && num != 0) {
					out.mismatch("Action:from_ratio:roundtrip", json!({"a": code(a), "ratio": x, "back": code(back)}));
				}
			}
		}
		let sub: Vec<i64> = seq.iter().map(|&b| catch(|| code(a - b)).unwrap_or(9999)).collect();
		let eq: Vec<i64> = seq.iter().map(|&b| catch(|| (a == b) as i64).unwrap_or(9999)).collect();
		let cmp: Vec<i64> = seq.iter().map(|&b| catch(|| ord(a.cmp(&b))).unwrap_or(9999)).collect();
		let pc: Vec<i64> = seq.iter().map(|&b| catch(|| a.partial_cmp(&b).map_or(7, ord)).unwrap_or(9999)).collect();
		for (name, act) in [("sub", &sub), ("eq", &eq), ("cmp", &cmp), ("partial_cmp", &pc)] {
			let exp = &r[if name == "partial_cmp" { "cmp" } else { name }];
			let expv: Vec<i64> = exp.as_array().unwrap().iter().map(|x| x.as_i64().unwrap()).collect();
			for (i, (e, g)) in expv.iter().zip(act.iter()).enumerate() {
				out.checked += 1;
				if e != g {
					out.mismatch(&format!("Action:{name}:value"), json!({"a": code(a), "b": code(seq[i]), "expected": e, "actual": g}));
				}
			}
		}
	}
	// From<i8>, From<bool>, From<Option<..>>, From<&T>, from_analog: complete over i8
	for v in i8::MIN..=i8::MAX {
		let exp = if v == 0 { 600 } else if v > 0 { 255 } else { -256 };
		out.cmp("Action:from_i8:value", || json!({"v": v}), &json!(exp), &json!(code(Action::from(v))));
		out.cmp("Action:from_analog:value", || json!({"v": v}), &json!(exp), &json!(code(Action::from_analog(v))));
		out.cmp("Action:from_opt_i8:value", || json!({"v": v}), &json!(exp), &json!(code(Action::from(Some(v)))));
		out.cmp("Action:from_ref_i8:value", || json!({"v": v}), &json!(exp), &json!(code(Action::from(&v))));
	}
	out.cmp("Action:from_bool:value", || json!({}), &json!([255, 600]), &json!([code(Action::from(true)), code(Action::from(false))]));
	out.cmp("Action:from_none:value", || json!({}), &json!([600, 600, 600, 600]),
		&json!([code(Action::from(None::<i8>)), code(Action::from(None::<f64>)), code(Action::from(None::<f32>)), code(Action::default())]));
	let specials: [(f64, i64); 12] = [(f64::NAN, 600), (f64::INFINITY, 255), (f64::NEG_INFINITY, -256), (f64::MAX, 255),
		(f64::MIN, -256), (0.0, 0), (-0.0, -1), (1e7, 255), (-1e7, -256), (f64::MIN_POSITIVE, 0), (-f64::MIN_POSITIVE, -1), (-1e300, -256)];
	for (v, exp) in specials {
		out.cmp("Action:from_f64:special", || json!({"v": format!("{v:e}")}), &json!(exp), &json!(catch(|| code(Action::from(v))).unwrap_or(9999)));
		out.cmp("Action:from_f32:special", || json!({"v": format!("{v:e}")}), &json!(exp), &json!(catch(|| code(Action::from(v as f32))).unwrap_or(9999)));
		// the Option / reference forms go through the same conversion
		out.cmp("Action:from_opt_f64:special", || json!({"v": format!("{v:e}")}), &json!(exp), &json!(catch(|| code(Action::from(Some(v)))).unwrap_or(9999)));
		out.cmp("Action:from_opt_f32:special", || json!({"v": format!("{v:e}")}), &json!(exp), &json!(catch(|| code(Action::from(Some(v as f32)))).unwrap_or(9999)));
		out.cmp("Action:from_ref_f64:special", || json!({"v": format!("{v:e}")}), &json!(exp), &json!(catch(|| code(Action::from(&v))).unwrap_or(9999)));
		out.cmp("Action:from_valuetype:special", || json!({"v": format!("{v:e}")}), &json!(exp), &json!(catch(|| code(Action::from(v as yata::core::ValueType))).unwrap_or(9999)));
	}
	out.summary(json!({"rows": rows.len()}));
}

/// `yv action-probe <law>`: evaluates a law on the REAL type for all pairs / edge triples and prints the violating tuples
pub fn probe(args: &[String]) {
	let law = args[0].as_str();
	let seq = all();
	let mut bad: Vec<Value> = Vec::new();
	match law {
		"eq-ord-consistent" => {
			for &a in &seq {
				for &b in &seq {
					if catch(|| (a == b) != (a.cmp(&b) == Ordering::Equal)).unwrap_or(true) {
						bad.push(json!([code(a), code(b)]));
					}
				}
			}
		}
		"cmp-transitive" => {
			let edge: Vec<Action> = [600, 0, 1, 2, 127, 128, 254, 255, -1, -2, -3, -128, -129, -255, -256].iter().map(|&c| decode(c)).collect();
			for &a in &edge {
				for &b in &edge {
					for &c in &edge {
						if catch(|| a.cmp(&b) != Ordering::Greater && b.cmp(&c) != Ordering::Greater && a.cmp(&c) == Ordering::Greater).unwrap_or(true) {
							bad.push(json!([code(a), code(b), code(c)]));
						}
					}
				}
			}
		}
		_ => panic!("unknown law"),
	}
	println!("{}", json!({"kind":"probe","law":law,"violations":bad}));
}

// ---------------------------------------------------------------------------------------------------------------
// `yv action-steps <out.ndjson> [f32-stride]`: From<f32> / From<f64> as a STEP FUNCTION of the bit pattern.
// Every non-NaN f32 pattern is visited in numeric order (-inf .. -0, +0 .. +inf; 4 278 190 082 patterns) and the
// maximal runs of equal results are recorded with their two end points as exact dyadic rationals m * 2^e; all NaN
// patterns are visited too.  For f64 the same is done on windows of +-W patterns around every rational break
// point (2k+1)/510, every fixed point k/255, +-1, +-0 (subnormals) and the two ends of the line.
// Trace_ActionSteps.tla decides every run from its end points with exact integer arithmetic.

fn limbs16(mut o: u64, n: usize) -> Vec<u64> {
	let mut v = Vec::with_capacity(n);
	for _ in 0..n {
		v.push(o & 0xFFFF);
		o >>= 16;
	}
	v
}
fn limbs1e4(mut m: u64) -> Vec<u64> {
	let mut v = Vec::new();
	while m > 0 {
		v.push(m % 10000);
		m /= 10000;
	}
	v
}
const H32: u64 = 0x7F80_0001; // non-NaN patterns of one sign (f32)
const H64: u64 = 0x7FF0_0000_0000_0001;
fn bits32(o: u64) -> u32 {
	if o < H32 { 0x8000_0000 | (H32 - 1 - o) as u32 } else { (o - H32) as u32 }
}
fn bits64(o: u128) -> u64 {
	let h = H64 as u128;
	if o < h { 0x8000_0000_0000_0000 | (h - 1 - o) as u64 } else { (o - h) as u64 }
}
fn ord64(b: u64) -> u128 {
	let h = H64 as u128;
	if b >> 63 == 1 { h - 1 - (b & 0x7FFF_FFFF_FFFF_FFFF) as u128 } else { h + b as u128 }
}
fn point32(o: u64) -> Value {
	let b = bits32(o);
	let (neg, ex, ma) = (b >> 31 == 1, ((b >> 23) & 0xFF) as i64, (b & 0x7F_FFFF) as u64);
	let (cls, m, e) = if ex == 255 { ("inf", 0, 0) } else if ex == 0 { ("fin", ma, -149) } else { ("fin", ma | 1 << 23, ex - 150) };
	json!({"o": limbs16(o, 2), "neg": neg, "cls": cls, "m": limbs1e4(m), "e": e, "bits": format!("{b:08x}")})
}
fn point64(o: u128) -> Value {
	let b = bits64(o);
	let (neg, ex, ma) = (b >> 63 == 1, ((b >> 52) & 0x7FF) as i64, b & 0xF_FFFF_FFFF_FFFF);
	let (cls, m, e) = if ex == 2047 { ("inf", 0, 0) } else if ex == 0 { ("fin", ma, -1074) } else { ("fin", ma | 1 << 52, ex - 1075) };
	let lo = (o & 0xFFFF_FFFF_FFFF_FFFF) as u64;
	let mut ol = limbs16(lo, 4);
	ol.push((o >> 64) as u64);
	json!({"o": ol, "neg": neg, "cls": cls, "m": limbs1e4(m), "e": e, "bits": format!("{b:016x}")})
}
fn act32(o: u64, form: u8) -> i64 {
	let v = f32::from_bits(bits32(o));
	catch(|| code(match form { 0 => Action::from(v), 1 => Action::from(Some(v)), _ => Action::from(&v) })).unwrap_or(9999)
}
fn act64(o: u128, form: u8) -> i64 {
	let v = f64::from_bits(bits64(o));
	catch(|| code(match form { 0 => Action::from(v), 1 => Action::from(Some(v)), _ => Action::from(&v) })).unwrap_or(9999)
}

pub fn steps(args: &[String]) {
	use std::io::Write;
	let mut f = std::io::BufWriter::new(std::fs::File::create(&args[0]).unwrap());
	let w64: u128 = args.get(1).and_then(|s| s.parse().ok()).unwrap_or(3000);
	// ---- f32: every pattern, 16 threads over contiguous ordinal ranges; the Option / reference forms on every 251st
	let n32 = 2 * H32;
	let nthreads = 16u64;
	let chunks: Vec<(u64, u64)> = (0..nthreads).map(|i| (n32 * i / nthreads, n32 * (i + 1) / nthreads)).collect();
	let parts: Vec<(Vec<(u64, u64, i64)>, u64)> = std::thread::scope(|s| {
		let hs: Vec<_> = chunks.iter().map(|&(a, b)| s.spawn(move || {
			let mut runs: Vec<(u64, u64, i64)> = Vec::new();
			let mut forms_bad = 0u64;
			let (mut lo, mut cur) = (a, act32(a, 0));
			for o in a + 1..b {
				let c = act32(o, 0);
				if o % 251 == 0 && (act32(o, 1) != c || act32(o, 2) != c) {
					forms_bad += 1;
				}
				if c != cur {
					runs.push((lo, o - 1, cur));
					lo = o;
					cur = c;
				}
			}
			runs.push((lo, b - 1, cur));
			(runs, forms_bad)
		})).collect();
		hs.into_iter().map(|h| h.join().unwrap()).collect()
	});
	let mut runs: Vec<(u64, u64, i64)> = Vec::new();
	let mut forms_bad = 0;
	for (p, fb) in parts {
		forms_bad += fb;
		for r in p {
			match runs.last_mut() {
				Some(l) if l.2 == r.2 && l.1 + 1 == r.0 => l.1 = r.1,
				_ => runs.push(r),
			}
		}
	}
	writeln!(f, "{}", json!({"ev":"group","ty":"f32","grp":"f32:all","from":limbs16(0,2),"to":limbs16(n32-1,2),"full":true,"forms_bad":forms_bad})).unwrap();
	for (lo, hi, c) in &runs {
		writeln!(f, "{}", json!({"ev":"run","ty":"f32","grp":"f32:all","lo":point32(*lo),"hi":point32(*hi),"act":c})).unwrap();
	}
	writeln!(f, "{}", json!({"ev":"end","ty":"f32","grp":"f32:all","to":limbs16(n32-1,2)})).unwrap();
	// NaN patterns: 2 * (2^23 - 1)
	let (mut cnt, mut bad) = (0u64, 0u64);
	for sign in [0u32, 0x8000_0000] {
		for ma in 1..(1u32 << 23) {
			let v = f32::from_bits(sign | 0x7F80_0000 | ma);
			cnt += 1;
			if catch(|| code(Action::from(v))).unwrap_or(9999) != 600 || (ma % 251 == 0 && catch(|| code(Action::from(Some(v)))).unwrap_or(9999) != 600) {
				bad += 1;
			}
		}
	}
	writeln!(f, "{}", json!({"ev":"nan","ty":"f32","count":cnt,"bad":bad})).unwrap();
	let mut total_runs = runs.len();
	// ---- f64: windows around the interesting reals
	let mut centres: Vec<(String, f64)> = Vec::new();
	for k in 0..=255i64 {
		centres.push((format!("fix{k}"), k as f64 / 255.0));
		centres.push((format!("brk{k}"), (2 * k + 1) as f64 / 510.0));
	}
	for (n, v) in [("one", 1.0f64), ("zero", 0.0), ("inf", f64::INFINITY), ("minpos", f64::MIN_POSITIVE), ("tiny", 1e-40), ("half", 0.5), ("big", 1e30)] {
		centres.push((n.to_string(), v));
	}
	let n64 = 2 * H64 as u128;
	let mut patterns64 = 0u128;
	for (name, v) in centres {
		for sign in [1.0f64, -1.0] {
			let c = ord64((v * sign).to_bits());
			let (a, b) = (c.saturating_sub(w64), (c + w64).min(n64 - 1));
			let grp = format!("f64:{}{}", if sign < 0.0 { "-" } else { "+" }, name);
			let mut rs: Vec<(u128, u128, i64)> = Vec::new();
			let (mut lo, mut cur) = (a, act64(a, 0));
			for o in a + 1..=b {
				let cc = act64(o, 0);
				if o % 7 == 0 && (act64(o, 1) != cc || act64(o, 2) != cc) {
					forms_bad += 1;
				}
				if cc != cur {
					rs.push((lo, o - 1, cur));
					lo = o;
					cur = cc;
				}
			}
			rs.push((lo, b, cur));
			patterns64 += b - a + 1;
			let pa = point64(a);
			let pb = point64(b);
			writeln!(f, "{}", json!({"ev":"group","ty":"f64","grp":grp,"from":pa["o"],"to":pb["o"],"full":false,"forms_bad":forms_bad})).unwrap();
			for (lo, hi, c) in &rs {
				writeln!(f, "{}", json!({"ev":"run","ty":"f64","grp":grp,"lo":point64(*lo),"hi":point64(*hi),"act":c})).unwrap();
			}
			writeln!(f, "{}", json!({"ev":"end","ty":"f64","grp":grp,"to":pb["o"]})).unwrap();
			total_runs += rs.len();
		}
	}
	// f64 NaN patterns: a sample of payloads, both signs
	let (mut cnt, mut bad) = (0u64, 0u64);
	for sign in [0u64, 1 << 63] {
		for i in 0..52 {
			for ma in [1u64 << i, (1u64 << i) | 1, (1u64 << 52) - 1 - (1u64 << i).min((1 << 52) - 2)] {
				let v = f64::from_bits(sign | 0x7FF0_0000_0000_0000 | ma.max(1));
				cnt += 1;
				if catch(|| code(Action::from(v))).unwrap_or(9999) != 600 {
					bad += 1;
				}
			}
		}
	}
	writeln!(f, "{}", json!({"ev":"nan","ty":"f64","count":cnt,"bad":bad})).unwrap();
	f.flush().unwrap();
	println!("{}", json!({"kind":"summary","f32_patterns":n32,"f32_nan_patterns":2*((1u64<<23)-1),"f64_patterns":patterns64 as u64,"runs":total_runs,"forms_bad":forms_bad}));
}
