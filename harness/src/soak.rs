//! C07: very long streams with sparse checkpoints (numeric methods for Trace_Num; token subjects compared with a
//! fresh instance primed with the last window).
use crate::methods::*;
use crate::util::*;
use serde_json::{json, Value};

const FIR: &[&str] = &["SMA", "WMA", "SWMA", "TRIMA", "HMA", "LinReg", "Integral", "StDev", "MeanAbsDev", "LinearVolatility", "Momentum", "Derivative"];
const IIR: &[&str] = &["EMA", "DMA", "TMA", "DEMA", "TEMA", "RMA", "WSMA"];

fn depth(subject: &str, n: u64) -> u64 {
	match subject {
		"TRIMA" => 2 * n - 1,
		"HMA" => n + (n as f64).sqrt() as u64 - 1,
		"Momentum" | "Derivative" | "LinearVolatility" => n + 1,
		// (1 - alpha)^K with K = 24/alpha is e^-48: below every allowance
		"RMA" | "WSMA" => 48 * n + 64,      // alpha = 1/n
		s if IIR.contains(&s) => 24 * (n + 1) + 64, // alpha = 2/(n+1)
		_ => n,
	}
}

/// `yv soak-record <seed> <steps> <out.ndjson>`: every subject processes <steps> inputs with regime changes, then a checkpoint
/// (recent inputs + global magnitude) and 24 more steps are logged.
pub fn record(args: &[String]) {
	let seed: u64 = arg(args, 0, "seed");
	let steps: u64 = arg(args, 1, "steps");
	let mut tw = TraceWriter::create(&args[2]);
	let small = args.get(3).map(String::as_str) == Some("small");
	// optional: only this subject (development aid; the rng stream of the others is still consumed so that seeds stay comparable)
	let only = args.get(4).map(String::as_str);
	let mut rng = Rng::new(seed ^ 0x50a4);
	for subject in FIR.iter().chain(IIR.iter()) {
		for &n in &[2u64, 3, 10, 50] {
			if (*subject == "WSMA" && n > 120) || (small && n > 10 && IIR.contains(subject)) {
				continue;
			}
			let p = json!([n]);
			let mut g = Gen::new(rng.u64(), false);
			if only.is_some_and(|o| o != *subject) {
				continue;
			}
			let first = g.input('s');
			let Ok(Ok(mut m)) = build(subject, &p, &first) else { continue };
			let k = depth(subject, n) as usize;
			let mut recent: std::collections::VecDeque<In> = std::collections::VecDeque::with_capacity(k + 1);
			let mut mmax = 0.0f64;
			let mut ok = true;
			for i in 0..steps {
				let x = if i == 0 { first.clone() } else { g.input('s') };
				if let In::S(v) = &x {
					mmax = mmax.max(v.abs());
				}
				if catch(|| m.next(&x)).is_err() {
					tw.ev(json!({"ev":"ckpt","subject":subject,"params":p,"t":i,"warm":[x.fx()],"mmax":fx(mmax),"panic":true}));
					ok = false;
					break;
				}
				recent.push_back(x);
				if recent.len() > k {
					recent.pop_front();
				}
			}
			if !ok {
				continue;
			}
			tw.ev(json!({"ev":"reset"}));
			tw.ev(json!({"ev":"ckpt","subject":subject,"params":p,"t":steps,"warm":recent.iter().map(In::fx).collect::<Vec<Value>>(),"mmax":fx(mmax)}));
			for _ in 0..24 {
				let x = g.input('s');
				if let In::S(v) = &x {
					mmax = mmax.max(v.abs());
				}
				match catch(|| m.next(&x)) {
					Ok(y) => tw.ev(json!({"ev":"next","x":x.fx(),"y":y.fx()})),
					Err(e) => {
						tw.ev(json!({"ev":"next","x":x.fx(),"y":{"panic": e}}));
						break;
					}
				}
			}
		}
	}
	let n = tw.finish();
	println!("{}", json!({"kind":"summary","events":n}));
}
