//! yata::core::Window — direction A (replay of TLC's observer tables) and direction B (recording).
use crate::util::*;
use serde::{de::DeserializeOwned, Serialize};
use serde_json::{json, Value};
use yata::core::{PeriodType, Window};

pub trait Label: Clone + PartialEq + std::fmt::Debug + Serialize + DeserializeOwned {
	fn mk(k: u64) -> Self;
	fn id(&self) -> u64;
	fn ty() -> &'static str;
}
impl Label for u32 {
	fn mk(k: u64) -> Self {
		k as u32
	}
	fn id(&self) -> u64 {
		*self as u64
	}
	fn ty() -> &'static str {
		"u32"
	}
}
impl Label for String {
	fn mk(k: u64) -> Self {
		format!("L{k}")
	}
	fn id(&self) -> u64 {
		self[1..].parse().unwrap()
	}
	fn ty() -> &'static str {
		"String"
	}
}
impl Label for (u8, u64) {
	fn mk(k: u64) -> Self {
		((k % 251) as u8, k)
	}
	fn id(&self) -> u64 {
		self.1
	}
	fn ty() -> &'static str {
		"(u8,u64)"
	}
}
impl Label for f64 {
	fn mk(k: u64) -> Self {
		k as f64 + 0.5
	}
	fn id(&self) -> u64 {
		(*self - 0.5) as u64
	}
	fn ty() -> &'static str {
		"f64"
	}
}

fn lab<T: Label>(r: Result<Option<&T>, String>) -> Value {
	match r {
		Ok(Some(v)) => some(json!(v.id())),
		Ok(None) => none(),
		Err(_) => panic_v(),
	}
}

/// Other ways of consuming an iterator positioned by `mk`: nth(1), and the remaining elements drained through
/// `fold` (for_each), `try_fold` (all) and `collect` -- all three must agree, else the disagreement is reported.
/// the splits at which the remainder is drained (all of them for small windows; the table says "skip" elsewhere)
fn drain_here(n: u64, k: u64) -> bool {
	n <= 12 || k <= 2 || k + 2 >= n
}

fn drains<'a, T: Label + 'a, I: Iterator<Item = &'a T>>(full: bool, mk: impl Fn() -> I) -> (Value, Value) {
	let nth1 = lab(catch(|| mk().nth(1)));
	if !full {
		return (nth1, json!(["skip"]));
	}
	let a = catch(|| {
		let mut v = Vec::new();
		mk().for_each(|x| v.push(x.id()));
		v
	});
	let b = catch(|| {
		let mut v = Vec::new();
		let _ = mk().all(|x| {
			v.push(x.id());
			true
		});
		v
	});
	let c = catch(|| mk().map(Label::id).collect::<Vec<u64>>());
	let rest = match (a, b, c) {
		(Ok(a), Ok(b), Ok(c)) if a == b && b == c => json!(a),
		(a, b, c) => json!({"for_each": a.ok(), "all": b.ok(), "collect": c.ok()}),
	};
	(nth1, rest)
}

/// (private) index of the oldest element, as exported by Serialize
fn ser_index<T: Label>(w: &Window<T>) -> u64 {
	serde_json::to_value(w).unwrap()["index"].as_u64().unwrap()
}

/// Every observer of a window, in the shape of MC_Window's ROW record.
pub fn observe<T: Label>(w: &Window<T>) -> Value {
	let n = w.len() as u64;
	let get: Vec<Value> = (0..=n + 1).map(|i| lab(catch(|| w.get(i as PeriodType)))).collect();
	let idx: Vec<Value> = (0..=n + 1).map(|i| lab(catch(|| Some(&w[i as PeriodType])))).collect();
	let mut iter = Vec::new();
	let mut rev = Vec::new();
	for k in 0..=n {
		// three fresh iterators per split: one is asked size_hint and advanced, one counted, one `last`ed
		let mut a = w.iter();
		let mut b = w.iter();
		let mut c = w.iter();
		for _ in 0..k {
			let _ = catch(|| a.next());
			let _ = catch(|| b.next());
			let _ = catch(|| c.next());
		}
		let hint = a.size_hint();
		let len = a.len() as u64;
		let nxt = lab(catch(|| a.next()));
		let count = b.count() as u64;
		let last = lab(catch(|| c.last()));
		let h = if hint.1 == Some(hint.0) && len == hint.0 as u64 && count == len { json!(len) } else { json!([hint.0, hint.1, len, count]) };
		let (nth1, rest) = drains(drain_here(n, k), || {
			let mut it = w.iter();
			for _ in 0..k {
				let _ = it.next();
			}
			it
		});
		iter.push(json!({"hint": h, "last": last, "nxt": nxt, "nth1": nth1, "rest": rest}));

		let mut a = w.iter_rev();
		let mut b = w.iter_rev();
		let mut c = w.iter_rev();
		for _ in 0..k {
			let _ = catch(|| a.next());
			let _ = catch(|| b.next());
			let _ = catch(|| c.next());
		}
		let hint = a.size_hint();
		let len = a.len() as u64;
		let nxt = lab(catch(|| a.next()));
		let count = b.count() as u64;
		let last = lab(catch(|| c.last()));
		let h = if hint.1 == Some(hint.0) && len == hint.0 as u64 && count == len { json!(len) } else { json!([hint.0, hint.1, len, count]) };
		let (nth1, rest) = drains(drain_here(n, k), || {
			let mut it = w.iter_rev();
			for _ in 0..k {
				let _ = it.next();
			}
			it
		});
		rev.push(json!({"hint": h, "last": last, "nxt": nxt, "nth1": nth1, "rest": rest}));
	}
	let buf: Vec<u64> = w.as_slice().iter().map(Label::id).collect();
	json!({
		"newest": lab(catch(|| Some(w.newest()))),
		"oldest": lab(catch(|| Some(w.oldest()))),
		"len": n,
		"empty": w.is_empty(),
		"get": get,
		"idx": idx,
		"iter": iter,
		"rev": rev,
		"buf": buf,
		"index": ser_index(w),
	})
}

const FIELDS: [&str; 10] = ["newest", "oldest", "len", "empty", "get", "idx", "iter", "rev", "buf", "index"];

fn compare_obs(out: &mut Sink, ty: &str, via: &str, row: &Value, obs: &Value) {
	for f in FIELDS {
		// a rebuilt window may use another physical layout: its buffer/index are compared through the readings
		if via != "direct" && (f == "buf" || f == "index") {
			continue;
		}
		let key = format!("Window:{f}:{via}");
		let mut act = obs[f].clone();
		if f == "iter" || f == "rev" {
			// the table carries the drained remainder only for some splits
			for (k, e) in row[f].as_array().unwrap().iter().enumerate() {
				if e["rest"] == json!(["skip"]) {
					act[k]["rest"] = json!(["skip"]);
				}
			}
		}
		out.cmp(&key, || json!({"type": ty, "n": row["n"], "p": row["p"], "field": f}), &row[f], &act);
	}
}

fn replay_type<T: Label>(rows: &[Value], out: &mut Sink) {
	// rows are grouped by capacity and ordered by push count
	let mut i = 0;
	while i < rows.len() {
		let n = rows[i]["n"].as_u64().unwrap();
		let mut w: Window<T> = if n == 0 && i % 2 == 0 { Window::empty() } else { Window::new(n as PeriodType, T::mk(0)) };
		let mut p = 0u64;
		while i < rows.len() && rows[i]["n"].as_u64().unwrap() == n {
			let row = &rows[i];
			assert_eq!(row["p"].as_u64().unwrap(), p, "rows must be ordered by p");
			compare_obs(out, T::ty(), "direct", row, &observe(&w));
			// clone
			compare_obs(out, T::ty(), "clone", row, &observe(&w.clone()));
			// rebuilt from (as_slice, oldest index)
			let idx = ser_index(&w) as PeriodType;
			let parts: Box<[T]> = w.as_slice().to_vec().into_boxed_slice();
			match catch(|| Window::from_parts(parts, idx)) {
				Ok(r) => compare_obs(out, T::ty(), "from_parts", row, &observe(&r)),
				Err(_) if n == 0 => {} // documented: from_parts panics when index >= len (no element to point at)
				Err(e) => out.mismatch("Window:from_parts:panic", json!({"n": n, "p": p, "msg": e})),
			}
			// serde round trip through text
			let text = serde_json::to_string(&w).unwrap();
			match catch(|| serde_json::from_str::<Window<T>>(&text)) {
				Ok(Ok(r)) => compare_obs(out, T::ty(), "serde", row, &observe(&r)),
				Ok(Err(e)) => out.mismatch("Window:serde:err", json!({"n": n, "p": p, "msg": e.to_string(), "text": text})),
				Err(e) => out.mismatch("Window:serde:panic", json!({"n": n, "p": p, "msg": e})),
			}
			// push the next label and compare the returned value with the row's prediction
			let pushed = catch(|| w.push(T::mk(p + 1)));
			let act = match &pushed {
				Ok(v) => some(json!(v.id())),
				Err(_) => panic_v(),
			};
			out.cmp("Window:push:out", || json!({"type": T::ty(), "n": n, "p": p}), &row["pushout"], &act);
			p += 1;
			i += 1;
		}
	}
}

/// `yv window-replay <rows.ndjson>`
pub fn replay(args: &[String]) {
	let mut rows = read_lines(&args[0]);
	rows.sort_by_key(|r| (r["n"].as_u64().unwrap(), r["p"].as_u64().unwrap()));
	let mut out = Sink::new();
	replay_type::<u32>(&rows, &mut out);
	replay_type::<String>(&rows, &mut out);
	replay_type::<(u8, u64)>(&rows, &mut out);
	replay_type::<f64>(&rows, &mut out);
	out.summary(json!({"rows": rows.len(), "types": 4}));
}

// ------------------------------------------------------------------ direction B

struct Prog<T: Label> {
	ws: Vec<Option<Window<T>>>,
	next_label: u64,
}

fn ids<T: Label>(xs: &[T]) -> Vec<u64> {
	xs.iter().map(Label::id).collect()
}

fn iter_event<T: Label>(name: &str, h: usize, w: &Window<T>, k: u64, rev: bool) -> Value {
	macro_rules! run {
		($mk:expr) => {{
			let mut a = $mk;
			let mut b = $mk;
			let mut c = $mk;
			let mut outs = Vec::new();
			for _ in 0..k {
				outs.push(lab(catch(|| a.next())));
				let _ = catch(|| b.next());
				let _ = catch(|| c.next());
			}
			let hint = a.size_hint();
			let nxt = lab(catch(|| a.next()));
			let count = b.count();
			let last = lab(catch(|| c.last()));
			let pos = || {
				let mut it = $mk;
				for _ in 0..k {
					let _ = it.next();
				}
				it
			};
			let nth1 = lab(catch(|| pos().nth(1)));
			let mut r1 = Vec::new();
			pos().for_each(|x| r1.push(x.id()));
			let mut r2 = Vec::new();
			let _ = pos().all(|x| {
				r2.push(x.id());
				true
			});
			let r3: Vec<u64> = pos().map(Label::id).collect();
			json!({"ev": name, "h": h, "k": k, "outs": outs, "hint": hint.0, "hint_hi": hint.1.map_or(-1i64, |x| x as i64),
				"count": count, "last": last, "nxt": nxt, "nth1": nth1, "rest": r1, "rest2": r2, "rest3": r3})
		}};
	}
	if rev {
		run!(w.iter_rev())
	} else {
		run!(w.iter())
	}
}

fn record_type<T: Label>(rng: &mut Rng, tw: &mut TraceWriter, programs: u64, steps: u64) {
	#[allow(non_snake_case)]
	let MAXP: u64 = maxp();
	let safe = safe_only();
	for _ in 0..programs {
		tw.ev(json!({"ev":"reset","type":T::ty()}));
		let mut pr: Prog<T> = Prog { ws: Vec::new(), next_label: 1 };
		// first handle
		let n = match rng.below(10) {
			0 => 0,
			1 => MAXP - 1,
			2 => MAXP - 2,
			3 => rng.below(4),
			4 if !safe => MAXP, // must panic in a debug build
			_ => rng.below(MAXP.min(40)),
		};
		let r = catch(|| Window::new(n as PeriodType, T::mk(0)));
		tw.ev(json!({"ev":"new","h":0,"n":n,"v":0,"res": if r.is_ok() {"ok"} else {"panic"}}));
		match r {
			Ok(w) => pr.ws.push(Some(w)),
			Err(_) => continue,
		}
		for _ in 0..steps {
			let live: Vec<usize> = (0..pr.ws.len()).filter(|&i| pr.ws[i].is_some()).collect();
			let h = *rng.pick(&live);
			let new_h = pr.ws.len();
			let n = pr.ws[h].as_ref().unwrap().len() as u64;
			let mut op = rng.below(100);
			if safe {
				// C19: leave out the calls on which the safe build panics (empty-window push/newest/oldest/index)
				if n == 0 && (op < 50 || (60..=66).contains(&op)) {
					op = 67;
				}
			}
			if op < 40 {
				let x = pr.next_label;
				pr.next_label += 1;
				let w = pr.ws[h].as_mut().unwrap();
				let y = match catch(|| w.push(T::mk(x))) {
					Ok(v) => some(json!(v.id())),
					Err(_) => panic_v(),
				};
				tw.ev(json!({"ev":"push","h":h,"x":x,"y":y}));
				continue;
			}
			let w = pr.ws[h].as_ref().unwrap();
			let some_i = |rng: &mut Rng| match rng.below(6) {
				0 => n,
				1 => n + 1,
				2 => MAXP,
				3 => n.saturating_sub(1),
				_ => rng.below(n.max(1)),
			};
			match op {
				40..=44 => tw.ev(json!({"ev":"newest","h":h,"y":lab(catch(|| Some(w.newest())))})),
				45..=49 => tw.ev(json!({"ev":"oldest","h":h,"y":lab(catch(|| Some(w.oldest())))})),
				50..=59 => {
					let i = some_i(rng);
					tw.ev(json!({"ev":"get","h":h,"i":i,"y":lab(catch(|| w.get(i as PeriodType)))}));
				}
				60..=66 => {
					let mut i = some_i(rng);
					if safe && i >= n {
						i = n - 1; // an out-of-range Index panics in the safe build
					}
					tw.ev(json!({"ev":"index","h":h,"i":i,"y":lab(catch(|| Some(&w[i as PeriodType])))}));
				}
				67 => tw.ev(json!({"ev":"len","h":h,"y":w.len()})),
				68 => tw.ev(json!({"ev":"is_empty","h":h,"y":w.is_empty()})),
				69..=76 => {
					let k = match rng.below(5) {
						0 => 0,
						1 => n,
						2 => n + 1,
						3 => n.saturating_sub(1),
						_ => rng.below(n + 2),
					};
					let rev = rng.chance(0.5);
					tw.ev(iter_event(if rev { "rev" } else { "iter" }, h, w, k, rev));
				}
				77..=80 => {
					tw.ev(json!({"ev":"export","h":h,"buf":ids(w.as_slice()),"index":ser_index(w)}));
				}
				81..=84 => {
					// faithful rebuild, or an adversarial (buf, index) pair
					let (buf, index): (Vec<T>, u64) = if rng.chance(0.6) {
						(w.as_slice().to_vec(), ser_index(w))
					} else {
						let len = *rng.pick(&[0, 1, 2, 3, MAXP - 2, MAXP - 1, if safe { MAXP - 1 } else { MAXP }, if safe { 5 } else { MAXP + 1 }]);
						let index = *rng.pick(&[0, 1, len.saturating_sub(1), len, len + 1, MAXP]);
						((0..len).map(|j| T::mk(1000 + j)).collect(), index.min(MAXP))
					};
					let b = ids(&buf);
					let r = catch(|| Window::from_parts(buf.into_boxed_slice(), index as PeriodType));
					tw.ev(json!({"ev":"from_parts","h":h,"as":new_h,"buf":b,"index":index,"res": if r.is_ok() {"ok"} else {"panic"}}));
					pr.ws.push(r.ok());
				}
				85..=88 => {
					let text = serde_json::to_string(w).unwrap();
					let r = catch(|| serde_json::from_str::<Window<T>>(&text));
					let res = match &r {
						Ok(Ok(_)) => "ok",
						Ok(Err(_)) => "err",
						Err(_) => "panic",
					};
					tw.ev(json!({"ev":"serde","h":h,"as":new_h,"res":res}));
					pr.ws.push(r.ok().and_then(Result::ok));
				}
				89..=92 => {
					let len = *rng.pick(&[0, 1, 2, 3, 5, MAXP - 2, MAXP - 1, if safe { 4 } else { MAXP }, if safe { 6 } else { MAXP + 1 }, if safe { 7 } else { MAXP + 45 }]);
					let index = *rng.pick(&[0, 0, 1, len.saturating_sub(1), len, len + 1, MAXP - 1, MAXP]);
					let buf: Vec<T> = (0..len).map(|j| T::mk(2000 + j)).collect();
					let doc = json!({"buf": buf, "index": index.min(MAXP)});
					let r = catch(|| serde_json::from_value::<Window<T>>(doc));
					let res = match &r {
						Ok(Ok(_)) => "ok",
						Ok(Err(_)) => "err",
						Err(_) => "panic",
					};
					tw.ev(json!({"ev":"deser","h":h,"as":new_h,"buf":ids(&buf),"index":index.min(MAXP),"res":res}));
					pr.ws.push(r.ok().and_then(Result::ok));
				}
				93..=95 => {
					tw.ev(json!({"ev":"clone","h":h,"as":new_h,"res":"ok"}));
					// half of the clones go through `clone_from` onto a window of the same capacity in another ring phase
					let c = if rng.chance(0.5) && w.len() > 0 {
						let cap = w.len();
						let mut d = Window::new(cap, T::mk(7777));
						for j in 0..rng.below(cap as u64 + 2) {
							d.push(T::mk(7000 + j));
						}
						d.clone_from(w);
						d
					} else {
						w.clone()
					};
					pr.ws.push(Some(c));
				}
				96..=97 => {
					let len = *rng.pick(&[0, 1, 4, MAXP - 1, if safe { 3 } else { MAXP }]);
					let buf: Vec<T> = (0..len).map(|j| T::mk(3000 + j)).collect();
					let b = ids(&buf);
					let r = catch(|| Window::from(buf));
					tw.ev(json!({"ev":"from_vec","h":h,"as":new_h,"buf":b,"res": if r.is_ok() {"ok"} else {"panic"}}));
					pr.ws.push(r.ok());
				}
				_ => {
					tw.ev(json!({"ev":"empty","h":new_h}));
					pr.ws.push(Some(Window::empty()));
				}
			}
		}
	}
}

/// `yv window-record <seed> <programs> <steps> <out.ndjson>`
pub fn record(args: &[String]) {
	let seed: u64 = arg(args, 0, "seed");
	let programs: u64 = arg(args, 1, "programs");
	let steps: u64 = arg(args, 2, "steps");
	let mut tw = TraceWriter::create(&args[3]);
	let mut rng = Rng::new(seed);
	record_type::<u32>(&mut rng, &mut tw, programs, steps);
	record_type::<String>(&mut rng, &mut tw, programs / 2 + 1, steps);
	record_type::<(u8, u64)>(&mut rng, &mut tw, programs / 2 + 1, steps);
	let n = tw.finish();
	println!("{}", json!({"kind":"summary","events":n}));
}
