//! C15: related runs of the moving averages, logged side by side for Trace_Laws.
use crate::methods::*;
use crate::util::*;
use serde_json::{json, Value};

const KINDS: &[&str] = &["SMA", "WMA", "HMA", "RMA", "EMA", "DMA", "DEMA", "TMA", "TEMA", "WSMA", "SMM", "SWMA", "TRIMA", "LinReg", "Vidya", "Conv", "VWMA"];
const NONNEG: &[&str] = &["SMA", "WMA", "SWMA", "TRIMA", "EMA", "DMA", "TMA", "RMA", "WSMA", "SMM", "Vidya", "Conv", "VWMA"];
const LINEAR: &[&str] = &["SMA", "WMA", "SWMA", "TRIMA", "HMA", "LinReg", "EMA", "DMA", "TMA", "DEMA", "TEMA", "RMA", "WSMA", "Conv", "VWMA"];
const IMPULSE: &[&str] = &["SMA", "WMA", "SWMA", "TRIMA", "LinReg", "EMA", "DMA", "TMA", "DEMA", "TEMA", "RMA", "WSMA"];

fn params(kind: &str, n: u64, rng: &mut Rng) -> Value {
	if kind == "Conv" {
		json!((0..n.min(40)).map(|_| bits((rng.unit() * 3.0 + 0.1) * 1.3)).collect::<Vec<_>>())
	} else {
		json!([n])
	}
}
fn mk(kind: &str, p: &Value, init: f64, vol: f64) -> Option<Box<dyn DynM>> {
	let i = if kind == "VWMA" { In::P(init, vol) } else { In::S(init) };
	match build(kind, p, &i) {
		Ok(Ok(m)) => Some(m),
		_ => None,
	}
}
fn step(m: &mut Box<dyn DynM>, kind: &str, x: f64, vol: f64) -> f64 {
	let i = if kind == "VWMA" { In::P(x, vol) } else { In::S(x) };
	match catch(|| m.next(&i)) {
		Ok(o) => o.f(),
		Err(_) => f64::NAN,
	}
}
fn min_n(kind: &str) -> u64 {
	if kind == "HMA" || kind == "LinReg" { 2 } else { 1 }
}

/// `yv laws-record <seed> <rounds> <steps> <out.ndjson>`
pub fn record(args: &[String]) {
	let seed: u64 = arg(args, 0, "seed");
	let rounds: u64 = arg(args, 1, "rounds");
	let steps: u64 = arg(args, 2, "steps");
	let mut tw = TraceWriter::create(&args[3]);
	let mut rng = Rng::new(seed ^ 0x1a35);
	// optional 5th argument: only this kind (more programs of one kind; lengths and laws still cycle with the round)
	let only = args.get(4).map(String::as_str);
	for r in 0..rounds {
		for (ki, kind) in KINDS.iter().enumerate() {
			if only.is_some_and(|o| o != *kind) {
				continue;
			}
			let maxn = if *kind == "WSMA" { 127 } else { 254 };
			let n = match (r + ki as u64) % 5 {
				0 => min_n(kind),
				1 => rng.range(min_n(kind) as i64, 9) as u64,
				2 => rng.range(10, 40) as u64,
				3 => *rng.pick(&[63u64, 64, 100, 127]),
				_ => maxn - rng.below(2),
			};
			let p = params(kind, n, &mut rng);
			let laws: Vec<&str> = ["affine", "range", "super", "const"]
				.into_iter()
				.filter(|l| match *l {
					"range" => NONNEG.contains(kind),
					"super" => LINEAR.contains(kind),
					_ => true,
				})
				.collect();
			let law = laws[((seed + r + ki as u64 + if only.is_some() { r / 5 } else { 0 }) % laws.len() as u64) as usize];
			let mut g = Gen::new(rng.u64(), false);
			let mut g2 = Gen::new(rng.u64(), false);
			let a = *rng.pick(&[-2.0, -1.0, 2.0, 3.0, 0.5, -0.37, 1.0]);
			let b = *rng.pick(&[-3.0, 0.0, 5.0, 1234.5, -0.001]);
			let x0 = g.scalar();
			let z0 = g2.scalar();
			let vol0 = (rng.unit() * 50.0).floor() + 1.0;
			let (i1, i2, i3) = match law {
				"affine" => (x0, a * x0 + b, 0.0),
				"super" => (x0, z0, x0 + z0),
				_ => (x0, 0.0, 0.0),
			};
			// Correct floating-point code is exactly invariant under scaling of its inputs by a power of two: some programs run the
			// real methods on values scaled by 2^e and log the unscaled values (an absolute constant hidden in the code shows up)
			let e: i32 = if cfg!(feature = "value_type_f32") { 0 } else { [0, 0, -60, 0, 50, 0, -45][((seed + r * 3 + ki as u64) % 7) as usize] };
			let k2 = 2f64.powi(e);
			let (Some(mut m1), Some(mut m2), Some(mut m3)) = (mk(kind, &p, i1 * k2, vol0), mk(kind, &p, i2 * k2, vol0), mk(kind, &p, i3 * k2, vol0)) else { continue };
			// a stream that repeats with a period dividing the window length (the window content recurs exactly)
			let cycle: Option<Vec<f64>> = if rng.chance(0.15) && n >= 2 && n <= 40 {
				let pl = *rng.pick(&[2u64, 3, n, n / 2]).max(&1);
				let pl = if n % pl == 0 { pl } else { n };
				Some((0..pl).map(|_| g.scalar()).collect())
			} else {
				None
			};
			tw.ev(json!({"ev":"law_new","law":law,"kind":kind,"n":n,"a":fx(a),"b":fx(b),"init":fx(x0)}));
			// plateaus whose length sits right at the window length (n - 1, n, n + 1 unchanged inputs between moves)
			let (mut hold, mut xprev, mut zprev) = (0u64, x0, z0);
			for i in 0..steps {
				if hold == 0 && i > 0 && rng.chance(0.06) {
					hold = *rng.pick(&[1u64, n.saturating_sub(2).max(1), n.saturating_sub(1).max(1), n.saturating_sub(1).max(1), n, n + 1]);
					if hold > 45 {
						hold = 2;
					}
				}
				let held = hold > 0;
				hold = hold.saturating_sub(1);
				let x = if i == 0 || law == "const" { x0 } else if let Some(c) = &cycle { c[(i % c.len() as u64) as usize] } else if held { xprev } else { g.scalar() };
				let z = if i == 0 { z0 } else if held && rng.chance(0.5) { zprev } else { g2.scalar() };
				xprev = x;
				zprev = z;
				let vol = if i == 0 { vol0 } else if rng.chance(0.1) { 0.0 } else { (rng.unit() * 50.0).floor() + 1.0 };
				let y1 = step(&mut m1, kind, x * k2, vol) / k2;
				let (y2, y3, zz) = match law {
					"affine" => (step(&mut m2, kind, (a * x + b) * k2, vol) / k2, 0.0, 0.0),
					"super" => (step(&mut m2, kind, z * k2, vol) / k2, step(&mut m3, kind, (x + z) * k2, vol) / k2, z),
					_ => (0.0, 0.0, 0.0),
				};
				if !(y1.is_finite() && y2.is_finite() && y3.is_finite()) {
					// VWMA with zero total volume has no value: stop this program
					if *kind == "VWMA" {
						break;
					}
				}
				let mut e = json!({"ev":"law_step","x":fx(x),"y1":fx(y1),"y2":fx(y2),"y3":fx(y3)});
				if law == "super" {
					e["z"] = fx(zz);
				}
				tw.ev(e);
			}
		}
	}
	let n = tw.finish();
	println!("{}", json!({"kind":"summary","events":n}));
}

/// `yv laws-impulse <lengths: lo> <hi> <out.ndjson>` — impulse responses for every length in lo..=hi
pub fn impulse(args: &[String]) {
	let lo: u64 = arg(args, 0, "lo");
	let hi: u64 = arg(args, 1, "hi");
	let mut tw = TraceWriter::create(&args[2]);
	// optional 4th argument: number of zeros fed before the unit input (a late impulse)
	let pre: u64 = args.get(3).map_or(0, |x| x.parse().expect("pre"));
	for kind in IMPULSE {
		for n in lo..=hi {
			// (lengths a constructor rejects -- WSMA beyond PeriodType::MAX / 2 -- yield no instance and are skipped; an instance
			// that IS returned must have the documented profile of its length)
			if n < min_n(kind) {
				continue;
			}
			let Some(mut m) = mk(kind, &json!([n]), 0.0, 1.0) else { continue };
			tw.ev(json!({"ev":"law_new","law":"impulse","kind":kind,"n":n,"a":fx(0.0),"b":fx(0.0),"init":fx(0.0)}));
			for _ in 0..pre {
				let y = step(&mut m, kind, 0.0, 1.0);
				tw.ev(json!({"ev":"impulse_pre","y":fx(y)}));
			}
			let total = (3 * n).min(2 * n + 40);
			for j in 0..total {
				let y = step(&mut m, kind, if j == 0 { 1.0 } else { 0.0 }, 1.0);
				tw.ev(json!({"ev":"impulse","j":j,"y":fx(y)}));
			}
		}
	}
	// Conv: the impulse response is the weight vector itself (last weight first); kernels with zero weights at either end
	if lo == 1 && pre == 0 {
		let kernels: Vec<Vec<f64>> = vec![
			vec![1.0], vec![1.0, 2.0, 3.0], vec![3.0, 2.0, 1.0], vec![1.0, 1.0, 1.0, 0.0], vec![0.0, 0.0, 2.0, 1.0], vec![0.0, 1.5, 0.0, 0.25, 0.0],
			vec![0.5, -0.25, 1.75], (1..=40).map(|i| (i % 7) as f64 * 0.3).collect(), (1..=254).map(|i| 1.0 + (i % 5) as f64).collect(),
		];
		for w in kernels {
			let p = json!(w.iter().map(|x| bits(*x)).collect::<Vec<_>>());
			let Some(mut m) = mk("Conv", &p, 0.0, 1.0) else { continue };
			tw.ev(json!({"ev":"law_new","law":"impulse","kind":"Conv","n":w.len(),"a":fx(0.0),"b":fx(0.0),"init":fx(0.0),
				"w": w.iter().map(|x| fx(*x)).collect::<Vec<_>>()}));
			for j in 0..(w.len() as u64 + 3) {
				let y = step(&mut m, "Conv", if j == 0 { 1.0 } else { 0.0 }, 1.0);
				tw.ev(json!({"ev":"impulse","j":j,"y":fx(y)}));
			}
		}
	}
	let n = tw.finish();
	println!("{}", json!({"kind":"summary","events":n}));
}
