//! A small in-memory self-describing serde format: a second snapshot carrier next to serde_json. Floats stay native values,
//! so non-finite fields (a candle without a volume: NaN) survive the round trip bit for bit.
#![allow(dead_code)]
use serde::de::value::{Error, MapDeserializer, SeqDeserializer};
use serde::de::{self, DeserializeOwned, IntoDeserializer, Visitor};
use serde::ser::{self, Serialize};

#[derive(Clone, Debug)]
pub enum V {
	Unit,
	Bool(bool),
	I(i64),
	U(u64),
	F32(f32),
	F64(f64),
	Str(String),
	None,
	Some(Box<V>),
	Seq(Vec<V>),
	Map(Vec<(V, V)>),
	Variant(String, Box<V>),
}

pub fn to_value<T: Serialize + ?Sized>(t: &T) -> V {
	t.serialize(Ser).expect("serialize")
}

pub fn from_value<T: DeserializeOwned>(v: V) -> Result<T, Error> {
	T::deserialize(v)
}

pub fn roundtrip<T: Serialize + DeserializeOwned>(t: &T) -> T {
	from_value(to_value(t)).expect("deserialize")
}

pub struct Ser;
pub struct SeqSer(Vec<V>, Option<String>);
pub struct MapSer(Vec<(V, V)>, Option<V>, Option<String>);

impl ser::Serializer for Ser {
	type Ok = V;
	type Error = Error;
	type SerializeSeq = SeqSer;
	type SerializeTuple = SeqSer;
	type SerializeTupleStruct = SeqSer;
	type SerializeTupleVariant = SeqSer;
	type SerializeMap = MapSer;
	type SerializeStruct = MapSer;
	type SerializeStructVariant = MapSer;

	fn serialize_bool(self, v: bool) -> Result<V, Error> {
		Ok(V::Bool(v))
	}
	fn serialize_i8(self, v: i8) -> Result<V, Error> {
		Ok(V::I(v as i64))
	}
	fn serialize_i16(self, v: i16) -> Result<V, Error> {
		Ok(V::I(v as i64))
	}
	fn serialize_i32(self, v: i32) -> Result<V, Error> {
		Ok(V::I(v as i64))
	}
	fn serialize_i64(self, v: i64) -> Result<V, Error> {
		Ok(V::I(v))
	}
	fn serialize_u8(self, v: u8) -> Result<V, Error> {
		Ok(V::U(v as u64))
	}
	fn serialize_u16(self, v: u16) -> Result<V, Error> {
		Ok(V::U(v as u64))
	}
	fn serialize_u32(self, v: u32) -> Result<V, Error> {
		Ok(V::U(v as u64))
	}
	fn serialize_u64(self, v: u64) -> Result<V, Error> {
		Ok(V::U(v))
	}
	fn serialize_f32(self, v: f32) -> Result<V, Error> {
		Ok(V::F32(v))
	}
	fn serialize_f64(self, v: f64) -> Result<V, Error> {
		Ok(V::F64(v))
	}
	fn serialize_char(self, v: char) -> Result<V, Error> {
		Ok(V::Str(v.to_string()))
	}
	fn serialize_str(self, v: &str) -> Result<V, Error> {
		Ok(V::Str(v.to_string()))
	}
	fn serialize_bytes(self, v: &[u8]) -> Result<V, Error> {
		Ok(V::Seq(v.iter().map(|&b| V::U(b as u64)).collect()))
	}
	fn serialize_none(self) -> Result<V, Error> {
		Ok(V::None)
	}
	fn serialize_some<T: Serialize + ?Sized>(self, value: &T) -> Result<V, Error> {
		Ok(V::Some(Box::new(value.serialize(Ser)?)))
	}
	fn serialize_unit(self) -> Result<V, Error> {
		Ok(V::Unit)
	}
	fn serialize_unit_struct(self, _name: &'static str) -> Result<V, Error> {
		Ok(V::Unit)
	}
	fn serialize_unit_variant(
		self,
		_name: &'static str,
		_index: u32,
		variant: &'static str,
	) -> Result<V, Error> {
		Ok(V::Variant(variant.to_string(), Box::new(V::Unit)))
	}
	fn serialize_newtype_struct<T: Serialize + ?Sized>(
		self,
		_name: &'static str,
		value: &T,
	) -> Result<V, Error> {
		value.serialize(Ser)
	}
	fn serialize_newtype_variant<T: Serialize + ?Sized>(
		self,
		_name: &'static str,
		_index: u32,
		variant: &'static str,
		value: &T,
	) -> Result<V, Error> {
		Ok(V::Variant(
			variant.to_string(),
			Box::new(value.serialize(Ser)?),
		))
	}
	fn serialize_seq(self, _len: Option<usize>) -> Result<SeqSer, Error> {
		Ok(SeqSer(Vec::new(), None))
	}
	fn serialize_tuple(self, _len: usize) -> Result<SeqSer, Error> {
		Ok(SeqSer(Vec::new(), None))
	}
	fn serialize_tuple_struct(self, _name: &'static str, _len: usize) -> Result<SeqSer, Error> {
		Ok(SeqSer(Vec::new(), None))
	}
	fn serialize_tuple_variant(
		self,
		_name: &'static str,
		_index: u32,
		variant: &'static str,
		_len: usize,
	) -> Result<SeqSer, Error> {
		Ok(SeqSer(Vec::new(), Some(variant.to_string())))
	}
	fn serialize_map(self, _len: Option<usize>) -> Result<MapSer, Error> {
		Ok(MapSer(Vec::new(), None, None))
	}
	fn serialize_struct(self, _name: &'static str, _len: usize) -> Result<MapSer, Error> {
		Ok(MapSer(Vec::new(), None, None))
	}
	fn serialize_struct_variant(
		self,
		_name: &'static str,
		_index: u32,
		variant: &'static str,
		_len: usize,
	) -> Result<MapSer, Error> {
		Ok(MapSer(Vec::new(), None, Some(variant.to_string())))
	}
}

impl SeqSer {
	fn push<T: Serialize + ?Sized>(&mut self, value: &T) -> Result<(), Error> {
		self.0.push(value.serialize(Ser)?);
		Ok(())
	}
	fn finish(self) -> Result<V, Error> {
		let seq = V::Seq(self.0);
		Ok(match self.1 {
			Some(name) => V::Variant(name, Box::new(seq)),
			None => seq,
		})
	}
}

impl ser::SerializeSeq for SeqSer {
	type Ok = V;
	type Error = Error;
	fn serialize_element<T: Serialize + ?Sized>(&mut self, value: &T) -> Result<(), Error> {
		self.push(value)
	}
	fn end(self) -> Result<V, Error> {
		self.finish()
	}
}
impl ser::SerializeTuple for SeqSer {
	type Ok = V;
	type Error = Error;
	fn serialize_element<T: Serialize + ?Sized>(&mut self, value: &T) -> Result<(), Error> {
		self.push(value)
	}
	fn end(self) -> Result<V, Error> {
		self.finish()
	}
}
impl ser::SerializeTupleStruct for SeqSer {
	type Ok = V;
	type Error = Error;
	fn serialize_field<T: Serialize + ?Sized>(&mut self, value: &T) -> Result<(), Error> {
		self.push(value)
	}
	fn end(self) -> Result<V, Error> {
		self.finish()
	}
}
impl ser::SerializeTupleVariant for SeqSer {
	type Ok = V;
	type Error = Error;
	fn serialize_field<T: Serialize + ?Sized>(&mut self, value: &T) -> Result<(), Error> {
		self.push(value)
	}
	fn end(self) -> Result<V, Error> {
		self.finish()
	}
}

impl MapSer {
	fn finish(self) -> Result<V, Error> {
		let map = V::Map(self.0);
		Ok(match self.2 {
			Some(name) => V::Variant(name, Box::new(map)),
			None => map,
		})
	}
}

impl ser::SerializeMap for MapSer {
	type Ok = V;
	type Error = Error;
	fn serialize_key<T: Serialize + ?Sized>(&mut self, key: &T) -> Result<(), Error> {
		self.1 = Some(key.serialize(Ser)?);
		Ok(())
	}
	fn serialize_value<T: Serialize + ?Sized>(&mut self, value: &T) -> Result<(), Error> {
		let key = self.1.take().expect("value without a key");
		self.0.push((key, value.serialize(Ser)?));
		Ok(())
	}
	fn end(self) -> Result<V, Error> {
		self.finish()
	}
}
impl ser::SerializeStruct for MapSer {
	type Ok = V;
	type Error = Error;
	fn serialize_field<T: Serialize + ?Sized>(
		&mut self,
		key: &'static str,
		value: &T,
	) -> Result<(), Error> {
		self.0
			.push((V::Str(key.to_string()), value.serialize(Ser)?));
		Ok(())
	}
	fn end(self) -> Result<V, Error> {
		self.finish()
	}
}
impl ser::SerializeStructVariant for MapSer {
	type Ok = V;
	type Error = Error;
	fn serialize_field<T: Serialize + ?Sized>(
		&mut self,
		key: &'static str,
		value: &T,
	) -> Result<(), Error> {
		self.0
			.push((V::Str(key.to_string()), value.serialize(Ser)?));
		Ok(())
	}
	fn end(self) -> Result<V, Error> {
		self.finish()
	}
}

impl<'de> IntoDeserializer<'de, Error> for V {
	type Deserializer = V;
	fn into_deserializer(self) -> V {
		self
	}
}

impl<'de> de::Deserializer<'de> for V {
	type Error = Error;

	fn deserialize_any<Vis: Visitor<'de>>(self, visitor: Vis) -> Result<Vis::Value, Error> {
		match self {
			V::Unit => visitor.visit_unit(),
			V::Bool(v) => visitor.visit_bool(v),
			V::I(v) => visitor.visit_i64(v),
			V::U(v) => visitor.visit_u64(v),
			V::F32(v) => visitor.visit_f32(v),
			V::F64(v) => visitor.visit_f64(v),
			V::Str(v) => visitor.visit_string(v),
			V::None => visitor.visit_none(),
			V::Some(v) => visitor.visit_some(*v),
			V::Seq(v) => {
				let mut seq = SeqDeserializer::new(v.into_iter());
				let value = visitor.visit_seq(&mut seq)?;
				seq.end()?;
				Ok(value)
			}
			V::Map(v) => {
				let mut map = MapDeserializer::new(v.into_iter());
				let value = visitor.visit_map(&mut map)?;
				map.end()?;
				Ok(value)
			}
			V::Variant(name, value) => visitor.visit_enum(EnumDe(name, *value)),
		}
	}

	fn deserialize_option<Vis: Visitor<'de>>(self, visitor: Vis) -> Result<Vis::Value, Error> {
		match self {
			V::None | V::Unit => visitor.visit_none(),
			V::Some(v) => visitor.visit_some(*v),
			other => visitor.visit_some(other),
		}
	}

	fn deserialize_newtype_struct<Vis: Visitor<'de>>(
		self,
		_name: &'static str,
		visitor: Vis,
	) -> Result<Vis::Value, Error> {
		visitor.visit_newtype_struct(self)
	}

	fn deserialize_enum<Vis: Visitor<'de>>(
		self,
		_name: &'static str,
		_variants: &'static [&'static str],
		visitor: Vis,
	) -> Result<Vis::Value, Error> {
		match self {
			V::Variant(name, value) => visitor.visit_enum(EnumDe(name, *value)),
			V::Str(name) => visitor.visit_enum(EnumDe(name, V::Unit)),
			other => Err(de::Error::custom(format!("not an enum: {other:?}"))),
		}
	}

	serde::forward_to_deserialize_any! {
		bool i8 i16 i32 i64 i128 u8 u16 u32 u64 u128 f32 f64 char str string
		bytes byte_buf unit unit_struct seq tuple
		tuple_struct map struct identifier ignored_any
	}
}

struct EnumDe(String, V);

impl<'de> de::EnumAccess<'de> for EnumDe {
	type Error = Error;
	type Variant = V;

	fn variant_seed<S: de::DeserializeSeed<'de>>(self, seed: S) -> Result<(S::Value, V), Error> {
		let name = seed.deserialize(V::Str(self.0))?;
		Ok((name, self.1))
	}
}

impl<'de> de::VariantAccess<'de> for V {
	type Error = Error;

	fn unit_variant(self) -> Result<(), Error> {
		match self {
			V::Unit => Ok(()),
			other => Err(de::Error::custom(format!("not a unit variant: {other:?}"))),
		}
	}
	fn newtype_variant_seed<S: de::DeserializeSeed<'de>>(self, seed: S) -> Result<S::Value, Error> {
		seed.deserialize(self)
	}
	fn tuple_variant<Vis: Visitor<'de>>(self, _len: usize, visitor: Vis) -> Result<Vis::Value, Error> {
		de::Deserializer::deserialize_any(self, visitor)
	}
	fn struct_variant<Vis: Visitor<'de>>(
		self,
		_fields: &'static [&'static str],
		visitor: Vis,
	) -> Result<Vis::Value, Error> {
		de::Deserializer::deserialize_any(self, visitor)
	}
}
