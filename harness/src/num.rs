//! Numeric methods: direction B recorder (float streams -> NDJSON trace in fixed point).
use crate::methods::*;
use crate::util::*;
use serde_json::{json, Value};
use yata::core::PeriodType;

pub const FINWIN: &[&str] = &[
	"SMA", "WMA", "SWMA", "TRIMA", "HMA", "LinReg", "Conv", "VWMA", "Integral", "Derivative", "Momentum", "RateOfChange", "Past",
	"StDev", "MeanAbsDev", "MedianAbsDev", "CCI", "LinearVolatility", "ADI",
];
pub const RECUR: &[&str] = &["EMA", "DMA", "TMA", "DEMA", "TEMA", "RMA", "WSMA", "TSI", "Vidya", "TR", "HeikinAshi", "Integral0", "ADI0"];

fn min_len(subject: &str) -> u64 {
	match subject {
		"HMA" | "LinReg" | "StDev" | "MedianAbsDev" => 2,
		_ => 1,
	}
}

pub fn pick_len(rng: &mut Rng, subject: &str, big: bool) -> u64 {
	let maxp = maxp();
	let lo = min_len(subject);
	// methods without a window accept every length up to PeriodType::MAX itself
	let hi = if subject == "WSMA" { maxp / 2 } else if matches!(subject, "EMA" | "DMA" | "TMA" | "DEMA" | "TEMA" | "RMA") { maxp } else { maxp - 1 };
	let n = if big {
		*rng.pick(&[hi, hi, hi - 1, 127.min(hi), 128.min(hi), 100.min(hi), 64])
	} else {
		match rng.below(10) {
			0 => lo,
			1 => lo + 1,
			2 => 3,
			3 => 4,
			4 => 7,
			5 => 8,
			6 => 20,
			_ => rng.range(lo as i64, 30) as u64,
		}
	};
	n.max(lo).min(hi)
}

/// parameters (JSON for the trace, Value for `build`) of one program
fn pick_params(rng: &mut Rng, subject: &str, big: bool) -> (Value, Value) {
	match subject {
		"Conv" => {
			let n = if big { *rng.pick(&[40u64, 100, 254]) } else { rng.range(1, 9) as u64 };
			let style = rng.below(5);
			let zeros = rng.below(3); // 0: none; 1: zero weights at the ends; 2: scattered zeros
			let mut w: Vec<f64> = (0..n)
				.map(|i| match style {
					0 => (i + 1) as f64,                     // WMA weights
					1 => 1.0,                                // SMA weights
					2 => (rng.unit() * 4.0 + 0.25) * 1.1,    // positive irregular
					_ => (rng.unit() * 4.0 - 1.0) * 0.7 + 1.5, // mixed sign, sum safely away from zero
				})
				.collect();
			// zero weights (of either sign) are legitimate: the kernel keeps its length and alignment
			if n >= 2 && zeros == 1 {
				let k = (n as usize - 1).min(1 + rng.below(2) as usize);
				for j in 0..k {
					if rng.chance(0.6) { w[n as usize - 1 - j] = if rng.chance(0.5) { 0.0 } else { -0.0 }; }
					if rng.chance(0.4) && j + 1 < n as usize - k { w[j] = 0.0; }
				}
				if w.iter().all(|x| *x == 0.0) { w[0] = 1.0; }
			} else if n >= 3 && zeros == 2 {
				let j = 1 + rng.below(n - 2) as usize;
				w[j] = 0.0;
			}
			(json!(w.iter().map(|x| fx(*x)).collect::<Vec<_>>()), json!(w.iter().map(|x| bits(*x)).collect::<Vec<_>>()))
		}
		"TSI" => {
			let s = pick_len(rng, subject, false).min(40);
			let l = pick_len(rng, subject, big);
			(json!([s, l]), json!([s, l]))
		}
		"TR" | "HeikinAshi" => (json!([]), json!([])),
		"Integral0" | "ADI0" => (json!([0]), json!([0])),
		_ => {
			let n = pick_len(rng, subject, big);
			(json!([n]), json!([n]))
		}
	}
}

/// Homogeneity degree of the output in the PRICE scale (pairs: first component; candles: o/h/l/c).
fn degree(subject: &str) -> i32 {
	match subject {
		"CCI" | "RateOfChange" | "TSI" | "ADI" | "ADI0" => 0,
		_ => 1,
	}
}

fn pow2(e: i32) -> f64 {
	(2.0f64).powi(e)
}

/// the input as the method sees it: prices multiplied by 2^e (exact)
fn scale_in(x: &In, e: i32) -> In {
	if e == 0 {
		return x.clone();
	}
	let k = pow2(e);
	match x {
		In::S(v) => In::S(v * k),
		In::P(a, b) => In::P(a * k, *b),
		In::C(c) => In::C(candle(c.open as f64 * k, c.high as f64 * k, c.low as f64 * k, c.close as f64 * k, c.volume as f64)),
	}
}

/// the output mapped back to the unscaled stream (exact: division by a power of two)
fn unscale_out(y: &Out, e: i32, deg: i32) -> Out {
	if e == 0 || deg == 0 {
		return y.clone();
	}
	let k = pow2(-e * deg);
	match y {
		Out::F(v) => Out::F(v * k),
		Out::C(c) => Out::C(candle(c.open as f64 * k, c.high as f64 * k, c.low as f64 * k, c.close as f64 * k, c.volume as f64)),
		other => other.clone(),
	}
}

fn positive_only(subject: &str) -> bool {
	matches!(subject, "RateOfChange")
}

pub fn record_program(tw: &mut TraceWriter, rng: &mut Rng, subject: &str, big: bool, steps: u64, round: u64) {
	let (ptrace, pbuild) = pick_params(rng, subject, big);
	let kind = input_kind(subject);
	let mut g = Gen::new(rng.u64(), positive_only(subject) || kind == 'c');
	// candle-fed methods (TR, HeikinAshi, ADI, ...) also see gaps followed by a bar without a range, in every other program
	g.doji_gaps = kind == 'c' && round % 2 == 1;
	let init = g.input(kind);
	// Correct floating-point code is exactly invariant under scaling of its inputs by a power of two (away from
	// over/underflow): some programs run the real method on prices scaled by 2^e and log the unscaled values, so an
	// absolute constant hidden in the code shows up although the trace itself stays inside the input band.
	let exps: &[i32] = if cfg!(feature = "value_type_f32") { &[-40, 0, 20, -12] } else { &[0, -70, 0, 60, 0, -45, 100, 0] };
	let e = exps[(round % exps.len() as u64) as usize];
	let deg = degree(subject);
	tw.ev(json!({"ev":"reset","scale_exp":e}));
	let m = build(subject, &pbuild, &scale_in(&init, e));
	let res = match &m {
		Ok(Ok(_)) => "ok",
		Ok(Err(_)) => "err",
		Err(_) => "panic",
	};
	tw.ev(json!({"ev":"new","subject":subject,"params":ptrace,"init":init.fx(),"res":res}));
	let Ok(Ok(mut m)) = m else { return };
	let n0 = pbuild[0].as_u64().unwrap_or(1);
	// "echo" inputs: now and then the next input is exactly the value a plain EMA / SMA of the same length has reached on this
	// stream, or the subject's own previous output (prices that sit exactly on an average: ties inside cascaded stages)
	let mut shadows: Vec<Box<dyn DynM>> = Vec::new();
	if kind == 's' && e == 0 && subject != "Conv" && !cfg!(feature = "value_type_f32") {
		for sh in ["EMA", "SMA", "DMA"] {
			if let Ok(Ok(m)) = build(sh, &json!([n0.clamp(1, 200)]), &init) {
				shadows.push(m);
			}
		}
	}
	let mut echo: Vec<f64> = Vec::new();
	let script_scale: Option<f64> = if std::env::var("YV_SCRIPT").as_deref() == Ok("flatafter") { Some(*rng.pick(&[1.0, 1.0e2, 3.0e4, 1.0e6, 1.0e9])) } else { None };
	let mut last_in = init.clone();
	for i in 0..steps {
		// Method::new prescribes the construction value as the first input
		let x = if i == 0 {
			init.clone()
		} else if !echo.is_empty() && rng.chance(0.08) {
			let v = *rng.pick(&echo);
			if v.is_finite() && (v == 0.0 || (v.abs() > 9.6e-7 && v.abs() < 1.0e12)) && !(positive_only(subject) && v <= 0.0) { In::S(v) } else { g.input(kind) }
		} else if let (Some(sc), 's') = (script_scale, kind) {
			// YV_SCRIPT=flatafter: volatile at a large scale, then exactly flat for longer than the window, then volatile at a
			// small scale, ... (the regime in which running sums are left with rounding residue of either sign)
			let period = 2 * n0.min(60) + 50;
			let ph = i % period;
			if ph < 30 {
				In::S(sc * (0.5 + g.rng.unit()))
			} else if ph < 30 + n0.min(60) + 8 {
				last_in.clone()
			} else {
				In::S(sc / 4096.0 * (0.5 + g.rng.unit()))
			}
		} else {
			g.input(kind)
		};
		last_in = x.clone();
		echo.clear();
		for m in shadows.iter_mut() {
			if let Ok(Out::F(v)) = catch(|| m.next(&x)) {
				echo.push(v);
			}
		}
		// the input that makes the first EMA stage land exactly on the second one (e1 + (e2 - e1) / alpha): ties BETWEEN the
		// stages of the cascaded averages (DMA, TMA, DEMA, TEMA)
		if echo.len() == 3 {
			let (e1, e2) = (echo[0], echo[2]);
			echo.push(e1 + (e2 - e1) * (n0 as f64 + 1.0) / 2.0);
		}
		let xs = scale_in(&x, e);
		let y = catch(|| m.next(&xs));
		match y {
			Ok(y) => {
				let y = unscale_out(&y, e, deg);
				if let (Out::F(v), true) = (&y, !shadows.is_empty()) {
					echo.push(*v);
				}
				tw.ev(json!({"ev":"next","x":x.fx(),"y":y.fx()}));
				// peek returns the value most recently produced (Past and SWMA(1) are C09's known findings)
				if subject != "Past" && !(subject == "SWMA" && n0 == 1) && i % 7 == 3 {
					if let Some(p) = m.peek() {
						tw.ev(json!({"ev":"peek","same": unscale_out(&p, e, deg).bits() == y.bits()}));
					}
				}
			}
			Err(e) => {
				tw.ev(json!({"ev":"next","x":x.fx(),"y":{"panic": e}}));
				return;
			}
		}
	}
}

/// `yv num-record <family: fin|rec> <seed> <programs> <steps> <big 0|1> <out.ndjson> [subject]`
pub fn record(args: &[String]) {
	let family = args[0].as_str();
	let seed: u64 = arg(args, 1, "seed");
	let programs: u64 = arg(args, 2, "programs");
	let steps: u64 = arg(args, 3, "steps");
	let big: u64 = arg(args, 4, "big");
	let mut tw = TraceWriter::create(&args[5]);
	let only = args.get(6).map(String::as_str);
	let mut rng = Rng::new(seed ^ 0x6e756d);
	let subjects: &[&str] = if family == "fin" { FINWIN } else { RECUR };
	for k in 0..programs {
		let subject = only.unwrap_or(subjects[((k + seed) % subjects.len() as u64) as usize]);
		// the scaling exponent cycles with (seed + pass over the subjects), so every subject meets every exponent
		record_program(&mut tw, &mut rng, subject, big == 1, steps, seed + k / subjects.len() as u64);
	}
	let n = tw.finish();
	println!("{}", json!({"kind":"summary","events":n}));
}
