//! yv — conformance harness binding /verif/spec (TLA+) to the real yata crate.
//! Direction A: `*-replay` commands execute TLC-generated behaviours / tables on the real API.
//! Direction B: `*-record` commands drive the real API and log NDJSON traces for TLC to validate.
mod action;
mod api;
mod candle;
mod convert;
mod indicators;
mod laws;
mod memfmt;
mod methods;
mod num;
mod params;
mod prefix;
mod soak;
mod tok;
mod util;
mod window;

fn main() {
	util::silence_panics();
	let args: Vec<String> = std::env::args().skip(1).collect();
	let cmd = args.first().map(String::as_str).unwrap_or("");
	let rest = &args[args.len().min(1)..];
	let r = std::panic::catch_unwind(|| dispatch(cmd, rest));
	if r.is_err() {
		eprintln!("harness bug: {}", util::LAST_PANIC.lock().map(|g| g.clone()).unwrap_or_default());
		std::process::exit(3);
	}
}

fn dispatch(cmd: &str, rest: &[String]) {
	match cmd {
		"window-replay" => window::replay(rest),
		"window-record" => window::record(rest),
		"action-replay" => action::replay(rest),
		"action-probe" => action::probe(rest),
		"action-steps" => action::steps(rest),
		"api-replay" => api::replay(rest),
		"doc-record" => api::doc_record(rest),
		"params-replay" => params::replay(rest),
		"candle-replay" => candle::replay(rest),
		"candle-record" => candle::record(rest),
		"convert-replay" => convert::replay(rest),
		"convert-record" => convert::record(rest),
		"renko-snapshot" => convert::renko_snapshot(rest),
		"laws-record" => laws::record(rest),
		"laws-impulse" => laws::impulse(rest),
		"prefix-record" => prefix::record(rest),
		"ind-catalog" => indicators::catalog(rest),
		"cfg-replay" => indicators::cfg_replay(rest),
		"ind-api-replay" => indicators::api_replay(rest),
		"indparams-replay" => indicators::params_replay(rest),
		"ind-dyn-replay" => indicators::dyn_replay(rest),
		"result-replay" => indicators::result_replay(rest),
		"ind-record" => indicators::record(rest),
		"ind-prefix-record" => indicators::prefix_record(rest),
		"soak-record" => soak::record(rest),
		"num-record" => num::record(rest),
		"tok-replay" => tok::replay(rest),
		"tok-record" => tok::record(rest),
		_ => {
			eprintln!("unknown command {cmd:?}");
			std::process::exit(2);
		}
	}
}
