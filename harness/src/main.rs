fn main(){ println!("{:?}", yata::core::Window::new(3,1u8)); let _=serde_json::json!({}); }
