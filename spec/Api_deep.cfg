\* deep, narrow programs: one handle, any chunk size up to the whole stream, then an observer or another chunk --
\* peek / bulk calls at EVERY position of the stream (late positions: after a flat stretch has filled the windows)
CONSTANTS
  L = 24
  MaxH = 1
  MaxK = 24
  Depth = 3
  Ops <- DeepOps
SPECIFICATION Spec
INVARIANTS TypeOK OnePerInput Emit
PROPERTY Independent
CHECK_DEADLOCK FALSE
