-------------------------- MODULE I_KlingerVolumeOscillator --------------------------
(* KlingerVolumeOscillator(ma1 < ma2, signal): signed volume sv = sign(tp - previous tp) * volume (0 when the       *)
(* typical price is unchanged; previous tp of the first candle = its own tp); main = ma1(sv) - ma2(sv);             *)
(* signal line = signal(main); all three averages seeded 0.  Values [main, line].                                   *)
(* S0 = main crosses 0, S1 = main crosses the signal line (+ when crossing upwards).                                *)
(* The doc comment gives no formula (only links); the linked references define the "volume force" with the daily    *)
(* and cumulative measurement dm/cm -- the code's signed volume is the simplified variant and is what is specified. *)
\* SPEC: values signals
EXTENDS IndLib

KlingerVolumeOscillator_Init(cfg, c) ==
    [m1 |-> MInit(cfg.ma1, FxZero), m2 |-> MInit(cfg.ma2, FxZero), m3 |-> MInit(cfg.signal, FxZero), tp |-> TP(c)]
KlingerVolumeOscillator_Step(cfg, st, c, P, V) ==
    LET tp  == TP(c)
        d   == FxSub(tp, st.tp)
        sv  == IF d.s > 0 THEN c.v ELSE IF d.s < 0 THEN FxNeg(c.v) ELSE FxZero
        a   == MStep(cfg.ma1, st.m1, sv)
        b   == MStep(cfg.ma2, st.m2, sv)
        ko  == FxSub(a.out, b.out)
        l   == MStep(cfg.signal, st.m3, ko)
    IN  [st |-> [m1 |-> a.st, m2 |-> b.st, m3 |-> l.st, tp |-> tp],
         vals |-> <<Ex(ko, FxMulInt(V, 4)), Ex(l.out, FxMulInt(V, 8))>>]

KlingerVolumeOscillator_SigInit(cfg, c) == [x1 |-> 0, x2 |-> 0]
KlingerVolumeOscillator_Sig(cfg, sg, c, v) ==
    {[sg |-> [x1 |-> CrossLast(v[1], ZeroV), x2 |-> CrossLast(v[1], v[2])],
      sigs |-> <<{Act(CrossOut(sg.x1, v[1], ZeroV))}, {Act(CrossOut(sg.x2, v[1], v[2]))}>>]}
=============================================================================
