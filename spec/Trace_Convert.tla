---------------------------- MODULE Trace_Convert ----------------------------
(***************************************************************************)
(* Trace validation (direction B) of the converters on real float data      *)
(* (C17): CollapseTimeframe with any period (also > 255), and Renko.        *)
(*                                                                           *)
(* Renko is specified in exact fixed point from the PUBLIC output: the      *)
(* spec keeps its own last brick bounds (lu, ll), the brick size b and the  *)
(* volume consumed since the last emission.  For every call it decides      *)
(* whether the price has reached the next boundary lu(1+b) / ll(1-b)        *)
(* (within the rounding allowance: then either answer is admissible), and   *)
(* checks the emitted bricks: count = floor of the exact quotient (within   *)
(* rounding), at least one, contiguous (bit-equal close/open), of relative  *)
(* size b from the base line, one direction, total volume = consumed.       *)
(***************************************************************************)
EXTENDS NumSubjects, Convert, TLC, Json, IOUtils

Rec == ndJsonDeserialize(IOEnv.TRACE)
VARIABLES l, ct, rk
vars == <<l, ct, rk>>
E == Rec[l]
Fx(j) == FxFromJson(j)
Cn(j) == [o |-> Fx(j.o), h |-> Fx(j.h), l |-> Fx(j.l), c |-> Fx(j.c), v |-> Fx(j.v)]
Near(a, b, tol) == FxLe(FxAbs(FxSub(a, b)), tol)
Tol(k, S) == Allow(k, 0, 1, S)

Init == l = 1 /\ ct = [p |-> 1, k |-> 0, agg |-> <<>>] /\ rk = <<>>

----------------------------------------------------------------------------
CtNew == E.ev = "ct_new" /\ E.res = (IF E.period = 0 THEN "err" ELSE "ok")
         /\ ct' = [p |-> E.period, k |-> 0, agg |-> <<>>] /\ UNCHANGED rk
FxCAdd(a, b) == [o |-> a.o, h |-> FxMax(a.h, b.h), l |-> FxMin(a.l, b.l), c |-> b.c, v |-> FxAdd(a.v, b.v)]
CtNext == /\ E.ev = "ct_next"
          /\ LET c == Cn(E.x)
                 agg == IF ct.k = 0 THEN c ELSE FxCAdd(ct.agg, c)
             IN  IF ct.k + 1 = ct.p
                 THEN /\ "o" \in DOMAIN E.y
                      /\ LET y == Cn(E.y)
                         IN  FxEq(y.o, agg.o) /\ FxEq(y.h, agg.h) /\ FxEq(y.l, agg.l) /\ FxEq(y.c, agg.c)
                             /\ Near(y.v, agg.v, Tol(ct.p, agg.v))
                      /\ ct' = [ct EXCEPT !.k = 0, !.agg = <<>>]
                 ELSE "none" \in DOMAIN E.y /\ ct' = [ct EXCEPT !.k = ct.k + 1, !.agg = agg]
          /\ UNCHANGED rk

----------------------------------------------------------------------------
RkNew == /\ E.ev = "rk_new"
         /\ LET b == Fx(E.b)  v == Fx(E.v)
                ok == FxGe(b, EPS) /\ FxLt(b, FxOne)
                half == FxDivInt(FxMul(v, b), 2)
            IN  /\ E.res = (IF ok THEN "ok" ELSE "err")
                /\ rk' = IF ok THEN [lu |-> FxAdd(v, half), ll |-> FxSub(v, half), b |-> b, vol |-> FxZero, n |-> 0] ELSE <<>>
         /\ UNCHANGED ct

\* bricks from base line `base` in direction dir (1 up, -1 down)
BrickAt(base, b, dir, k) == FxMul(base, FxAdd(FxOne, FxMulInt(b, dir * k)))
BricksOK(bs, base, b, dir, vol, tol) ==
    LET n == Len(bs)
    IN  /\ \A k \in 1..n : /\ Near(Fx(bs[k].o), BrickAt(base, b, dir, k - 1), tol)
                           /\ Near(Fx(bs[k].c), BrickAt(base, b, dir, k), tol)
                           /\ Near(FxMulInt(Fx(bs[k].v), n), vol, FxAdd(Tol(n + 4, vol), Tol(4, FxOne)))
        /\ \A k \in 1..(n - 1) : FxEq(Fx(bs[k].c), Fx(bs[k + 1].o))          \* contiguous: bit-equal
        /\ \A k \in 1..n : IF dir = 1 THEN FxGt(Fx(bs[k].c), Fx(bs[k].o)) ELSE FxLt(Fx(bs[k].c), Fx(bs[k].o))

RkNext ==
    /\ E.ev = "rk_next" /\ rk # <<>>
    /\ LET v   == Fx(E.v)
           vol == FxAdd(rk.vol, Fx(E.vol))
           nu  == FxMul(rk.lu, FxAdd(FxOne, rk.b))
           nl  == FxMul(rk.ll, FxSub(FxOne, rk.b))
           tol == Allow(8, 8, rk.n + 1, FxMax(FxAbs(v), rk.lu))           \* the code's bounds are a chain of rounded products
           n   == E.len
           upClear   == FxGe(v, FxAdd(nu, tol))
           downClear == FxLe(v, FxSub(nl, tol))
           inside    == FxLt(v, FxSub(nu, tol)) /\ FxGt(v, FxAdd(nl, tol))
           \* exact quotient q = (v - lu) / (lu b)   resp. (ll - v) / (ll b); the count is floor(q), at least 1
           qOK(num, den) == /\ FxLe(FxSub(FxMulInt(den, n), FxMul(tol, FxOne)), FxAdd(num, tol)) \/ n = 1
                            /\ FxGt(FxMulInt(den, n + 1), FxSub(num, tol))
       IN  /\ (upClear => n >= 1 /\ E.sign = 1) /\ (downClear => n >= 1 /\ E.sign = -1) /\ (inside => n = 0)
           /\ n = Len(E.bricks) /\ (n = 0 => E.sign = 0)
           /\ IF n = 0 THEN rk' = [rk EXCEPT !.vol = vol]
              ELSE IF E.sign = 1
              THEN /\ FxGe(v, FxSub(nu, tol))
                   /\ qOK(FxSub(v, rk.lu), FxMul(rk.lu, rk.b))
                   /\ BricksOK(E.bricks, rk.lu, rk.b, 1, vol, tol)
                   /\ Near(Fx(E.total_vol), vol, FxAdd(Tol(n + 4, vol), Tol(4, FxOne)))
                   /\ rk' = [rk EXCEPT !.lu = BrickAt(rk.lu, rk.b, 1, n), !.ll = BrickAt(rk.lu, rk.b, 1, n - 1), !.vol = FxZero, !.n = rk.n + 1]
              ELSE /\ E.sign = -1
                   /\ FxLe(v, FxAdd(nl, tol))
                   /\ qOK(FxSub(rk.ll, v), FxMul(rk.ll, rk.b))
                   /\ BricksOK(E.bricks, rk.ll, rk.b, -1, vol, tol)
                   /\ Near(Fx(E.total_vol), vol, FxAdd(Tol(n + 4, vol), Tol(4, FxOne)))
                   /\ rk' = [rk EXCEPT !.lu = BrickAt(rk.ll, rk.b, -1, n - 1), !.ll = BrickAt(rk.ll, rk.b, -1, n), !.vol = FxZero, !.n = rk.n + 1]
    /\ UNCHANGED ct

\* the RenkoOutput iterator protocol: results are brick indices (0 = None) found by the harness in the collected list
RkIter == /\ E.ev = "rk_iter"
          /\ LET it == [len |-> E.len, pos |-> E.pos]
             IN  /\ E.hint = RHint(it) /\ E.count = RHint(it) /\ E.exact_len = RHint(it)
                 /\ E.next = RNext(it).out /\ E.last = RLast(it)
                 /\ E.nth = RNth(it, E.n).out /\ E.hint_after_nth = RHint(RNth(it, E.n).it)
                 /\ E.next_after_nth = RNext(RNth(it, E.n).it).out
          /\ UNCHANGED <<ct, rk>>

Next == l <= Len(Rec) /\ (CtNew \/ CtNext \/ RkNew \/ RkNext \/ RkIter) /\ l' = l + 1
Spec == Init /\ [][Next]_vars

\* reaching the end of the trace ends the search at once (reported by TLC as a violation of NotDone = accepted);
\* otherwise the postcondition reports the longest matched prefix
NotDone == l <= Len(Rec)
Matched == TLCGet("stats").diameter - 1
TraceAccepted ==
    \/ Matched = Len(Rec)
    \/ /\ PrintT(<<"FAIL", ToJson([matched |-> Matched, total |-> Len(Rec), event |-> Rec[Matched + 1]])>>)
       /\ FALSE
=============================================================================
