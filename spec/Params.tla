-------------------------------- MODULE Params --------------------------------
(***************************************************************************)
(* Constructor outcome model (C10): for every method constructor and for    *)
(* MA::init, the pre-validation arithmetic in PeriodType AS THE CODE        *)
(* PERFORMS IT (dev profile: overflow and debug assertions panic), the      *)
(* match guards, and the nested constructors, evaluated in the order the    *)
(* code evaluates them.  Result: "ok" | "err" | "panic".                    *)
(*                                                                           *)
(* Property: "panic" is unreachable, and lengths documented as too small    *)
(* are "err".  TLC evaluates the model on ALL parameter values (all pairs   *)
(* for two-parameter methods) and prints the complete outcome table; the    *)
(* harness calls the real constructors on the same complete sets.           *)
(***************************************************************************)
EXTENDS Integers, Sequences, Period

\* first failure wins, as with the `?` operator / evaluation order of struct fields
Then(a, b) == IF a # "ok" THEN a ELSE b

\* Window::new(n, v): debug_assert!(size <= PeriodType::MAX - 1)
WinNew(n) == IF n = OVF THEN "panic" ELSE IF n > PMAX - 1 THEN "panic" ELSE "ok"

W1(n) == IF n = 0 THEN "err" ELSE WinNew(n)                    \* `0 => Err`, then a window of that length
W2(n) == IF n = 0 \/ n = 1 THEN "err" ELSE WinNew(n)           \* `0 | 1 => Err`

EMAo(n) == IF n = 0 THEN "err" ELSE "ok"                       \* alpha = 2 / (length as ValueType + 1.)
WMAo(n) == W1(n)
SMAo(n) == W1(n)
ISqrtP(n) == CHOOSE r \in 0..n : r * r <= n /\ (r + 1) * (r + 1) > n

ClassW1 == {"SMA", "WMA", "Derivative", "Momentum", "RateOfChange", "Past", "MeanAbsDev", "CCI", "LinearVolatility",
            "Highest", "Lowest", "HighestLowestDelta", "HighestIndex", "LowestIndex", "SMM", "VWMA"}
ClassW2 == {"StDev", "LinReg"}
ClassE  == {"EMA", "DMA", "TMA", "DEMA", "TEMA", "RMA"}
OneParam == ClassW1 \cup ClassW2 \cup ClassE \cup {"TRIMA", "HMA", "MedianAbsDev", "Integral", "ADI", "WSMA", "Vidya", "SWMA",
                                                   "Conv", "CollapseTimeframe"}
TwoParam == {"TSI", "UpperReversalSignal", "LowerReversalSignal", "ReversalSignal"}
MAKinds == {"SMA", "WMA", "HMA", "RMA", "EMA", "DMA", "DEMA", "TMA", "TEMA", "WSMA", "SMM", "SWMA", "TRIMA", "LinReg", "Vidya"}

\* one length parameter n (Conv: number of weights, which may exceed PMAX; CollapseTimeframe: a usize)
Out1(s, n) ==
    CASE s \in ClassW1 -> W1(n)
      [] s \in ClassW2 -> W2(n)
      [] s \in ClassE  -> EMAo(n)
      [] s = "TRIMA"   -> Then(SMAo(n), SMAo(n))
      [] s = "HMA"     -> IF n = 0 \/ n = 1 THEN "err"
                          ELSE Then(WMAo(n \div 2), Then(WMAo(n), WMAo(ISqrtP(n))))
      [] s = "MedianAbsDev" -> IF n = 0 \/ n = 1 THEN "err" ELSE W1(n)     \* SMM::new
      [] s = "Integral" -> WinNew(n)
      [] s = "ADI"     -> IF n > 0 THEN WinNew(n) ELSE "ok"
      [] s = "WSMA"    -> IF n = 0 THEN "err" ELSE IF n > PMAX \div 2 THEN "err" ELSE EMAo(PSub(PMul(n, 2), 1))
      [] s = "Vidya"   -> IF n = 0 \/ n = PMAX THEN "err" ELSE WinNew(n)
      [] s = "SWMA"    -> IF n = 0 THEN "err" ELSE Then(WinNew((n \div 2) + (n % 2)), WinNew(n \div 2))
      [] s = "Conv"    -> IF n >= 1 /\ n <= PMAX THEN WinNew(Cast(n)) ELSE "err"
      [] s = "CollapseTimeframe" -> IF n = 0 THEN "err" ELSE "ok"

RevOut(l, r) == IF l = 0 \/ r = 0 \/ SatAdd(l, r) = PMAX THEN "err" ELSE WinNew(PAdd(PAdd(l, r), 1))
Out2(s, a, b) ==
    CASE s = "TSI" -> Then(EMAo(b), Then(EMAo(a), Then(EMAo(b), EMAo(a))))     \* (short, long): long first
      [] s = "ReversalSignal" -> Then(RevOut(a, b), RevOut(a, b))
      [] OTHER -> RevOut(a, b)

\* non-finite construction values are rejected up front by these
ChecksFinite == {"Highest", "Lowest", "HighestLowestDelta", "HighestIndex", "LowestIndex", "SMM", "MedianAbsDev"}
OutInit(s, n, finite) == IF ~finite /\ s \in ChecksFinite /\ ~(s = "MedianAbsDev" /\ n \in {0, 1}) THEN "err" ELSE Out1(s, n)

\* MA::init dispatches to the method of the same name
MAInit(kind, n) == Out1(kind, n)

\* the claims of C10 about a constructor outcome
NoPanic(o) == o # "panic"
TooSmall(s, n) == n = 0 \/ (n = 1 /\ s \in {"StDev", "LinReg", "HMA", "MedianAbsDev"})
=============================================================================
