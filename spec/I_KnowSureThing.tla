------------------------------ MODULE I_KnowSureThing ------------------------------
(* KnowSureThing(period1 < .. < period4, ma1..ma4, signal): roc_i = (close - close period_i candles ago) / that      *)
(* older close (as a fraction, not in percent; before the stream: the first close, so roc = 0);                      *)
(* KST = ma1(roc_1) + 2 ma2(roc_2) + 3 ma3(roc_3) + 4 ma4(roc_4); signal line = signal(KST); all averages seeded 0. *)
(* Values [KST, line].  S0 = KST crosses the signal line (+ when crossing upwards).                                  *)
(* Scale of the values: a rate of change is a pure ratio, not bounded by the price scale; the state carries          *)
(* R = the largest |roc_i| seen so far and the allowance is proportional to 10 R (sum of the weights).              *)
\* SPEC: values signals
EXTENDS IndLib

KnowSureThing_Init(cfg, c) ==
    [w |-> WFill(cfg.period4 + 1, c.c), R |-> FxZero,
     m1 |-> MInit(cfg.ma1, FxZero), m2 |-> MInit(cfg.ma2, FxZero), m3 |-> MInit(cfg.ma3, FxZero),
     m4 |-> MInit(cfg.ma4, FxZero), m5 |-> MInit(cfg.signal, FxZero)]
KnowSureThing_Roc(w, n) == FxDiv(FxSub(Ago(w, 0), Ago(w, n)), Ago(w, n))
KnowSureThing_Step(cfg, st, c, P, V) ==
    LET w  == WPush(st.w, c.c)
        r1 == KnowSureThing_Roc(w, cfg.period1)   r2 == KnowSureThing_Roc(w, cfg.period2)
        r3 == KnowSureThing_Roc(w, cfg.period3)   r4 == KnowSureThing_Roc(w, cfg.period4)
        R  == FxMax(FxMax(st.R, FxMax(FxAbs(r1), FxAbs(r2))), FxMax(FxAbs(r3), FxAbs(r4)))
        a1 == MStep(cfg.ma1, st.m1, r1)   a2 == MStep(cfg.ma2, st.m2, r2)
        a3 == MStep(cfg.ma3, st.m3, r3)   a4 == MStep(cfg.ma4, st.m4, r4)
        kst == FxAdd(FxAdd(a1.out, FxMulInt(a2.out, 2)), FxAdd(FxMulInt(a3.out, 3), FxMulInt(a4.out, 4)))
        l  == MStep(cfg.signal, st.m5, kst)
    IN  [st |-> [w |-> w, R |-> R, m1 |-> a1.st, m2 |-> a2.st, m3 |-> a3.st, m4 |-> a4.st, m5 |-> l.st],
         vals |-> <<Ex(kst, FxMulInt(R, 10)), Ex(l.out, FxMulInt(R, 20))>>]

KnowSureThing_SigInit(cfg, c) == [x |-> 0]
KnowSureThing_Sig(cfg, sg, c, v) ==
    {[sg |-> [x |-> CrossLast(v[1], v[2])], sigs |-> <<{Act(CrossOut(sg.x, v[1], v[2]))}>>]}
=============================================================================
