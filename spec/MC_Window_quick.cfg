CONSTANTS
  PMAX = 255
  Caps <- SmallCaps
  FullIter <- SmallCaps
  EmitCaps <- NoCaps
SPECIFICATION Spec
INVARIANTS TypeOK PushInv ObserverInv IterInv RebuildInv
CHECK_DEADLOCK FALSE
