------------------------------ MODULE MC_Convert ------------------------------
(* CollapseTimeframe: implementation-shaped machine = definition on every stream over a small candle alphabet;   *)
(* behaviours printed for replay (streaming and both batch forms).  RenkoOutput iterator: every (len, op sequence). *)
EXTENDS Convert, TLC, Json

CONSTANTS Periods, Depth
VARIABLES st, xs, out
vars == <<st, xs, out>>

\* a small alphabet of candles with distinct fields, incl. equal highs/lows and zero volume
Alpha == {[o |-> 3, h |-> 5, l |-> 2, c |-> 4, v |-> 1], [o |-> 4, h |-> 4, l |-> 4, c |-> 4, v |-> 0],
          [o |-> 6, h |-> 7, l |-> 1, c |-> 2, v |-> 3], [o |-> 2, h |-> 5, l |-> 2, c |-> 5, v |-> 2]}

Init == \E p \in Periods : st = CTInit(p) /\ xs = <<>> /\ out = NoneC
Next == /\ Len(xs) < Depth
        /\ \E c \in Alpha : LET r == CTNext(st, c) IN st' = r.st /\ out' = r.out /\ xs' = Append(xs, c)
Spec == Init /\ [][Next]_vars

Conform == Len(xs) > 0 => out = CTDef(st.period, xs)
\* batch form (disjoint windows) = the Some(..) outputs of the streaming form
RECURSIVE Outs(_, _, _, _)
Outs(p, s, i, acc) == IF i > Len(s) THEN acc
                      ELSE Outs(p, s, i + 1, IF i % p = 0 THEN Append(acc, CTDef(p, SubSeq(s, 1, i)).c) ELSE acc)
BatchInv == Collapse(xs, st.period, FALSE) = Outs(st.period, xs, 1, <<>>)
\* (printed at three lengths, so that every residue Len mod period occurs, and a sequence shorter than the period)
Emit == (Len(xs) \in {3, Depth - 1, Depth}) =>
           PrintT(<<"REPLAY", ToJson([period |-> st.period, xs |-> xs,
                                      outs |-> [i \in 1..Len(xs) |-> CTDef(st.period, SubSeq(xs, 1, i))],
                                      batch |-> Collapse(xs, st.period, FALSE), sliding |-> Collapse(xs, st.period, TRUE)])>>)

\* RenkoOutput iterator: for every length and position, every operation agrees with the remaining sequence
RenkoIterInv ==
    \A len \in 0..4 : \A pos \in 0..len :
        LET it == [len |-> len, pos |-> pos]  rest == RRest(it)
        IN  /\ RHint(it) = Len(rest)
            /\ RNext(it).out = (IF Len(rest) = 0 THEN 0 ELSE rest[1])
            /\ RLast(it) = (IF Len(rest) = 0 THEN 0 ELSE rest[Len(rest)])
            /\ \A n \in 0..6 : /\ RNth(it, n).out = (IF n < Len(rest) THEN rest[n + 1] ELSE 0)
                               /\ RHint(RNth(it, n).it) = (IF n < Len(rest) THEN Len(rest) - n - 1 ELSE 0)
P123 == 1..3
P14 == 1..4
=============================================================================
