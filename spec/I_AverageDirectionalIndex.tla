------------------------- MODULE I_AverageDirectionalIndex -------------------------
(* AverageDirectionalIndex(method1, method2, period1 k, zone): atr = method1(true range against the previous close),  *)
(* seeded with the range of the first candle; du = high - high k bars ago, dd = low k bars ago - low;                 *)
(* +DM = du if du > dd and du > 0 else 0, -DM = dd if dd > du and dd > 0 else 0; +DI = method1(+DM) / atr,            *)
(* -DI = method1(-DM) / atr (both seeded 0); ADX = method2(|+DI - -DI| / (+DI + -DI)) (input 0 when the sum is 0;     *)
(* seeded 0).  Values [ADX, +DI, -DI].                                                                                *)
(* Named deviation ADX_SkipOnZeroTR (the code is followed): on a bar whose atr is exactly 0 both DI are reported 0,   *)
(* method2 is fed 0, and neither the previous close nor the two DM averages are updated (the high/low window and      *)
(* atr are).                                                                                                          *)
(* S0 = [ADX > zone] * sign(+DI - -DI); S1 = Action(+DI - -DI).                                                       *)
(* Scales: true ranges and directional moves are differences of exactly given prices, so their rounding is relative  *)
(* to THEIR magnitude (largest seen), not to the price level.                                                         *)
\* SPEC: values signals
EXTENDS IndLib

\* The ADX input t = |a - b| / (a + b) is a quotient of two averages of directional moves.  With an average that is a
\* positive combination without running accumulators (ema, rma, wsma, dma, tma, vidya; smm selects) a, b >= 0 carry a
\* relative error and t is well conditioned.  With running sums (sma, wma, swma, trima) the error of a, b is relative to
\* the largest average reached, with negative weights (hma, dema, tema, linreg, where a + b can cancel and t, +DI, -DI
\* leave [0, 1]) to the largest move seen; it is amplified in t by (1 + |t|) * that magnitude / |a + b|.  cs is the
\* largest amplification met so far and scales the allowance of the ADX; beyond 250 (allowance factor 1000) the ADX is
\* not specified any more.
AverageDirectionalIndex_WellCond == {"ema", "rma", "wsma", "dma", "tma", "vidya", "smm"}
AverageDirectionalIndex_RunSum == {"sma", "wma", "swma", "trima"}
AverageDirectionalIndex_ADX(v, cs) == IF FxGt(cs, FxFromInt(250)) THEN AnyVal ELSE Ex(v, FxMulInt(cs, 4))
AverageDirectionalIndex_Init(cfg, c) ==
    LET tr == TRClose(c, c.c)
    IN  [hw |-> WFill(cfg.period1 + 1, c.h), lw |-> WFill(cfg.period1 + 1, c.l), pc |-> c.c,
         tr |-> MInit(cfg.method1, tr), pdi |-> MInit(cfg.method1, FxZero), mdi |-> MInit(cfg.method1, FxZero),
         ma2 |-> MInit(cfg.method2, FxZero), trmag |-> tr, dmag |-> FxZero, amag |-> FxZero, cs |-> FxOne]
AverageDirectionalIndex_Step(cfg, st, c, P, V) ==
    LET tri   == TRClose(c, st.pc)
        a     == MStep(cfg.method1, st.tr, tri)
        hw    == WPush(st.hw, c.h)
        lw    == WPush(st.lw, c.l)
        trmag == FxMax(st.trmag, tri)
        base  == [st EXCEPT !.hw = hw, !.lw = lw, !.tr = a.st, !.trmag = trmag]
    IN  IF FxIsZero(a.out)
        THEN LET x == MStep(cfg.method2, st.ma2, FxZero)
                 e == IF FxIsZero(trmag) THEN Ex(FxZero, FxOne) ELSE AnyVal   \* a FIR atr that returned to 0: rounding residue decides
             IN  [st |-> [base EXCEPT !.ma2 = x.st], vals |-> <<AverageDirectionalIndex_ADX(x.out, st.cs), e, e>>]
        ELSE LET du   == FxSub(c.h, hw[1])
                 dd   == FxSub(lw[1], c.l)
                 pdm  == IF FxGt(du, dd) /\ du.s > 0 THEN du ELSE FxZero
                 mdm  == IF FxGt(dd, du) /\ dd.s > 0 THEN dd ELSE FxZero
                 dmag == FxMax(st.dmag, FxMax(pdm, mdm))
                 p    == MStep(cfg.method1, st.pdi, pdm)
                 m    == MStep(cfg.method1, st.mdi, mdm)
                 sden == FxAdd(p.out, m.out)
                 tt   == IF FxIsZero(sden) THEN FxZero
                         ELSE FxDiv(FxMulInt(FxAbs(FxSub(p.out, m.out)), a.out.s), sden)
                 x    == MStep(cfg.method2, st.ma2, tt)
                 amag == FxMax(st.amag, FxMax(FxAbs(p.out), FxAbs(m.out)))
                 mag  == IF cfg.method1.ma \in AverageDirectionalIndex_RunSum THEN amag ELSE dmag
                 \* an exact sum of 0 after non-zero moves (running sums / negative weights): the code divides two rounding
                 \* residues there, the quotient is not determined (quotient rule) and neither is the ADX from then on
                 cs   == IF cfg.method1.ma \in AverageDirectionalIndex_WellCond THEN st.cs
                         ELSE IF FxIsZero(sden) THEN (IF FxIsZero(mag) THEN st.cs ELSE FxFromInt(1000))
                         ELSE FxMax(st.cs, FxAdd(FxOne, FxDiv(FxMul(FxAdd(FxOne, FxAbs(tt)), mag), FxAbs(sden))))
                 sn   == FxMulInt(dmag, 4)
                 sd   == FxMulInt(trmag, 4)
             IN  [st |-> [base EXCEPT !.pc = c.c, !.pdi = p.st, !.mdi = m.st, !.ma2 = x.st, !.dmag = dmag, !.amag = amag, !.cs = cs],
                  vals |-> <<AverageDirectionalIndex_ADX(x.out, cs), Qx(p.out, a.out, sn, sd), Qx(m.out, a.out, sn, sd)>>]

AverageDirectionalIndex_SigInit(cfg, c) == <<>>
AverageDirectionalIndex_Sig(cfg, sg, c, v) ==
    LET d == FCmp(v[2], v[3])
    IN  {[sg |-> sg,
          sigs |-> <<{Act(B2I(over) * d)},
                     IF d = 0 THEN {0, -1} ELSE ActFSet(FxSub(v[2].x, v[3].x))>>]
         : over \in GtSet(v[1].x, cfg.zone)}
=============================================================================
