---------------------------- MODULE Window_proofs ----------------------------
(***************************************************************************)
(* Machine-checked (TLAPS) lemmas about the ring arithmetic of Window.tla   *)
(* for an ARBITRARY PeriodType width: PMAX is any natural >= 3, the window  *)
(* capacity n any value in 1..PMAX-1.  MC_Window checks the same facts      *)
(* exhaustively for PMAX = 255 (all 255 capacities, every phase); these     *)
(* lemmas extend them to period_type_u16 / u32 / u64 (C20), where an        *)
(* exhaustive check is out of reach.                                        *)
(*                                                                           *)
(* Pos(w, j) is the 0-based buffer cell of the j-th oldest element          *)
(* (j = 1 oldest .. n newest) -- the mod-free form of AbsFromParts.         *)
(***************************************************************************)
EXTENDS WindowCore, TLAPS

Pos(w, j) == IF w.index + j - 1 < w.size THEN w.index + j - 1 ELSE w.index + j - 1 - w.size

Ring(w, n) == /\ n \in 1..(PMAX - 1)
              /\ w = [buf |-> w.buf, index |-> w.index, size |-> w.size, s_1 |-> w.s_1]
              /\ w.size = n /\ w.s_1 = n - 1 /\ w.index \in 0..(n - 1)

\* construction yields a ring at phase 0
THEOREM NewRing ==
    ASSUME NEW n \in 1..(PMAX - 1), NEW v
    PROVE  Ring(WNew(n, v), n) /\ ~WNewPanics(n)
  BY PMAXAssumption DEF Ring, WNew, WNewPanics, SatSub

\* Pos is a bijection-shaped map into the buffer: every cell index is in range
THEOREM PosInRange ==
    ASSUME NEW w, NEW n, Ring(w, n), NEW j \in 1..n
    PROVE  Pos(w, j) \in 0..(n - 1)
  BY DEF Ring, Pos

\* get(i) / Index(i): the cell of the element pushed i steps ago is Pos(n - i); out of range -> None, never a cell
THEOREM SliceIndexRing ==
    ASSUME NEW w, NEW n, Ring(w, n), NEW i \in 0..PMAX
    PROVE  /\ i > n - 1 => SliceIndex(w, i) = -1
           /\ i <= n - 1 => SliceIndex(w, i) = Pos(w, n - i)
           /\ i <= n - 1 => SliceIndex(w, i) \in 0..(n - 1)
  <1>1. PMAX \in Nat /\ PMAX >= 3  BY PMAXAssumption
  <1>2. CASE i > n - 1
    BY <1>2, <1>1 DEF Ring, SliceIndex
  <1>3. CASE i <= n - 1 /\ w.index + (n - 1 - i) >= n
    <2> DEFINE idx == w.s_1 - i
               sat == SatAdd(w.index, idx)
               ovf == IF sat >= w.size THEN 1 ELSE 0
               s   == PSub(w.size, w.index)
    <2>1. idx = n - 1 - i /\ idx \in 0..(n - 1)  BY <1>3, <1>1 DEF Ring
    <2>2. sat \in Int /\ sat >= n  BY <1>3, <1>1, <2>1 DEF Ring, SatAdd, Min2
    <2>3. ovf = 1  BY <2>2 DEF Ring
    <2>4. s = n - w.index /\ s # OVF  BY <1>1 DEF Ring, PSub, OVF
    <2>5. SatSub(idx, s) = w.index + idx - n  BY <1>3, <2>1, <2>4 DEF Ring, SatSub
    <2>6. SliceIndex(w, i) = ovf * SatSub(idx, s) + (1 - ovf) * sat
      BY <1>3, <2>4, <1>1 DEF Ring, SliceIndex, OVF
    <2>7. SliceIndex(w, i) = w.index + idx - n
      BY <2>2, <2>3, <2>5, <2>6, <2>1, <1>1 DEF Ring
    <2> HIDE DEF idx, sat, ovf, s
    <2> QED BY <2>7, <2>1, <1>3, <1>1 DEF Ring, Pos
  <1>4. CASE i <= n - 1 /\ w.index + (n - 1 - i) < n
    <2> DEFINE idx == w.s_1 - i
               sat == SatAdd(w.index, idx)
               ovf == IF sat >= w.size THEN 1 ELSE 0
               s   == PSub(w.size, w.index)
    <2>1. idx = n - 1 - i /\ idx \in 0..(n - 1)  BY <1>4, <1>1 DEF Ring
    <2>2. sat = w.index + idx /\ sat < n  BY <1>4, <1>1, <2>1 DEF Ring, SatAdd, Min2
    <2>3. ovf = 0  BY <2>2 DEF Ring
    <2>4. s = n - w.index /\ s # OVF  BY <1>1 DEF Ring, PSub, OVF
    <2>5. SatSub(idx, s) \in Int  BY <2>1, <2>4, <1>1 DEF Ring, SatSub
    <2>6. SliceIndex(w, i) = ovf * SatSub(idx, s) + (1 - ovf) * sat
      BY <1>4, <2>4, <1>1 DEF Ring, SliceIndex, OVF
    <2>7. SliceIndex(w, i) = w.index + idx
      BY <2>2, <2>3, <2>5, <2>6, <2>1, <1>1 DEF Ring
    <2> HIDE DEF idx, sat, ovf, s
    <2> QED BY <2>7, <2>1, <1>4, <1>1 DEF Ring, Pos
  <1> QED BY <1>2, <1>3, <1>4, <1>1 DEF Ring

\* push: writes the cell of the OLDEST element, never overflows, and shifts every age by one
THEOREM PushRing ==
    ASSUME NEW w, NEW n, Ring(w, n), NEW v
    PROVE  LET w2 == WPush(w, v) IN
           /\ WPushArithOk(w)
           /\ w.index = Pos(w, 1)                                  \* the cell that is overwritten (and returned)
           /\ w2.size = n /\ w2.s_1 = n - 1 /\ w2.index \in 0..(n - 1)
           /\ Pos(w2, n) = w.index                                 \* the new value is the newest afterwards
           /\ \A j \in 1..(n - 1) : Pos(w2, j) = Pos(w, j + 1)      \* everything else is one step older
  <1>1. PMAX \in Nat /\ PMAX >= 3  BY PMAXAssumption
  <1> DEFINE w2 == WPush(w, v)
  <1>2. PAdd(w.index, 1) = w.index + 1  BY <1>1 DEF Ring, PAdd, OVF
  <1>3. WPushArithOk(w)  BY <1>2, <1>1 DEF Ring, WPushArithOk, OVF
  <1>4. w2.size = n /\ w2.s_1 = n - 1 /\ w2.index = (IF w.index # n - 1 THEN w.index + 1 ELSE 0)
    BY <1>2 DEF Ring, WPush
  <1>5. w2.index \in 0..(n - 1)  BY <1>4, <1>1 DEF Ring
  <1>6. w.index = Pos(w, 1)  BY <1>1 DEF Ring, Pos
  <1>7. Pos(w2, n) = w.index  BY <1>4, <1>1 DEF Ring, Pos
  <1>8. \A j \in 1..(n - 1) : Pos(w2, j) = Pos(w, j + 1)  BY <1>4, <1>1 DEF Ring, Pos
  <1> HIDE DEF w2
  <1> QED BY <1>3, <1>4, <1>5, <1>6, <1>7, <1>8 DEF w2

\* newest / oldest
THEOREM EndsRing ==
    ASSUME NEW w, NEW n, Ring(w, n)
    PROVE  /\ WNewestIdx(w) = Pos(w, n)
           /\ w.index = Pos(w, 1)
  BY DEF Ring, WNewestIdx, Pos

\* iterators: the cursor of the forward iterator moves to the next-older cell, of the reversed one to the next-newer
THEOREM IterRing ==
    ASSUME NEW w, NEW n, Ring(w, n), NEW j \in 1..n, NEW k \in 1..n
    PROVE  LET it == [index |-> IF j = n THEN w.index ELSE Pos(w, j + 1), size |-> k]   \* cursor "just after" element j
               nx == ItNext(w, it).it
               rv == [index |-> Pos(w, j), size |-> k]
               rn == RevNext(w, rv).it
           IN  /\ nx.index = Pos(w, j) /\ nx.size = k - 1
               /\ rn.index = (IF j = n THEN w.index ELSE Pos(w, j + 1)) /\ rn.size = k - 1
  <1>1. PMAX \in Nat /\ PMAX >= 3  BY PMAXAssumption
  <1> DEFINE c == IF j = n THEN w.index ELSE Pos(w, j + 1)
  <1>2. c \in 0..(n - 1)  BY <1>1 DEF Ring, Pos
  <1>3. SatSub(c, 1) + (IF c = 0 THEN 1 ELSE 0) * w.s_1 = Pos(w, j)
    <2>1. CASE c = 0   BY <2>1, <1>1, <1>2 DEF Ring, Pos, SatSub
    <2>2. CASE c # 0   BY <2>2, <1>1, <1>2 DEF Ring, Pos, SatSub
    <2> QED BY <2>1, <2>2
  <1>4. ItNext(w, [index |-> c, size |-> k]).it = [index |-> Pos(w, j), size |-> k - 1]
    BY <1>3, <1>1 DEF ItNext
  <1>5. RevNext(w, [index |-> Pos(w, j), size |-> k]).it = [index |-> IF Pos(w, j) # w.s_1 THEN Pos(w, j) + 1 ELSE 0, size |-> k - 1]
    BY <1>1 DEF RevNext
  <1>6. (IF Pos(w, j) # w.s_1 THEN Pos(w, j) + 1 ELSE 0) = c  BY <1>1 DEF Ring, Pos
  <1> HIDE DEF c
  <1> QED BY <1>4, <1>5, <1>6 DEF c
=============================================================================
