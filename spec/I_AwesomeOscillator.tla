---------------------------- MODULE I_AwesomeOscillator ----------------------------
(* AwesomeOscillator(ma1 slow, ma2 fast, source, left, right, conseq_peaks k): value = ma2(src) - ma1(src) (signed).  *)
(* S0 "twin peaks": r = ReversalSignal(left, right; seed 0)(value); pk counts the high pivots (peaks) seen while the   *)
(* value stays <= 0, tr counts the low pivots (troughs) seen while it stays >= 0 (both saturate at 255 and are reset  *)
(* AFTER the signal of the bar is formed); full buy on a peak when pk >= k, full sell on a trough when tr >= k.       *)
(* S1 = value crosses 0.                                                                                              *)
\* SPEC: values signals
EXTENDS IndLib

AwesomeOscillator_Init(cfg, c) == LET src == Src(c, cfg.source) IN [m1 |-> MInit(cfg.ma1, src), m2 |-> MInit(cfg.ma2, src)]
AwesomeOscillator_Step(cfg, st, c, P, V) ==
    LET src == Src(c, cfg.source)
        S   == SrcScale(cfg.source, P, V)
        a   == MStep(cfg.ma1, st.m1, src)
        b   == MStep(cfg.ma2, st.m2, src)
    IN  [st |-> [m1 |-> a.st, m2 |-> b.st], vals |-> <<Ex(FxSub(b.out, a.out), FxMulInt(S, 4))>>]

AwesomeOscillator_Sat(n) == IF n > 255 THEN 255 ELSE n
AwesomeOscillator_SigInit(cfg, c) == [rev |-> RevBothInit(cfg.left, cfg.right, ZeroV), pk |-> 0, tr |-> 0, x |-> 0]
AwesomeOscillator_Sig(cfg, sg, c, v) ==
    LET r  == RevBothNext(sg.rev, v[1])
        tr == AwesomeOscillator_Sat(sg.tr + B2I(r.out > 0))
        pk == AwesomeOscillator_Sat(sg.pk + B2I(r.out < 0))
        s0 == B2I(r.out < 0 /\ pk >= cfg.conseq_peaks) - B2I(r.out > 0 /\ tr >= cfg.conseq_peaks)
    IN  {[sg |-> [rev |-> r.st, pk |-> IF FLe(v[1], ZeroV) THEN pk ELSE 0, tr |-> IF FGe(v[1], ZeroV) THEN tr ELSE 0,
                  x |-> CrossLast(v[1], ZeroV)],
          sigs |-> <<{Act(s0)}, {Act(CrossOut(sg.x, v[1], ZeroV))}>>]}
=============================================================================
