------------------------------- MODULE Window -------------------------------
(***************************************************************************)
(* yata::core::Window<T>: WindowCore.tla (every definition) plus the        *)
(* recursive operators that run an iterator k steps.  Every other module    *)
(* extends this one.                                                        *)
(***************************************************************************)
EXTENDS WindowCore

\* run an iterator k steps: [outs |-> the k results, its |-> the k+1 iterator states]
RECURSIVE ItRun(_, _, _, _, _), RevRun(_, _, _, _, _)
ItRun(w, it, k, outs, its) ==
    IF k = 0 THEN [outs |-> outs, its |-> its]
    ELSE LET r == ItNext(w, it) IN ItRun(w, r.it, k - 1, Append(outs, r.out), Append(its, r.it))
RevRun(w, it, k, outs, its) ==
    IF k = 0 THEN [outs |-> outs, its |-> its]
    ELSE LET r == RevNext(w, it) IN RevRun(w, r.it, k - 1, Append(outs, r.out), Append(its, r.it))
ItFull(w, k)  == ItRun(w, ItNew(w), k, <<>>, <<ItNew(w)>>)
RevFull(w, k) == RevRun(w, ItNew(w), k, <<>>, <<ItNew(w)>>)

=============================================================================
