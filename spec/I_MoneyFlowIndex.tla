----------------------------- MODULE I_MoneyFlowIndex -----------------------------
(* MoneyFlowIndex(period n, zone in [0, 0.5]): over the last n candles, pmf = sum of the volumes of the candles whose *)
(* typical price is above the previous candle's, nmf = likewise below (the candles before the stream equal the first  *)
(* one: no flow).  AS CODED the flow of a candle is its VOLUME (the referenced definition uses tp * volume), and the   *)
(* money ratio is 1 when nmf = 0 (the referenced definition gives MFI = 100 there): value = 1 - 1/(1 + pmf/nmf)        *)
(* = pmf / (pmf + nmf), and 0.5 when nmf = 0.  Values [1 - zone, value, zone].                                        *)
(* Signals on the logged values: S0 (enters) = [value crosses lower downwards] - [value crosses upper upwards],       *)
(* S1 (leaves) = [value crosses lower upwards] - [value crosses upper downwards]; detectors are Cross::default().     *)
(* pmf and nmf are running sums in the code and the guard is `nmf == 0.0`: once a negative flow has passed through    *)
(* the window the sum may keep a rounding residue, so when the exact nmf is 0 the code answers 0.5 (residue exactly   *)
(* 0) or pmf / (pmf + residue) -- that case is left unspecified (AnyVal).                                             *)
\* SPEC: values signals
EXTENDS IndLib

MoneyFlowIndex_Init(cfg, c) == [w |-> WFill(cfg.period + 1, c), clean |-> TRUE]
MoneyFlowIndex_Step(cfg, st, c, P, V) ==
    LET n == cfg.period
        w == WPush(st.w, c)
        up(i) == FxGt(TP(w[i]), TP(w[i - 1]))
        dn(i) == FxLt(TP(w[i]), TP(w[i - 1]))
        pmf == FxSum([i \in 1..n |-> IF up(i + 1) THEN w[i + 1].v ELSE FxZero])
        nmf == FxSum([i \in 1..n |-> IF dn(i + 1) THEN w[i + 1].v ELSE FxZero])
        clean == st.clean /\ ~(dn(n + 1) /\ ~FxIsZero(c.v))         \* no negative flow ever: the code's nmf is exactly 0.0
        SV == FxMulInt(V, n)
    IN  [st |-> [w |-> w, clean |-> clean],
         vals |-> <<Ex(FxSub(FxOne, cfg.zone), FxOne),
                    IF clean THEN Ex(FxFromRat(1, 2), FxOne)
                    ELSE IF FxIsZero(nmf) THEN AnyVal
                    ELSE Qx(pmf, FxAdd(pmf, nmf), SV, FxMulInt(SV, 2)),
                    Ex(cfg.zone, FxOne)>>]

MoneyFlowIndex_SigInit(cfg, c) == [u |-> 0, l |-> 0]
MoneyFlowIndex_Sig(cfg, sg, c, v) ==
    LET cu == CrossOut(sg.u, v[2], v[1])
        cl == CrossOut(sg.l, v[2], v[3])
    IN  {[sg |-> [u |-> CrossLast(v[2], v[1]), l |-> CrossLast(v[2], v[3])],
          sigs |-> <<{Act(B2I(cl < 0) - B2I(cu > 0))}, {Act(B2I(cl > 0) - B2I(cu < 0))}>>]}
=============================================================================
