----------------------------- MODULE I_BollingerBands -----------------------------
(* BollingerBands(avg_size n, sigma, source): middle = SMA(n)(src), sd = sample standard deviation of the last n;  *)
(* values [middle + sigma sd, middle, middle - sigma sd].  S0 = Action(2 rel - 1), rel = (src - lower)/(upper -    *)
(* lower), 0.5 on a zero range -- evaluated on the logged bands.                                                   *)
\* SPEC: values signals
EXTENDS IndLib

BollingerBands_Init(cfg, c) == [w |-> WFill(cfg.avg_size, Src(c, cfg.source))]
BollingerBands_Step(cfg, st, c, P, V) ==
    LET n == cfg.avg_size
        w == WPush(st.w, Src(c, cfg.source))
        S == SrcScale(cfg.source, P, V)
        mid == SMADef(n, w)
        v2 == FxMul(FxSqr(cfg.sigma), VarDef(n, w))            \* (sigma sd)^2
        S2 == FxMul(FxSqr(cfg.sigma), FxSqr(S))
    IN  [st |-> [w |-> w], vals |-> <<SqOff(mid, v2, 1, S2, S), Ex(mid, S), SqOff(mid, v2, -1, S2, S)>>]

BollingerBands_SigInit(cfg, c) == <<>>
BollingerBands_Sig(cfg, sg, c, v) ==
    LET range == FxSub(v[1].x, v[3].x)
        src == Src(c, cfg.source)
    IN  {[sg |-> sg, sigs |-> <<IF FEq(v[1], v[3]) THEN ActFSet(FxZero)
                                 ELSE ActFSet(FxSub(FxMulInt(FxDiv(FxSub(src, v[3].x), range), 2), FxOne))>>]}
=============================================================================
