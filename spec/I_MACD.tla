--------------------------------- MODULE I_MACD ---------------------------------
(* MACD(ma1 < ma2, signal, source): macd = ma1(src) - ma2(src); signal line = signal(macd), seeded 0.        *)
(* Values [macd, line].  Signals: S0 = macd crosses line, S1 = macd crosses 0 (+ when crossing upwards).      *)
\* SPEC: values signals
EXTENDS IndLib

MACD_Init(cfg, c) == LET src == Src(c, cfg.source)
                     IN  [m1 |-> MInit(cfg.ma1, src), m2 |-> MInit(cfg.ma2, src), m3 |-> MInit(cfg.signal, FxZero)]
MACD_Step(cfg, st, c, P, V) ==
    LET src == Src(c, cfg.source)
        S   == SrcScale(cfg.source, P, V)
        a   == MStep(cfg.ma1, st.m1, src)
        b   == MStep(cfg.ma2, st.m2, src)
        macd == FxSub(a.out, b.out)
        l   == MStep(cfg.signal, st.m3, macd)
    IN  [st |-> [m1 |-> a.st, m2 |-> b.st, m3 |-> l.st], vals |-> <<Ex(macd, FxMulInt(S, 4)), Ex(l.out, FxMulInt(S, 8))>>]

MACD_SigInit(cfg, c) == [x1 |-> 0, x2 |-> 0]
MACD_Sig(cfg, sg, c, v) ==
    {[sg |-> [x1 |-> CrossLast(v[1], v[2]), x2 |-> CrossLast(v[1], ZeroV)],
      sigs |-> <<{Act(CrossOut(sg.x1, v[1], v[2]))}, {Act(CrossOut(sg.x2, v[1], ZeroV))}>>]}
=============================================================================
