---------------------------------- MODULE I_Aroon ----------------------------------
(* Aroon(period p, signal_zone z, over_zone_period o): up = (p - age of the newest highest high)/p, down likewise   *)
(* with the lowest low, over the last p candles.  S0 = up crosses down; S1 = [new high] - [new low];                *)
(* S2 = Action((uptrend - downtrend)/o) with uptrend counting consecutive bars with up >= 1-z and down <= z.         *)
\* SPEC: values signals
EXTENDS IndLib

Aroon_Init(cfg, c) == [hw |-> WFill(cfg.period, c.h), lw |-> WFill(cfg.period, c.l)]
Aroon_Step(cfg, st, c, P, V) ==
    LET hw == WPush(st.hw, c.h)  lw == WPush(st.lw, c.l)  p == cfg.period
    IN  [st |-> [hw |-> hw, lw |-> lw],
         vals |-> <<Ex(FxFromRat(p - HiAge(hw), p), FxOne), Ex(FxFromRat(p - LoAge(lw), p), FxOne)>>]

Aroon_SigInit(cfg, c) == [x |-> 0, ut |-> 0, dt |-> 0]
Aroon_Sig(cfg, sg, c, v) ==
    LET up == v[1].x  down == v[2].x  z == cfg.signal_zone  omz == FxSub(FxOne, z)
    IN  {[sg |-> [x |-> CrossLast(v[1], v[2]),
                  ut |-> IF upo /\ dnu THEN sg.ut + 1 ELSE 0,
                  dt |-> IF dno /\ upu THEN sg.dt + 1 ELSE 0],
          sigs |-> <<{Act(CrossOut(sg.x, v[1], v[2]))},
                     {Act(B2I(FxGe(up, FxOne)) - B2I(FxGe(down, FxOne)))},
                     ActFSet(FxDivInt(FxFromInt((IF upo /\ dnu THEN sg.ut + 1 ELSE 0) - (IF dno /\ upu THEN sg.dt + 1 ELSE 0)), cfg.over_zone_period))>>]
         : upo \in GeSet(up, omz), dnu \in LeSet(down, z), dno \in GeSet(down, omz), upu \in LeSet(up, z)}
=============================================================================
