------------------------------ MODULE MC_Params ------------------------------
(* Complete evaluation of Params.tla: every subject, every value 0..PMAX (+ PMAX+1, PMAX+45 for counts), *)
(* all pairs for the two-parameter constructors.  One state per (subject, first parameter).              *)
EXTENDS Params, TLC, Json

VARIABLES s, a, ma          \* ma: the constructor is reached through MA::init
vars == <<s, a, ma>>
Vals == 0..PMAX
Init == \/ s \in OneParam /\ a \in Vals \cup {PMAX + 1, PMAX + 45} /\ ma = FALSE
        \/ s \in TwoParam /\ a \in Vals /\ ma = FALSE
        \/ s \in MAKinds /\ a \in Vals /\ ma = TRUE
Next == UNCHANGED vars
Spec == Init /\ [][Next]_vars

Row1 == IF ma THEN MAInit(s, a) ELSE IF s \in {"Conv", "CollapseTimeframe"} \/ a <= PMAX THEN Out1(s, a) ELSE "n/a"
Row2 == [b \in 1..(PMAX + 1) |-> Out2(s, a, b - 1)]

\* the documented-too-small lengths are errors
SmallIsErr == (~ma /\ s \in OneParam /\ s \notin {"Integral", "ADI"} /\ TooSmall(s, a)) => Row1 = "err"

\* reported, not asserted: panicking parameter values are printed in the table and confirmed on the real constructors
Emit == PrintT(<<"ROW", ToJson(IF s \in TwoParam THEN [subject |-> s, a |-> a, outs |-> Row2]
                               ELSE [subject |-> s, a |-> a, ma |-> ma, out |-> Row1,
                                     nonfinite |-> IF ~ma /\ s \in OneParam /\ a <= PMAX THEN OutInit(s, a, FALSE) ELSE "n/a"])>>)
=============================================================================
