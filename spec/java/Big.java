/*
 * TLC module override for Big.tla: the big-natural operators evaluated with java.math.BigInteger.
 *
 * The TLA+ definitions in Big.tla remain the semantics; this class only accelerates their evaluation
 * (TLC loads a class named like the module and replaces operators by public static methods of the
 * same name and arity -- the mechanism the standard and community modules use).  bin/selftest runs
 * Test_Big.tla with and without this class on the classpath against Python reference results.
 */
import java.math.BigInteger;
import tlc2.value.impl.IntValue;
import tlc2.value.impl.TupleValue;
import tlc2.value.impl.Value;

public class Big {
    private static final BigInteger BASE = BigInteger.valueOf(10000);

    private static BigInteger toBig(final Value v) {
        final TupleValue t = (TupleValue) v.toTuple();
        BigInteger r = BigInteger.ZERO;
        for (int i = t.elems.length - 1; i >= 0; i--) {
            r = r.multiply(BASE).add(BigInteger.valueOf(((IntValue) t.elems[i]).val));
        }
        return r;
    }

    private static Value fromBig(BigInteger b) {
        if (b.signum() == 0) {
            return new TupleValue(new Value[0]);
        }
        final java.util.ArrayList<Value> limbs = new java.util.ArrayList<>();
        while (b.signum() > 0) {
            final BigInteger[] qr = b.divideAndRemainder(BASE);
            limbs.add(IntValue.gen(qr[1].intValue()));
            b = qr[0];
        }
        return new TupleValue(limbs.toArray(new Value[0]));
    }

    public static Value BNorm(final Value a) { return fromBig(toBig(a)); }
    public static Value BAdd(final Value a, final Value b) { return fromBig(toBig(a).add(toBig(b))); }
    public static Value BSub(final Value a, final Value b) { return fromBig(toBig(a).subtract(toBig(b))); }
    public static Value BMul(final Value a, final Value b) { return fromBig(toBig(a).multiply(toBig(b))); }
    public static Value BCmp(final Value a, final Value b) { return IntValue.gen(toBig(a).compareTo(toBig(b))); }
    public static Value BMulSmall(final Value a, final Value k) {
        return fromBig(toBig(a).multiply(BigInteger.valueOf(((IntValue) k).val)));
    }
    public static Value BDivSmall(final Value a, final Value k) {
        return fromBig(toBig(a).divide(BigInteger.valueOf(((IntValue) k).val)));
    }
    public static Value BModSmall(final Value a, final Value k) {
        return IntValue.gen(toBig(a).mod(BigInteger.valueOf(((IntValue) k).val)).intValue());
    }
    public static Value BDiv(final Value a, final Value b) { return fromBig(toBig(a).divide(toBig(b))); }
    public static Value BSqrt(final Value a) { return fromBig(toBig(a).sqrt()); }
}
