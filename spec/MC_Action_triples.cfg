CONSTANTS
  Mode = "triples"
SPECIFICATION Spec
INVARIANTS Unary Pairs Triples Reported Float
CHECK_DEADLOCK FALSE
