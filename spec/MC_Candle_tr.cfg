CONSTANTS
  Mode = "tr"
SPECIFICATION Spec
INVARIANTS ValidateInv TRInv AddInv Emit
CHECK_DEADLOCK FALSE
