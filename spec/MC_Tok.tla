-------------------------------- MODULE MC_Tok --------------------------------
(***************************************************************************)
(* Model-checking instance for the token-domain subjects (C04, C14, C07).   *)
(*                                                                           *)
(* State = (implementation-shaped state, abstract state, last outputs).     *)
(* The reachable graph is finite WITHOUT a depth bound (windows over a      *)
(* finite alphabet, saturating counters), so a completed run covers every   *)
(* stream of every length over the alphabet.  Invariant Conform says the    *)
(* implementation-shaped output equals the definition in every state.       *)
(*                                                                           *)
(* Emit mode (EmitDepth > 0) adds the input history to the state, making    *)
(* the graph a tree of bounded depth, and prints one behaviour per state    *)
(* for replay on the real crate (direction A).                              *)
(***************************************************************************)
EXTENDS TokSubjects, TLC, Json

CONSTANTS Inits,        \* construction values (tokens; pairs are built from them)
          Subjects,     \* subject names explored by this configuration
          Lens,         \* window lengths (selection) / max left,right (reversal)
          Ranks,        \* ranks of the input alphabet
          WithNegZero,  \* include -0.0 in the alphabet
          EmitDepth,    \* 0: exhaustive graph; k > 0: behaviours of length <= k are printed
          FirstIsInit   \* the first input equals the construction value (what Method::new prescribes)

VARIABLES subj, par, st, ast, out, aout, xs, ys, v0

vars == <<subj, par, st, ast, out, aout, xs, ys, v0>>

Toks == {<<r, 0>> : r \in Ranks} \cup (IF WithNegZero /\ 0 \in Ranks THEN {<<0, 1>>} ELSE {})

Params(s) == IF s \in SelSubjects THEN {<<n>> : n \in Lens}
             ELSE IF s \in CrossSubjects THEN {<<>>}
             ELSE {<<l, r>> \in Lens \X Lens : RevParamsOk(l, r) /\ l + r + 1 <= PMAX - 1}
Inputs(s) == IF s \in CrossSubjects THEN Toks \X Toks ELSE Toks

InitToks == {t \in Toks : t \in Inits}
InitVals(s) == IF s \in CrossSubjects THEN InitToks \X InitToks ELSE InitToks

Init == \E s \in Subjects : \E p \in Params(s) : \E v \in InitVals(s) :
          /\ subj = s /\ par = p /\ v0 = v
          /\ st = SInit(s, p, v)
          /\ ast = AInit(s, p, v)
          /\ out = <<>> /\ aout = <<>> /\ xs = <<>> /\ ys = <<>>

Step(x) == \E r \in SNext(subj, st, x) :
             LET a == ANext(subj, par, ast, x)
             IN  /\ st' = r.st /\ out' = r.out
                 /\ ast' = a.st /\ aout' = a.out
                 /\ xs' = IF EmitDepth > 0 THEN Append(xs, x) ELSE <<>>
                 /\ ys' = IF EmitDepth > 0 THEN Append(ys, a.out) ELSE <<>>
                 /\ UNCHANGED <<subj, par, v0>>

Next == /\ EmitDepth > 0 => Len(xs) < EmitDepth
        /\ \E x \in Inputs(subj) :
             /\ (FirstIsInit /\ out = <<>>) => x = v0
             /\ Step(x)

Spec == Init /\ [][Next]_vars

----------------------------------------------------------------------------
Conform == out = aout

\* structural invariants of SMM (every slice access in bounds is part of SmmNext's outcome)
SmmInv == subj = "SMM" => SmmSorted(st) /\ SmmPerm(st) /\ out # <<"panic">>
\* a restored SMM (slice rebuilt by sorting the window) continues like the original
SmmRestoreInv ==
    subj = "SMM" =>
       \A r \in SmmRestore(st) : \A x \in Toks :
          {q.out : q \in SmmNext(r, x)} = {q.out : q \in SmmNext(st, x)}
NoOvf == /\ subj \in {"HighestIndex", "LowestIndex"} => out # <<OVF>>
         /\ subj \in {"UpperReversalSignal", "LowerReversalSignal"} => st.ext_index # OVF

\* Cross(a, b) = -Cross(b, a): checked on the implementation-shaped machine for every next input
Antisym == subj = "Cross" =>
             \A x \in Inputs(subj) :
                \A r \in CrossNext(st, x) : \A q \in CrossNext([last |-> -st.last], Swap(x)) :
                    r.out[1] = -q.out[1]

\* one behaviour per leaf of the tree: inputs and the definition's output after each of them
Emit == (EmitDepth > 0 /\ Len(xs) = EmitDepth) =>
          PrintT(<<"REPLAY", ToJson([subject |-> subj, params |-> par, init |-> v0, xs |-> xs, ys |-> ys])>>)

----------------------------------------------------------------------------
(* constants for the .cfg files *)
SelAll  == SelSubjects
CrossAll == CrossSubjects
RevAll  == RevSubjects
L1to5 == 1..5
L1to6 == 1..6
L1to4 == 1..4
L1to3 == 1..3
L1to2 == 1..2
R5 == -2..2
R4 == -1..2
R3 == 0..2
R3z == -1..1
AllToks == Int \X {0, 1}
ZeroOnly == {<<0, 0>>}
ZeroOne == {<<0, 0>>, <<1, 0>>}
ZeroBoth == {<<0, 0>>, <<0, 1>>}        \* construction value +0.0 or -0.0
SelOnly(s) == {s}
=============================================================================
