----------------------------- MODULE I_ChandeKrollStop -----------------------------
(* ChandeKrollStop(ma(p), x, q, source): atr = ma(true range against the previous close), seeded with the range of   *)
(* the first candle; phs = Highest(p)(high) - x atr, pls = Lowest(p)(low) + x atr; stop short = Highest(q)(phs), stop *)
(* long = Lowest(q)(pls), their windows seeded with high - x range / low + x range of the first candle.               *)
(* Values [stop long, source, stop short].                                                                            *)
(* S0 = Action((src - mid) / (mid - long)), mid = (short + long) / 2, 0 when short = long -- on the logged stops.     *)
(* S1 fires only on the bar where stop long crosses stop short upwards (difference long - short was < 0 and is > 0):  *)
(* full buy / sell by the sign of the cumulative move (short - previous short) + (long - previous long).              *)
(* The first bar repeats the construction candle: nothing can cross there unless the two seeds coincide.             *)
\* SPEC: values signals
EXTENDS IndLib

ChandeKrollStop_Init(cfg, c) ==
    LET tr == TRClose(c, c.c)  p == cfg.ma.n
    IN  [pc |-> c.c, ma |-> MInit(cfg.ma, tr), hw |-> WFill(p, c.h), lw |-> WFill(p, c.l),
         sw |-> WFill(cfg.q, FxSub(c.h, FxMul(cfg.x, tr))), gw |-> WFill(cfg.q, FxAdd(c.l, FxMul(cfg.x, tr)))]
ChandeKrollStop_Step(cfg, st, c, P, V) ==
    LET a   == MStep(cfg.ma, st.ma, TRClose(c, st.pc))
        hw  == WPush(st.hw, c.h)
        lw  == WPush(st.lw, c.l)
        sw  == WPush(st.sw, FxSub(Hi(hw), FxMul(cfg.x, a.out)))
        gw  == WPush(st.gw, FxAdd(Lo(lw), FxMul(cfg.x, a.out)))
        SP  == FxMul(P, FxAdd(FxOne, cfg.x))
    IN  [st |-> [pc |-> c.c, ma |-> a.st, hw |-> hw, lw |-> lw, sw |-> sw, gw |-> gw],
         vals |-> <<Ex(Lo(gw), SP), Ex(Src(c, cfg.source), SrcScale(cfg.source, P, V)), Ex(Hi(sw), SP)>>]

ChandeKrollStop_AnySig == {BUY, SELL, NONE}
ChandeKrollStop_SigInit(cfg, c) ==
    LET tr == TRClose(c, c.c)
        s0 == FxSub(c.h, FxMul(cfg.x, tr))
        l0 == FxAdd(c.l, FxMul(cfg.x, tr))
    IN  [first |-> TRUE, near |-> NearEq(l0, s0), d |-> 0, pl |-> ZeroV, ps |-> ZeroV]
ChandeKrollStop_Sig(cfg, sg, c, v) ==
    LET long == v[1]  short == v[3]
        mid  == FxDivInt(FxAdd(short.x, long.x), 2)
        size == FxSub(mid, long.x)
        src  == Src(c, cfg.source)
        s0   == IF FEq(long, short) THEN ActFSet(FxZero)
                ELSE IF NearEq(long.x, short.x) THEN -256..255                \* mid - long is rounding noise
                ELSE ActFSet(FxDiv(FxSub(src, mid), size))
        d    == FCmp(long, short)
        r1   == FxSub(short.x, sg.ps.x)
        r2   == FxSub(long.x, sg.pl.x)
        mv   == IF FEq(short, sg.ps) /\ FEq(long, sg.pl) THEN {0}
                ELSE IF NearEq(r1, FxNeg(r2)) THEN {-1, 0, 1}
                ELSE {FxAdd(r1, r2).s}
        s1   == IF sg.first THEN (IF sg.near THEN ChandeKrollStop_AnySig ELSE {NONE})
                ELSE IF sg.d < 0 /\ d > 0 THEN {Act(m) : m \in mv}
                ELSE {NONE}
    IN  {[sg |-> [first |-> FALSE, near |-> FALSE, d |-> d, pl |-> long, ps |-> short], sigs |-> <<s0, s1>>]}
=============================================================================
