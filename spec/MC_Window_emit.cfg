\* direction A: observer tables for replay (run with -workers 1)
CONSTANTS
  PMAX = 255
  Caps <- EmitSmall
  FullIter <- NoCaps
  EmitCaps <- EmitSmall
SPECIFICATION Spec
INVARIANTS Emit
CHECK_DEADLOCK FALSE
