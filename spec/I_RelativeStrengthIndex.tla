-------------------------- MODULE I_RelativeStrengthIndex --------------------------
(* RelativeStrengthIndex(ma, zone in (0, 0.5], source): change = src - previous src (0 on the first bar);             *)
(* pos = ma(max(change, 0)), neg = -ma(min(change, 0)), both averages seeded 0; value = pos / (pos + neg), and 0.5    *)
(* while pos = neg = 0.  Signals on the logged value: lower = value crosses `zone`, upper = value crosses 1 - zone     *)
(* (both detectors start from the value 0.5); S0 (enters the over-zone) = [lower crossed downwards] - [upper crossed   *)
(* upwards]; S1 (leaves it) = [lower crossed upwards] - [upper crossed downwards].                                    *)
\* SPEC: values signals
EXTENDS IndLib

RelativeStrengthIndex_Init(cfg, c) ==
    [prev |-> Src(c, cfg.source), p |-> MInit(cfg.ma, FxZero), n |-> MInit(cfg.ma, FxZero), flat |-> TRUE]
RelativeStrengthIndex_Step(cfg, st, c, P, V) ==
    LET src == Src(c, cfg.source)
        S   == SrcScale(cfg.source, P, V)
        ch  == FxSub(src, st.prev)
        p   == MStep(cfg.ma, st.p, FxMax(ch, FxZero))
        n   == MStep(cfg.ma, st.n, FxMin(ch, FxZero))
        pos == p.out
        neg == FxNeg(n.out)
        flat == st.flat /\ FxIsZero(ch)           \* no change seen yet: both averages are exactly 0
    IN  [st |-> [prev |-> src, p |-> p.st, n |-> n.st, flat |-> flat],
         vals |-> <<IF flat THEN Ex(FxFromRat(1, 2), FxOne)
                    ELSE Qx(pos, FxAdd(pos, neg), FxMulInt(S, 2), FxMulInt(S, 4))>>]

\* sign of a - b for a logged value a and a bound b the code computes in floating point: any sign when within rounding
RelativeStrengthIndex_SgnSet(a, b) == IF NearEq(a, b) THEN {-1, 0, 1} ELSE {FxSub(a, b).s}
RelativeStrengthIndex_Cross(last, d) == B2I(last < 0 /\ d >= 0) - B2I(last > 0 /\ d <= 0)

RelativeStrengthIndex_SigInit(cfg, c) ==
    [lo |-> FxSub(FxFromRat(1, 2), cfg.zone).s, up |-> FxSub(FxFromRat(1, 2), FxSub(FxOne, cfg.zone)).s]
RelativeStrengthIndex_Sig(cfg, sg, c, v) ==
    {LET oversold   == RelativeStrengthIndex_Cross(sg.lo, dl)
         overbought == RelativeStrengthIndex_Cross(sg.up, du)
     IN  [sg |-> [lo |-> dl, up |-> du],
          sigs |-> <<{Act(B2I(oversold < 0) - B2I(overbought > 0))}, {Act(B2I(oversold > 0) - B2I(overbought < 0))}>>]
     : dl \in {FxSub(v[1].x, cfg.zone).s}, du \in RelativeStrengthIndex_SgnSet(v[1].x, FxSub(FxOne, cfg.zone))}
=============================================================================
