------------------------- MODULE I_DetrendedPriceOscillator -------------------------
(* DetrendedPriceOscillator(ma of period p, source): DPO = src[p div 2 + 1 steps ago] - ma(src), with "steps ago"   *)
(* as the code counts it: the value pushed out of a window of length p div 2 + 1 (the source p div 2 + 1 candles     *)
(* before the current one; the constant prehistory is the first source value).  One value, no signals.               *)
\* SPEC: values signals
EXTENDS IndLib

DetrendedPriceOscillator_Init(cfg, c) ==
    LET src == Src(c, cfg.source)
    IN  [m |-> MInit(cfg.ma, src), w |-> WFill(cfg.ma.n \div 2 + 2, src)]
DetrendedPriceOscillator_Step(cfg, st, c, P, V) ==
    LET src == Src(c, cfg.source)
        S   == SrcScale(cfg.source, P, V)
        a   == MStep(cfg.ma, st.m, src)
        w   == WPush(st.w, src)                       \* p div 2 + 2 newest sources: w[1] is p div 2 + 1 steps back
    IN  [st |-> [m |-> a.st, w |-> w], vals |-> <<Ex(FxSub(w[1], a.out), FxMulInt(S, 4))>>]

DetrendedPriceOscillator_SigInit(cfg, c) == <<>>
DetrendedPriceOscillator_Sig(cfg, sg, c, v) == {[sg |-> sg, sigs |-> <<>>]}
=============================================================================
