----------------------------- MODULE TokSubjects -----------------------------
(***************************************************************************)
(* Uniform interface to every token-domain subject, used by the model       *)
(* checking instance MC_Tok and by the trace specification Trace_Tok:       *)
(*   SInit(s, p, v)      implementation-shaped initial state                *)
(*   SNext(s, st, x)     set of [st, out] (implementation-shaped step)      *)
(*   AInit(s, p, v)      abstract (definitional) state                      *)
(*   ANext(s, p, a, x)   [st, out] of the definition                        *)
(* s : subject name; p : parameter tuple (<<n>>, <<left, right>>, <<>>);    *)
(* v, x : a token, or a pair of tokens for the crossing detectors.          *)
(* Outputs are tuples of integers (ranks, ages, unit actions).              *)
(***************************************************************************)
EXTENDS Selection, Cross, Reversal

SelSubjects == {"Highest", "Lowest", "HighestLowestDelta", "HighestIndex", "LowestIndex", "SMM"}
CrossSubjects == {"CrossAbove", "CrossUnder", "Cross"}
RevSubjects == {"UpperReversalSignal", "LowerReversalSignal", "ReversalSignal"}

SInit(s, p, v) ==
    CASE s = "Highest"             -> HighestInit(p[1], v)
      [] s = "Lowest"              -> LowestInit(p[1], v)
      [] s = "HighestLowestDelta"  -> DeltaInit(p[1], v)
      [] s = "HighestIndex"        -> HIdxInit(p[1], v)
      [] s = "LowestIndex"         -> HIdxInit(p[1], v)
      [] s = "SMM"                 -> SmmInit(p[1], v)
      [] s \in CrossSubjects       -> CrossInit(v)
      [] s = "UpperReversalSignal" -> RevInit(p[1], p[2], v)
      [] s = "LowerReversalSignal" -> RevInit(p[1], p[2], v)
      [] s = "ReversalSignal"      -> BothInit(p[1], p[2], v)

SNext(s, st, x) ==
    CASE s = "Highest"             -> HighestNext(st, x)
      [] s = "Lowest"              -> LowestNext(st, x)
      [] s = "HighestLowestDelta"  -> DeltaNext(st, x)
      [] s = "HighestIndex"        -> HIdxNext(st, x)
      [] s = "LowestIndex"         -> LIdxNext(st, x)
      [] s = "SMM"                 -> SmmNext(st, x)
      [] s = "CrossAbove"          -> AboveNext(st, x)
      [] s = "CrossUnder"          -> UnderNext(st, x)
      [] s = "Cross"               -> CrossNext(st, x)
      [] s = "UpperReversalSignal" -> UpperNext(st, x)
      [] s = "LowerReversalSignal" -> LowerNext(st, x)
      [] s = "ReversalSignal"      -> BothNext(st, x)

AInit(s, p, v) ==
    CASE s \in SelSubjects   -> Fill(p[1], v)
      [] s \in CrossSubjects -> v
      [] s \in RevSubjects   -> AbsInit(p[1], p[2], v)

ANext(s, p, a, x) ==
    CASE s = "Highest"             -> [st |-> Push(a, x), out |-> HighestDef(Push(a, x))]
      [] s = "Lowest"              -> [st |-> Push(a, x), out |-> LowestDef(Push(a, x))]
      [] s = "HighestLowestDelta"  -> [st |-> Push(a, x), out |-> DeltaDef(Push(a, x))]
      [] s = "HighestIndex"        -> [st |-> Push(a, x), out |-> HIdxDef(Push(a, x))]
      [] s = "LowestIndex"         -> [st |-> Push(a, x), out |-> LIdxDef(Push(a, x))]
      [] s = "SMM"                 -> [st |-> Push(a, x), out |-> SmmDef(Push(a, x))]
      [] s = "CrossAbove"          -> [st |-> x, out |-> AboveDef(a, x)]
      [] s = "CrossUnder"          -> [st |-> x, out |-> UnderDef(a, x)]
      [] s = "Cross"               -> [st |-> x, out |-> CrossDef(a, x)]
      [] s = "UpperReversalSignal" -> LET r == AbsNext(a, p[2], x, 1) IN [st |-> r.st, out |-> <<r.out>>]
      [] s = "LowerReversalSignal" -> LET r == AbsNext(a, p[2], x, -1) IN [st |-> r.st, out |-> <<r.out>>]
      [] s = "ReversalSignal"      -> LET u == AbsNext(a, p[2], x, 1)
                                          w == AbsNext(a, p[2], x, -1)
                                      IN  [st |-> u.st, out |-> <<w.out - u.out>>]
=============================================================================
