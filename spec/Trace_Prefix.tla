----------------------------- MODULE Trace_Prefix -----------------------------
(***************************************************************************)
(* C08: the construction value acts as an infinite constant prehistory.     *)
(* Metamorphic trace validation.  For a subject built from v:               *)
(*   const : feeding v again and again returns a constant output -- exactly *)
(*           for selections / signals / counters, up to the rounding        *)
(*           allowance WITHOUT drift term (D = 0) for arithmetic outputs    *)
(*           (in the squared domain for the standard deviation);            *)
(*   pair  : a stream that begins with k extra copies of its first element  *)
(*           produces the same later outputs as the stream itself.          *)
(* Outputs are logged as flat lists of numbers (a candle is five numbers,   *)
(* an action its code).                                                     *)
(***************************************************************************)
EXTENDS NumSubjects, TLC, Json, IOUtils

Rec == ndJsonDeserialize(IOEnv.TRACE)
VARIABLES l, cls, n, S, y0, s0, t
vars == <<l, cls, n, S, y0, s0, t>>
E == Rec[l]
Fx(j) == FxFromJson(j)
NumOK(j) == "s" \in DOMAIN j

\* same list of numbers, component-wise within tol (exact class: tol = 0)
Same(ys, zs, tol) == /\ Len(ys) = Len(zs)
                     /\ \A i \in 1..Len(ys) : /\ NumOK(ys[i]) /\ NumOK(zs[i])
                                              /\ FxLe(FxAbs(FxSub(Fx(ys[i]), Fx(zs[i]))), tol)
\* indicator values (class "ind"): as Same, and a value that is not a number on one side (0/0 of a degenerate first
\* candle) must be the same non-number on the other
SameInd(ys, zs, tol) == /\ Len(ys) = Len(zs)
                        /\ \A i \in 1..Len(ys) :
                              IF NumOK(ys[i]) /\ NumOK(zs[i]) THEN FxLe(FxAbs(FxSub(Fx(ys[i]), Fx(zs[i]))), tol)
                              ELSE ~NumOK(ys[i]) /\ ~NumOK(zs[i]) /\ "k" \in DOMAIN ys[i] /\ "k" \in DOMAIN zs[i] /\ ys[i].k = zs[i].k
\* signals (action codes) are compared exactly, when logged
SigOK(a, b) == a = b
\* standard-deviation-like outputs: compared in the squared domain
SameSq(ys, zs, tol) == /\ Len(ys) = Len(zs)
                       /\ \A i \in 1..Len(ys) : FxLe(FxAbs(FxSub(FxSqr(Fx(ys[i])), FxSqr(Fx(zs[i])))), tol)

Init == l = 1 /\ cls = "" /\ n = 0 /\ S = FxZero /\ y0 = <<>> /\ s0 = <<>> /\ t = 0

TNew == /\ E.ev = "pre_new"
        /\ cls' = E.class /\ n' = E.n /\ S' = Fx(E.scale) /\ y0' = <<>> /\ s0' = <<>> /\ t' = 0

\* rounding allowance without drift: eps * 16 k * S  (k: terms combined; S: magnitude of the output scale)
TolConst == IF cls = "exact" THEN FxZero ELSE Allow(n + 4, 0, 1, S)
TolPair(tt) == IF cls = "exact" THEN FxZero ELSE FxMulInt(Allow(n + 4, 8, tt, S), 2)

TConst == /\ E.ev = "pre_const"
          /\ LET s2 == IF "mag" \in DOMAIN E THEN FxMax(S, Fx(E.mag)) ELSE S
             IN  /\ IF y0 = <<>> THEN y0' = E.y
                    ELSE /\ (IF cls = "sq" THEN SameSq(E.y, y0, Allow(n + 4, 0, 1, FxSqr(S)))
                             ELSE IF cls = "ind" THEN SameInd(E.y, y0, Allow(n + 4, 0, 1, s2))
                             ELSE Same(E.y, y0, TolConst))
                         /\ y0' = y0
                 /\ S' = s2
          /\ IF "s" \in DOMAIN E
             THEN IF t = 0 THEN s0' = E.s ELSE SigOK(E.s, s0) /\ s0' = s0
             ELSE s0' = s0
          /\ t' = t + 1 /\ UNCHANGED <<cls, n>>

TPair == /\ E.ev = "pre_pair"
         /\ LET s2 == FxMax(S, Fx(E.mag))
                tol == IF cls = "exact" THEN FxZero ELSE FxMulInt(Allow(n + 4, 8, t + 1, s2), 2)
            IN  IF cls = "sq" THEN SameSq(E.y, E.yk, FxMulInt(Allow(n + 4, 8, t + 1, FxSqr(s2)), 4))
                ELSE IF cls = "ind" THEN SameInd(E.y, E.yk, tol)
                ELSE Same(E.y, E.yk, tol)
         /\ ("s" \in DOMAIN E => SigOK(E.s, E.sk))
         /\ t' = t + 1 /\ S' = FxMax(S, Fx(E.mag)) /\ UNCHANGED <<cls, n, y0, s0>>

Next == l <= Len(Rec) /\ (TNew \/ TConst \/ TPair) /\ l' = l + 1
Spec == Init /\ [][Next]_vars

\* reaching the end of the trace ends the search at once (reported by TLC as a violation of NotDone = accepted);
\* otherwise the postcondition reports the longest matched prefix
NotDone == l <= Len(Rec)
Matched == TLCGet("stats").diameter - 1
TraceAccepted ==
    \/ Matched = Len(Rec)
    \/ /\ PrintT(<<"FAIL", ToJson([matched |-> Matched, total |-> Len(Rec), event |-> Rec[Matched + 1]])>>)
       /\ FALSE
=============================================================================
