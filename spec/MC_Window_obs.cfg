\* every capacity and phase, cheap invariants only (quick tier)
CONSTANTS
  PMAX = 255
  Caps <- AllCaps
  FullIter <- NoCaps
  EmitCaps <- NoCaps
SPECIFICATION Spec
INVARIANTS TypeOK PushInv ObserverInv
CHECK_DEADLOCK FALSE
