------------------------------- MODULE Recursive -------------------------------
(***************************************************************************)
(* The recursive (infinite-memory) methods as documented recurrences over   *)
(* exact fixed point: EMA DMA TMA DEMA TEMA RMA WSMA TSI Vidya TR           *)
(* HeikinAshi, windowless Integral and ADI.                                 *)
(* State is a record; XInit(par, v) and XStep(par, st, x) -> [st, out].     *)
(***************************************************************************)
EXTENDS Linear

\* smoothing factors as exact rationals applied by multiply-then-divide (one truncation)
\* v + (x - v) * num / den
Smooth(v, x, num, den) == FxAdd(v, FxDivInt(FxMulInt(FxSub(x, v), num), den))

\* EMA(n): alpha = 2 / (n + 1)
EMAInit(n, v) == v
EMAStep(n, st, x) == LET v == Smooth(st, x, 2, n + 1) IN [st |-> v, out |-> v]

\* cascades: DMA = EMA(EMA), TMA = EMA(EMA(EMA)); DEMA, TEMA combine the stages
CascInit(n, v) == <<v, v, v>>
CascStep(n, st, x) == LET e1 == Smooth(st[1], x, 2, n + 1)
                          e2 == Smooth(st[2], e1, 2, n + 1)
                          e3 == Smooth(st[3], e2, 2, n + 1)
                      IN  <<e1, e2, e3>>
DMAStep(n, st, x)  == LET s == CascStep(n, st, x) IN [st |-> s, out |-> s[2]]
TMAStep(n, st, x)  == LET s == CascStep(n, st, x) IN [st |-> s, out |-> s[3]]
DEMAStep(n, st, x) == LET s == CascStep(n, st, x) IN [st |-> s, out |-> FxSub(FxMulInt(s[1], 2), s[2])]
TEMAStep(n, st, x) == LET s == CascStep(n, st, x)
                      IN  [st |-> s, out |-> FxAdd(FxMulInt(FxSub(s[1], s[2]), 3), s[3])]

\* RMA(n): alpha = 1 / n;  WSMA(n) = EMA(2n - 1) (so its alpha is 1 / n as well)
RMAStep(n, st, x)  == LET v == Smooth(st, x, 1, n) IN [st |-> v, out |-> v]
WSMAStep(n, st, x) == EMAStep(2 * n - 1, st, x)

\* TSI(short, long): momentum and |momentum| double-smoothed (long, then short), all seeded 0;
\* value = ratio, 0 when the denominator is not positive
TSIInit(p, v) == [last |-> v, a1 |-> FxZero, a2 |-> FxZero, b1 |-> FxZero, b2 |-> FxZero]
TSIStep(p, st, x) ==
    LET short == p[1]  long == p[2]
        m  == FxSub(x, st.last)
        a1 == Smooth(st.a1, m, 2, long + 1)
        a2 == Smooth(st.a2, a1, 2, short + 1)
        b1 == Smooth(st.b1, FxAbs(m), 2, long + 1)
        b2 == Smooth(st.b2, b1, 2, short + 1)
    IN  [st |-> [last |-> x, a1 |-> a1, a2 |-> a2, b1 |-> b1, b2 |-> b2], num |-> a2, den |-> b2]

\* Vidya(n): changes window (seeded 0), up = sum of positive changes, dn = sum of |negative changes|;
\* y <- x when up = dn = 0, else y + f*c*(x - y) with f = 2/(n+1), c = |up - dn| / (up + dn)
VidyaInit(n, v) == [win |-> [i \in 1..n |-> FxZero], lastin |-> v, y |-> v, eacc |-> FxZero]
\* aq: allowance of the windowed sums up + dn (they are running accumulators in the code).  The factor c is a
\* quotient of those sums, so its error is amplified by 1 / (up + dn); that contribution to y is accumulated
\* in eacc (DESIGN.md section 4, quotient rule) and added to the tolerance by NumSubjects.
VidyaStep(n, st, x, aq) ==
    LET ch  == FxSub(x, st.lastin)
        win == Append(Tail(st.win), ch)
        up  == FxSum([i \in 1..n |-> IF win[i].s > 0 THEN win[i] ELSE FxZero])
        dn  == FxSum([i \in 1..n |-> IF win[i].s < 0 THEN FxNeg(win[i]) ELSE FxZero])
        tot == FxAdd(up, dn)
        y   == IF FxIsZero(tot) THEN x
               ELSE LET c  == FxDiv(FxAbs(FxSub(up, dn)), tot)
                        fc == FxDivInt(FxMulInt(c, 2), n + 1)
                    IN  FxAdd(st.y, FxMul(fc, FxSub(x, st.y)))
        \* f * |x - y_prev| * (2 aq / (tot - aq)), when the quotient is well conditioned
        extra == IF FxIsZero(tot) THEN FxNeg(st.eacc)                 \* y = x exactly: the past is forgotten
                 ELSE IF FxLe(tot, FxMulInt(aq, 8)) THEN FxZero
                 ELSE FxDivInt(FxMulInt(FxMul(FxAbs(FxSub(x, st.y)), FxDiv(FxMulInt(aq, 2), FxSub(tot, aq))), 2), n + 1)
    IN  [st |-> [win |-> win, lastin |-> x, y |-> y, eacc |-> FxAdd(st.eacc, extra)], out |-> y, tot |-> tot]

\* TR: true range against the previous close
TRInit(c) == c.c
TRStep(st, c) == [st |-> c.c, out |-> TRClose(c, st)]

\* HeikinAshi: open0 = ohlc4(first candle); close = ohlc4(c); next open = (open + close) / 2
HAInit(c) == OHLC4(c)
HAStep(st, c) == LET cl == OHLC4(c)
                 IN  [st |-> FxDivInt(FxAdd(st, cl), 2),
                      out |-> [o |-> st, h |-> FxMax(c.h, st), l |-> FxMin(c.l, st), c |-> cl, v |-> c.v]]

\* windowless Integral / ADI: running sums of every input since construction
CumStep(st, term) == LET v == FxAdd(st, term) IN [st |-> v, out |-> v]
=============================================================================
