------------------------------ MODULE I_IchimokuCloud ------------------------------
(* IchimokuCloud(l1 < l2 < l3, m, source): tenkan = (highest high + lowest low)/2 over the last l1 candles, kijun   *)
(* the same over l2; senkou span A = (tenkan + kijun)/2 and span B = (highest + lowest)/2 over l3, both moved       *)
(* forward by m candles (the value shown now was computed m candles ago; before that: hl2 of the first candle).     *)
(* Values [tenkan, kijun, span A, span B].                                                                          *)
(* S0: BUY when tenkan crosses kijun upwards while src > span A, src > span B and A > B; SELL when it crosses       *)
(* downwards while src < A, src < B and A < B.  S1: the same with src crossing kijun.                               *)
(* src is a candle-derived number: against logged floats it is compared in fixed point (exact for a direct source;  *)
(* for computed sources both outcomes are admitted within rounding and the spec branches).                          *)
\* SPEC: values signals
EXTENDS IndLib

IchimokuCloud_Init(cfg, c) ==
    [h1 |-> WFill(cfg.l1, c.h), h2 |-> WFill(cfg.l2, c.h), h3 |-> WFill(cfg.l3, c.h),
     l1 |-> WFill(cfg.l1, c.l), l2 |-> WFill(cfg.l2, c.l), l3 |-> WFill(cfg.l3, c.l),
     wa |-> WFill(cfg.m, HL2(c)), wb |-> WFill(cfg.m, HL2(c))]
IchimokuCloud_Mid(hw, lw) == FxDivInt(FxAdd(Hi(hw), Lo(lw)), 2)
IchimokuCloud_Step(cfg, st, c, P, V) ==
    LET h1 == WPush(st.h1, c.h)  h2 == WPush(st.h2, c.h)  h3 == WPush(st.h3, c.h)
        l1 == WPush(st.l1, c.l)  l2 == WPush(st.l2, c.l)  l3 == WPush(st.l3, c.l)
        tenkan == IchimokuCloud_Mid(h1, l1)
        kijun  == IchimokuCloud_Mid(h2, l2)
    IN  [st |-> [h1 |-> h1, h2 |-> h2, h3 |-> h3, l1 |-> l1, l2 |-> l2, l3 |-> l3,
                 wa |-> WPush(st.wa, FxDivInt(FxAdd(tenkan, kijun), 2)), wb |-> WPush(st.wb, IchimokuCloud_Mid(h3, l3))],
         vals |-> <<Ex(tenkan, P), Ex(kijun, P), Ex(st.wa[1], P), Ex(st.wb[1], P)>>]

\* possible signs of src - lv (src: fixed-point source value of the candle, lv: logged float)
IchimokuCloud_Cmp(src, lv, direct) ==
    IF FxIsZero(src) THEN {-lv.o[1]}
    ELSE IF direct \/ ~NearEq(src, lv.x) THEN {FxCmp(src, lv.x)}
    ELSE {-1, 0, 1}

IchimokuCloud_SigInit(cfg, c) == [x1 |-> 0, x2 |-> 0]
IchimokuCloud_Sig(cfg, sg, c, v) ==
    LET src    == Src(c, cfg.source)
        direct == cfg.source \in {"close", "open", "high", "low", "volume"}
        green  == FGt(v[3], v[4])
        red    == FLt(v[3], v[4])
        c1     == CrossOut(sg.x1, v[1], v[2])
        Sgn(cross, dA, dB) == B2I(dA > 0 /\ dB > 0 /\ green /\ cross > 0) - B2I(dA < 0 /\ dB < 0 /\ red /\ cross < 0)
    IN  {[sg |-> [x1 |-> CrossLast(v[1], v[2]), x2 |-> dK],
          sigs |-> <<{Act(Sgn(c1, dA, dB))},
                     {Act(Sgn(B2I(sg.x2 < 0 /\ dK >= 0) - B2I(sg.x2 > 0 /\ dK <= 0), dA, dB))}>>]
         : dA \in IchimokuCloud_Cmp(src, v[3], direct), dB \in IchimokuCloud_Cmp(src, v[4], direct),
           dK \in IchimokuCloud_Cmp(src, v[2], direct)}
=============================================================================
