--------------------------------- MODULE I_Envelopes ---------------------------------
(* Envelopes(ma, k, source, source2): m = ma(source); values [upper = m (1 + k), lower = m (1 - k), source2].         *)
(* S0 = [source2 < lower] - [source2 > upper] on the logged values: full buy while source2 is below the lower bound,  *)
(* full sell while it is above the upper bound.  DEVIATION: the doc comment says the signal appears when source2     *)
(* CROSSES a bound; the code (and the if-chain it keeps as a comment) is a level test repeated on every bar beyond   *)
(* the bound.  The spec follows the code; the mismatch is reported.                                                  *)
\* SPEC: values signals
EXTENDS IndLib

Envelopes_Init(cfg, c) == [m |-> MInit(cfg.ma, Src(c, cfg.source))]
Envelopes_Step(cfg, st, c, P, V) ==
    LET S  == SrcScale(cfg.source, P, V)
        a  == MStep(cfg.ma, st.m, Src(c, cfg.source))
        kh == FxAdd(FxOne, cfg.k)
        kl == FxSub(FxOne, cfg.k)
        Sb == FxMul(FxMulInt(S, 2), kh)                    \* |1 - k| <= 1 + k
    IN  [st |-> [m |-> a.st],
         vals |-> <<Ex(FxMul(a.out, kh), Sb), Ex(FxMul(a.out, kl), Sb), Ex(Src(c, cfg.source2), SrcScale(cfg.source2, P, V))>>]

Envelopes_SigInit(cfg, c) == <<>>
Envelopes_Sig(cfg, sg, c, v) ==
    {[sg |-> sg, sigs |-> <<{Act(B2I(FLt(v[3], v[2])) - B2I(FGt(v[3], v[1])))}>>]}
=============================================================================
