------------------------------ MODULE I_ParabolicSAR ------------------------------
(* ParabolicSAR(af_step < af_max): a state machine (trend, inc, high, low, sar), started with trend = +1, inc = 1,    *)
(* high / low / previous candle of the first candle and sar = its low.  Per candle, in an uptrend: a new highest high *)
(* extends the extreme (inc + 1); a low below sar reverses the trend (trend = -1, low = the candle's low, inc = 1,     *)
(* sar = the extreme high); symmetric in a downtrend.  Values [sar, trend] are emitted at this point.  Then            *)
(* sar <- sar + af (extreme - sar) with af = min(af_max, af_step inc), limited to at most the lows (at least the       *)
(* highs) of the current and the previous candle.  S0 = trend when the logged trend differs from the previous one      *)
(* (the trend before the first candle counts as 0, so the first bar always signals), otherwise none.                  *)
\* SPEC: values signals
EXTENDS IndLib

ParabolicSAR_Init(cfg, c) == [trend |-> 1, inc |-> 1, low |-> c.l, high |-> c.h, sar |-> c.l, pl |-> c.l, ph |-> c.h]
\* extension of the extreme and reversal
ParabolicSAR_Turn(st, c) ==
    IF st.trend > 0
    THEN LET ext == FxLt(st.high, c.h)
             hi  == IF ext THEN c.h ELSE st.high
         IN  IF FxLt(c.l, st.sar) THEN [st EXCEPT !.trend = -1, !.high = hi, !.low = c.l, !.inc = 1, !.sar = hi]
             ELSE [st EXCEPT !.high = hi, !.inc = st.inc + B2I(ext)]
    ELSE LET ext == FxGt(st.low, c.l)
             lo  == IF ext THEN c.l ELSE st.low
         IN  IF FxGt(c.h, st.sar) THEN [st EXCEPT !.trend = 1, !.low = lo, !.high = c.h, !.inc = 1, !.sar = lo]
             ELSE [st EXCEPT !.low = lo, !.inc = st.inc + B2I(ext)]
ParabolicSAR_Step(cfg, st, c, P, V) ==
    LET s  == ParabolicSAR_Turn(st, c)
        af == FxMin(cfg.af_max, FxMulInt(cfg.af_step, s.inc))
        nx == IF s.trend > 0
              THEN FxMin(FxMin(FxAdd(s.sar, FxMul(af, FxSub(s.high, s.sar))), c.l), st.pl)
              ELSE FxMax(FxMax(FxAdd(s.sar, FxMul(af, FxSub(s.low, s.sar))), c.h), st.ph)
    IN  [st |-> [s EXCEPT !.sar = nx, !.pl = c.l, !.ph = c.h],
         vals |-> <<Ex(s.sar, FxMulInt(P, 2)), Ex(FxFromInt(s.trend), FxOne)>>]

ParabolicSAR_SigInit(cfg, c) == [prev |-> 0]
ParabolicSAR_Sig(cfg, sg, c, v) ==
    LET trend == FCmp(v[2], ZeroV)
    IN  {[sg |-> [prev |-> trend], sigs |-> <<{Act(IF trend # sg.prev THEN trend ELSE 0)}>>]}
=============================================================================
