---------------------------- MODULE I_HullMovingAverage ----------------------------
(* HullMovingAverage(period n, left, right, source): value = HMA(n)(src) = WMA(isqrt n)(2 WMA(n div 2) - WMA(n)),  *)
(* all windows seeded with the first source value.  S0 = ReversalSignal(left, right)(value): +1 when the value      *)
(* `right` steps ago is a low pivot (reversal upwards), -1 on a high pivot.  The pivot detector is seeded with the  *)
(* average's value on the constant prehistory (= the first source value up to rounding; not a logged float):        *)
(* comparisons of a logged value against that seed are decided on the fixed-point numbers, and within rounding of   *)
(* the seed both outcomes are admitted (the spec branches).                                                         *)
\* SPEC: values signals
EXTENDS IndLib

HullMovingAverage_Init(cfg, c) == [m |-> MAInit("hma", cfg.period, Src(c, cfg.source))]
HullMovingAverage_Step(cfg, st, c, P, V) ==
    LET S == SrcScale(cfg.source, P, V)
        a == MAStep("hma", cfg.period, st.m, Src(c, cfg.source))
    IN  [st |-> [m |-> a.st], vals |-> <<Ex(a.out, FxMulInt(S, 4))>>]

\* the seed: a candle-derived number without an ordering key
HullMovingAverage_SigInit(cfg, c) == RevBothInit(cfg.left, cfg.right, [x |-> Src(c, cfg.source), o |-> <<>>])

\* possible truth values of dir * (x - ev) >= 0, x a logged float, ev a logged float or the seed
HullMovingAverage_Ge(x, ev, dir, direct) ==
    IF ev.o # <<>> THEN {dir * FCmp(x, ev) >= 0}
    ELSE IF FxIsZero(ev.x) THEN {dir * x.o[1] >= 0}                               \* the seed is exactly 0.0
    ELSE IF direct \/ ~NearEq(x.x, ev.x) THEN {dir * FxCmp(x.x, ev.x) >= 0}       \* a direct source is an exact float
    ELSE {TRUE, FALSE}

\* RevVNext of IndLib, set-valued while the seed is still the current extremum (then ei = 0 and no rescan happens)
HullMovingAverage_RevNext(st, x, dir, direct) ==
    LET n     == Len(st.win)
        idxs  == IF st.index + 1 > 255 THEN 255 ELSE st.index + 1
        first == IF idxs < n THEN 0 ELSE idxs - n
    IN  IF st.ev.o # <<>> \/ st.ei < first THEN {RevVNext(st, x, dir)}
        ELSE {[st  |-> [st EXCEPT !.win = WPush(st.win, x), !.ei = IF g THEN st.index ELSE st.ei,
                                  !.ev = IF g THEN x ELSE st.ev, !.index = idxs],
               out |-> B2I(st.index >= st.right /\ (IF g THEN st.index ELSE st.ei) = st.index - st.right)]
              : g \in HullMovingAverage_Ge(x, st.ev, dir, direct)}

HullMovingAverage_Sig(cfg, sg, c, v) ==
    \* the seed is the moving average of the constant prehistory (repaired in /repo: it was the source value itself): a computed
    \* number for every source, so no comparison against it is "direct"
    LET direct == FALSE
    IN  {[sg |-> [hi |-> h.st, lo |-> w.st], sigs |-> <<{Act(w.out - h.out)}>>]
         : h \in HullMovingAverage_RevNext(sg.hi, v[1], 1, direct), w \in HullMovingAverage_RevNext(sg.lo, v[1], -1, direct)}
=============================================================================
