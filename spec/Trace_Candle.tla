----------------------------- MODULE Trace_Candle -----------------------------
(* Trace validation of the OHLCV helpers on arbitrary finite candles (C18): tp, hl2, ohlc4, volumed_price,  *)
(* source(kind), clv (0 on a zero range), tr_close and its textbook form, and Candle + Candle.              *)
EXTENDS NumSubjects, TLC, Json, IOUtils

Rec == ndJsonDeserialize(IOEnv.TRACE)
VARIABLE l
E == Rec[l]
Fx(j) == FxFromJson(j)
Cn(j) == [o |-> Fx(j.o), h |-> Fx(j.h), l |-> Fx(j.l), c |-> Fx(j.c), v |-> Fx(j.v)]
Near(y, v, k, S) == FxLe(FxAbs(FxSub(Fx(y), v)), Allow(k, 0, 1, S))

CandleOK ==
    LET c == Cn(E.c)
        pc == Fx(E.pc)
        M == FxMax(CMag(c), FxAbs(pc))
        MV == FxMul(M, FxAbs(c.v))
        rng == FxSub(c.h, c.l)
        tr3 == FxMax(FxSub(c.h, c.l), FxMax(FxAbs(FxSub(c.h, pc)), FxAbs(FxSub(c.l, pc))))
    IN  /\ Near(E.tp, TP(c), 4, M) /\ Near(E.hl2, HL2(c), 4, M) /\ Near(E.ohlc4, OHLC4(c), 4, M)
        /\ Near(E.vp, FxMul(TP(c), c.v), 8, MV)
        /\ Near(E.src.close, c.c, 0, M) /\ Near(E.src.open, c.o, 0, M) /\ Near(E.src.high, c.h, 0, M)
        /\ Near(E.src.low, c.l, 0, M) /\ Near(E.src.volume, c.v, 0, FxAbs(c.v))
        /\ Near(E.src.tp, TP(c), 4, M) /\ Near(E.src.hl2, HL2(c), 4, M) /\ Near(E.src.volumed_price, FxMul(TP(c), c.v), 8, MV)
        \* clv: exactly 0 on a zero range, else the quotient (cross-multiplied), always within [-1, 1] for ordered candles
        /\ IF FxIsZero(rng) THEN FxIsZero(Fx(E.clv))
           ELSE FxLe(FxAbs(FxSub(FxMul(Fx(E.clv), rng), CLVnum(c))), FxAdd(Allow(8, 0, 1, M), FxMul(FxMulInt(EPS, 8), FxAbs(rng))))
        \* the single-subtraction true range equals the three-way maximum whenever high >= low
        /\ Near(E.tr, TRClose(c, pc), 2, M)
        /\ (FxGe(c.h, c.l) => FxEq(TRClose(c, pc), tr3))
        /\ E.is_rising = FxGt(c.c, c.o) /\ E.is_falling = FxLt(c.c, c.o)

\* a + b on candles: first open, max high, min low, last close, summed volume
AddOK ==
    LET a == Cn(E.a)  b == Cn(E.b)  s == Cn(E.sum)
    IN  /\ FxEq(s.o, a.o) /\ FxEq(s.h, FxMax(a.h, b.h)) /\ FxEq(s.l, FxMin(a.l, b.l)) /\ FxEq(s.c, b.c)
        /\ FxLe(FxAbs(FxSub(s.v, FxAdd(a.v, b.v))), Allow(2, 0, 1, FxAdd(FxAbs(a.v), FxAbs(b.v))))

Init == l = 1
Next == /\ l <= Len(Rec)
        /\ \/ E.ev = "candle" /\ CandleOK
           \/ E.ev = "add" /\ AddOK
        /\ l' = l + 1
Spec == Init /\ [][Next]_l

\* reaching the end of the trace ends the search at once (reported by TLC as a violation of NotDone = accepted);
\* otherwise the postcondition reports the longest matched prefix
NotDone == l <= Len(Rec)
Matched == TLCGet("stats").diameter - 1
TraceAccepted ==
    \/ Matched = Len(Rec)
    \/ /\ PrintT(<<"FAIL", ToJson([matched |-> Matched, total |-> Len(Rec), event |-> Rec[Matched + 1]])>>)
       /\ FALSE
=============================================================================
