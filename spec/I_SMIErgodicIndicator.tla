--------------------------- MODULE I_SMIErgodicIndicator ---------------------------
(* SMIErgodicIndicator(period1 long, period2 short, signal, zone, source): smi = TSI(short, long)(src), i.e. the      *)
(* double-smoothed momentum over the double-smoothed absolute momentum (0 when the denominator is not positive);     *)
(* signal line = signal(smi), seeded 0; oscillator = smi - line.  Values [smi, line, oscillator].                    *)
(* S0 = buy when smi crosses the line upwards while the line is below -zone, sell when it crosses downwards while    *)
(* the line is above +zone.  -zone is an exact negation, so the zone comparisons are decided on the logged line.     *)
\* SPEC: values signals
EXTENDS IndLib

SMIErgodicIndicator_Init(cfg, c) == [tsi |-> TSIInit(<<cfg.period2, cfg.period1>>, Src(c, cfg.source)), ma |-> MInit(cfg.signal, FxZero)]
SMIErgodicIndicator_Step(cfg, st, c, P, V) ==
    LET S   == SrcScale(cfg.source, P, V)
        q   == TSIStep(<<cfg.period2, cfg.period1>>, st.tsi, Src(c, cfg.source))
        smi == IF q.den.s > 0 THEN FxDiv(q.num, q.den) ELSE FxZero
        l   == MStep(cfg.signal, st.ma, smi)
    IN  [st |-> [tsi |-> q.st, ma |-> l.st],
         vals |-> <<Gx(q.num, q.den, FxMulInt(S, 2), FxMulInt(S, 2), FxZero),
                    Ex(l.out, FxFromInt(4)), Ex(FxSub(smi, l.out), FxFromInt(4))>>]

\* admissible signs of (a - z) for a logged float a and a configured threshold z
SMIErgodicIndicator_Sgn(a, z) ==
    IF FxIsZero(z) THEN {FCmp(a, ZeroV)}
    ELSE IF FxGe(FxAbs(z), FxShr(FxOne, 1)) \/ ~NearEq(a.x, z) THEN {FxCmp(a.x, z)}
    ELSE {-1, 0, 1}

SMIErgodicIndicator_SigInit(cfg, c) == [x |-> 0]
SMIErgodicIndicator_Sig(cfg, sg, c, v) ==
    LET cross == CrossOut(sg.x, v[1], v[2])
    IN  {[sg |-> [x |-> CrossLast(v[1], v[2])],
          sigs |-> <<{Act(B2I(cross > 0 /\ lo < 0) - B2I(cross < 0 /\ hi > 0))}>>]
         : lo \in SMIErgodicIndicator_Sgn(v[2], FxNeg(cfg.zone)), hi \in SMIErgodicIndicator_Sgn(v[2], cfg.zone)}
=============================================================================
