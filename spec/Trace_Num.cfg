CONSTANTS
  F32 = FALSE
  CHECK_NONNEG = FALSE
SPECIFICATION Spec
INVARIANT NotDone
POSTCONDITION TraceAccepted
CHECK_DEADLOCK FALSE
