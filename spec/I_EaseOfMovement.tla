------------------------------ MODULE I_EaseOfMovement ------------------------------
(* EaseOfMovement(ma, period2 k): distance moved d = ((high - high[k ago]) + (low - low[k ago])) / 2 (the change of   *)
(* the midpoint (high + low)/2 over k candles), box ratio = volume / (high - low); emv = d / box ratio =             *)
(* d (high - low) / volume, 0 on a zero volume; value = ma(emv), the average seeded 0 (the candle window with the     *)
(* first candle).  No volume divisor (10^8 in the references) is applied.  S0 = the value crosses 0.                  *)
(* Tolerance scale: the largest emv magnitude met so far (mx), with |d| bounded by (|dhigh| + |dlow|)/2.  emv is      *)
(* price^2 / volume, so consecutive inputs of the average can differ by 10^9 and more; for ma = vidya the factor      *)
(* |up - dn| / (up + dn) is a quotient of running sums whose rounding residue is proportional to mx, not to their     *)
(* current size: the error it feeds into the value is amplified by (sum bound 2 n mx) / (up + dn).  That             *)
(* contribution (quotient rule, as for the Vidya method check: f |x - y| 2 aq / tot with aq = allowance of 2 n mx)    *)
(* is accumulated in `ea`, in scale units, and added to the scale; it vanishes when the window of changes is all 0.   *)
\* SPEC: values signals
EXTENDS IndLib

EaseOfMovement_Init(cfg, c) ==
    [w |-> WFill(cfg.period2 + 1, c), m |-> MInit(cfg.ma, FxZero), mx |-> FxZero, ea |-> FxZero]
EaseOfMovement_Step(cfg, st, c, P, V) ==
    LET w   == WPush(st.w, c)
        pc  == w[1]                                               \* the candle period2 steps back
        dh  == FxSub(c.h, pc.h)
        dl  == FxSub(c.l, pc.l)
        d   == FxDivInt(FxAdd(dh, dl), 2)
        da  == FxDivInt(FxAdd(FxAbs(dh), FxAbs(dl)), 2)
        rng == FxSub(c.h, c.l)
        emv == IF FxIsZero(c.v) THEN FxZero ELSE FxDiv(FxMul(d, rng), c.v)
        bnd == IF FxIsZero(c.v) THEN FxZero ELSE FxDiv(FxMul(da, rng), c.v)
        mx  == FxMax(st.mx, bnd)
        a   == MStep(cfg.ma, st.m, emv)
        n   == cfg.ma.n
        tot == FxSum([i \in 1..n |-> FxAbs(a.st.win[i])])         \* vidya only: up + dn of the window of changes
        ea  == IF cfg.ma.ma # "vidya" \/ FxIsZero(tot) THEN FxZero
               ELSE FxAdd(st.ea, FxDivInt(FxDiv(FxMul(FxAbs(FxSub(emv, st.m.y)), FxMulInt(mx, 8 * n)), tot), n + 1))
    IN  [st |-> [w |-> w, m |-> a.st, mx |-> mx, ea |-> ea], vals |-> <<Ex(a.out, FxAdd(FxMulInt(mx, 4), ea))>>]

EaseOfMovement_SigInit(cfg, c) == [x |-> 0]
EaseOfMovement_Sig(cfg, sg, c, v) ==
    {[sg |-> [x |-> CrossLast(v[1], ZeroV)], sigs |-> <<{Act(CrossOut(sg.x, v[1], ZeroV))}>>]}
=============================================================================
