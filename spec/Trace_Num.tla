------------------------------ MODULE Trace_Num ------------------------------
(***************************************************************************)
(* Trace validation (direction B) for the numeric methods (C02, C03, C20).  *)
(*                                                                           *)
(* The harness drives the real methods with float streams (uniform, walks,  *)
(* plateaus, zeros, sign changes, spikes, scale jumps, monotone runs) and   *)
(* logs every call: inputs and outputs converted to 24-decimal fixed point. *)
(* This spec keeps the input history itself, evaluates the documented       *)
(* formula FROM SCRATCH (or its recurrence) in exact arithmetic at every    *)
(* step and accepts an event only if the logged output lies within the      *)
(* rounding allowance of DESIGN.md section 4 (two-sided).                   *)
(***************************************************************************)
EXTENDS NumSubjects, TLC, Json, IOUtils

CONSTANT CHECK_NONNEG      \* C12: dispersion measures are never negative

Rec == ndJsonDeserialize(IOEnv.TRACE)

VARIABLES l, subj, par, H, R, t, M, live

vars == <<l, subj, par, H, R, t, M, live>>

E == Rec[l]
Is(name) == l <= Len(Rec) /\ Rec[l].ev = name
Step == l' = l + 1

IsNum(j) == "s" \in DOMAIN j
Fx(j) == FxFromJson(j)
Cndl(j) == [o |-> Fx(j.o), h |-> Fx(j.h), l |-> Fx(j.l), c |-> Fx(j.c), v |-> Fx(j.v)]
\* an input / construction value of subject s from its JSON form
In(s, j) == IF s = "VWMA" THEN <<Fx(j[1]), Fx(j[2])>>
            ELSE IF s \in {"ADI", "ADI0", "TR", "HeikinAshi"} THEN Cndl(j)
            ELSE Fx(j)
Par(s, p) == IF s = "Conv" THEN [i \in 1..Len(p) |-> Fx(p[i])] ELSE p

Within(y, v, tol) == FxLe(FxAbs(FxSub(y, v)), tol)

\* y = num/den within the allowances, by cross-multiplication (no division)
QuotOK(y, e) ==
    LET aden == FxAbs(e.den)
    IN  \/ FxLe(aden, FxMulInt(e.ad, 8))                                    \* ill-conditioned: exempt
        \/ /\ IsNum(y)
           /\ LET yy  == Fx(y)
                  lhs == FxAbs(FxSub(FxMul(yy, e.den), e.num))
                  rhs == FxAdd(FxDivInt(FxMulInt(FxAdd(e.an, FxMul(FxAbs(yy), e.ad)), 8), 7),
                               FxAdd(FxMul(FxMulInt(EPS, 4), FxMul(FxAbs(yy), aden)), Delta(4, FxAbs(yy))))
              IN  FxLe(lhs, rhs)

Accept(y, e) ==
    CASE e.kind = "abs"  -> IsNum(y) /\ Within(Fx(y), e.v, e.tol)
      [] e.kind = "sq"   -> IsNum(y) /\ Fx(y).s >= 0 /\ Within(FxSqr(Fx(y)), e.v, FxAdd(e.tol, Delta(2, FxAdd(e.v, e.tol))))
      [] e.kind = "quot" -> QuotOK(y, e)
      [] e.kind = "guard" ->      \* the code returns `zero` unless den > 0; near den = 0 either branch is admissible
            IF FxGt(e.den, e.ad) THEN QuotOK(y, e)
            ELSE IF FxLt(e.den, FxNeg(e.ad)) \/ (FxIsZero(e.den) /\ FxIsZero(e.ad)) THEN IsNum(y) /\ FxEq(Fx(y), e.zero)
            ELSE TRUE
      [] e.kind = "vidya" ->      \* exact: y = x when up + dn = 0; within rounding of that threshold the step is exempt
            IF FxIsZero(e.tot) \/ FxGt(e.tot, FxMulInt(e.atot, 8)) THEN IsNum(y) /\ Within(Fx(y), e.v, e.tol)
            ELSE IsNum(y) /\ FxGe(Fx(y), FxSub(e.lo, e.tol)) /\ FxLe(Fx(y), FxAdd(e.hi, e.tol))
      [] e.kind = "candle" -> /\ "o" \in DOMAIN y
                              /\ Within(Fx(y.o), e.c.o, e.tol) /\ Within(Fx(y.h), e.c.h, e.tol)
                              /\ Within(Fx(y.l), e.c.l, e.tol) /\ Within(Fx(y.c), e.c.c, e.tol)
                              /\ Within(Fx(y.v), e.c.v, e.tol)

\* OHLCV::validate on exact values
ValidC(c) == /\ FxLe(c.l, c.o) /\ FxLe(c.o, c.h) /\ FxLe(c.l, c.c) /\ FxLe(c.c, c.h)
             /\ c.o.s > 0 /\ c.h.s > 0 /\ c.l.s > 0 /\ c.c.s > 0 /\ c.v.s >= 0

Init == l = 1 /\ subj = "" /\ par = <<>> /\ H = <<>> /\ R = <<>> /\ t = 0 /\ M = FxZero /\ live = FALSE

TReset == Is("reset") /\ live' = FALSE /\ UNCHANGED <<subj, par, H, R, t, M>> /\ Step

TNew == /\ Is("new") /\ E.res = "ok"
        /\ LET s == E.subject
               p == Par(s, E.params)
               v == In(s, E.init)
           IN  /\ subj' = s /\ par' = p
               /\ H' = [i \in 1..NDepth(s, p) |-> v]
               /\ R' = NInit(s, p, v)
               /\ M' = InMag(s, v)
        /\ t' = 0 /\ live' = TRUE
        /\ Step

TNext == /\ Is("next") /\ live
         /\ LET x  == In(subj, E.x)
                h2 == Append(Tail(H), x)
                m2 == FxMax(M, InMag(subj, x))
                q  == NExpect(subj, par, h2, R, x, t + 1, m2)
            IN  /\ Accept(E.y, q.exp)
                \* dispersion measures are never negative (C12)
                /\ (CHECK_NONNEG /\ subj \in {"LinearVolatility", "StDev", "MeanAbsDev", "MedianAbsDev", "TR"} /\ IsNum(E.y)) => Fx(E.y).s >= 0
                \* HeikinAshi outputs a valid candle whenever its input is valid (C17)
                /\ (subj = "HeikinAshi" /\ ValidC(x)) => ValidC(Cndl(E.y))
                \* Vidya is a recurrence: on a step whose smoothing factor is not determined (up + dn within rounding of 0: the
                \* code divides rounding residues, see Accept) the output is exempt, and the recurrence continues from the value
                \* the implementation actually produced
                /\ R' = IF subj = "Vidya" /\ q.exp.kind = "vidya" /\ IsNum(E.y)
                            /\ ~(FxIsZero(q.exp.tot) \/ FxGt(q.exp.tot, FxMulInt(q.exp.atot, 8)))
                         THEN [q.st EXCEPT !.y = Fx(E.y)] ELSE q.st
                /\ H' = h2 /\ M' = m2
         /\ t' = t + 1
         /\ UNCHANGED <<subj, par, live>>
         /\ Step

\* C07 soak checkpoint: an instance that has already processed E.t inputs (millions).  The event carries the recent
\* inputs (`warm`, oldest first: the whole window for finite-window methods, ~64/alpha inputs for the exponential kinds,
\* whose older inputs weigh < e^-128) and the largest input magnitude of the whole past.  The spec rebuilds its state
\* from them alone; the following `next` events are then checked against the definition with the allowance at step t.
RECURSIVE WarmUp(_, _, _, _, _, _)
WarmUp(s, p, h, r, ws, i) ==
    IF i > Len(ws) THEN [h |-> h, r |-> r]
    ELSE LET h2 == Append(Tail(h), ws[i])
             q  == NExpect(s, p, h2, r, ws[i], 1, FxOne)
         IN  WarmUp(s, p, h2, q.st, ws, i + 1)
TCkpt == /\ Is("ckpt")
         /\ LET s == E.subject
                p == Par(s, E.params)
                ws == [i \in 1..Len(E.warm) |-> In(s, E.warm[i])]
                w == WarmUp(s, p, [i \in 1..NDepth(s, p) |-> ws[1]], NInit(s, p, ws[1]), ws, 1)
            IN  /\ subj' = s /\ par' = p /\ H' = w.h /\ R' = w.r /\ M' = Fx(E.mmax)
         /\ t' = E.t /\ live' = TRUE
         /\ Step

\* peek must return the value most recently produced (logged as bit-equality by the harness)
TPeek == Is("peek") /\ live /\ E.same = TRUE /\ UNCHANGED <<subj, par, H, R, t, M, live>> /\ Step

Next == TReset \/ TNew \/ TNext \/ TPeek \/ TCkpt
Spec == Init /\ [][Next]_vars

\* reaching the end of the trace ends the search at once (reported by TLC as a violation of NotDone = accepted);
\* otherwise the postcondition reports the longest matched prefix
NotDone == l <= Len(Rec)
Matched == TLCGet("stats").diameter - 1
TraceAccepted ==
    \/ Matched = Len(Rec)
    \/ /\ PrintT(<<"FAIL", ToJson([matched |-> Matched, total |-> Len(Rec), event |-> Rec[Matched + 1]])>>)
       /\ FALSE
=============================================================================
