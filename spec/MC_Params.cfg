CONSTANTS
  PMAX = 255
SPECIFICATION Spec
INVARIANTS SmallIsErr Emit
CHECK_DEADLOCK FALSE
