SPECIFICATION Spec
INVARIANTS Sound Emit
CHECK_DEADLOCK FALSE
