\* C04: every stream (any length) over 5 ranks + -0.0, window lengths 1..5
CONSTANTS
  PMAX = 255
  SMM_TOTAL_ORDER = TRUE
  REV_REBASE = TRUE
  Inits <- AllToks
  Subjects <- SelAll
  Lens <- L1to5
  Ranks <- R5
  WithNegZero = TRUE
  EmitDepth = 0
  FirstIsInit = FALSE
SPECIFICATION Spec
INVARIANTS Conform SmmInv NoOvf
CHECK_DEADLOCK FALSE
