---------------------------------- MODULE I_Trix ----------------------------------
(* Trix(period1, signal, source): main = one-step change of TMA(period1)(src) (triple-smoothed EMA, seeded with the   *)
(* first source value, so the first change is 0); signal line = signal(main).  Values [main, line].                   *)
(* S0 = main changes direction: buy on a low pivot, sell on a high pivot (ReversalSignal(1, 1) seeded 0.0, i.e.       *)
(* reported one bar after the pivot); S1 = main crosses line (+ upwards); S2 = main crosses 0 (+ upwards).            *)
(* The signal-line average is seeded with 0, the value of main on the constant prehistory (repaired in /repo: it was   *)
(* constructed with the SOURCE PRICE, so on a constant close 11 the line read 7.857, 5.61, 4.0, ... while main = 0).   *)
(* DEVIATION OF THE CODE, followed here: main is the absolute change of the TMA, the linked reference (TRIX) defines   *)
(* the relative change (tma/prev - 1).                                                                                *)
\* SPEC: values signals
EXTENDS IndLib

Trix_Init(cfg, c) == LET src == Src(c, cfg.source)
                     IN  [tma |-> CascInit(cfg.period1, src), prev |-> src, sig |-> MInit(cfg.signal, FxZero)]
Trix_Step(cfg, st, c, P, V) ==
    LET S   == SrcScale(cfg.source, P, V)
        t   == TMAStep(cfg.period1, st.tma, Src(c, cfg.source))
        val == FxSub(t.out, st.prev)
        l   == MStep(cfg.signal, st.sig, val)
    IN  [st |-> [tma |-> t.st, prev |-> t.out, sig |-> l.st],
         vals |-> <<Ex(val, FxMulInt(S, 2)), Ex(l.out, FxMulInt(S, 8))>>]

Trix_SigInit(cfg, c) == [hi |-> RevVInit(1, 1, ZeroV), lo |-> RevVInit(1, 1, ZeroV), x1 |-> 0, x2 |-> 0]
Trix_Sig(cfg, sg, c, v) ==
    LET h == RevVNext(sg.hi, v[1], 1)
        w == RevVNext(sg.lo, v[1], -1)
    IN  {[sg |-> [hi |-> h.st, lo |-> w.st, x1 |-> CrossLast(v[1], v[2]), x2 |-> CrossLast(v[1], ZeroV)],
          sigs |-> <<{IF w.out = 1 /\ h.out = 1 THEN 0 ELSE Act(w.out - h.out)},       \* Buy - Buy = Buy(0)
                     {Act(CrossOut(sg.x1, v[1], v[2]))},
                     {Act(CrossOut(sg.x2, v[1], ZeroV))}>>]}
=============================================================================
