CONSTANTS
  Periods <- P123
  Depth = 6
SPECIFICATION Spec
INVARIANTS Conform BatchInv RenkoIterInv Emit
CHECK_DEADLOCK FALSE
