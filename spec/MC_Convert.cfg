CONSTANTS
  Periods <- P14
  Depth = 6
SPECIFICATION Spec
INVARIANTS Conform BatchInv RenkoIterInv Emit
CHECK_DEADLOCK FALSE
