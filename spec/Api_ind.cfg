\* indicator-level API (C09, C11, C13): init, next, over, init_fn, clone, snapshot, static and dyn
CONSTANTS
  L = 14
  MaxH = 3
  MaxK = 3
  Depth = 9
  Ops <- IndOps
SPECIFICATION Spec
INVARIANTS TypeOK OnePerInput Emit
PROPERTY Independent
CHECK_DEADLOCK FALSE
