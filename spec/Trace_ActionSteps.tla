-------------------------- MODULE Trace_ActionSteps --------------------------
(***************************************************************************)
(* From<f32> / From<f64> for Action as a STEP FUNCTION of the argument,      *)
(* decided for EVERY f32 bit pattern (C16: "total for every f32").           *)
(*                                                                           *)
(* The harness visits all 4 278 190 082 non-NaN f32 patterns in numeric      *)
(* order and records the maximal runs of equal results; each run carries its *)
(* two end points as exact dyadic rationals m * 2^e (m a Big natural).  The  *)
(* specification's conversion is monotone in the real argument, so a run is  *)
(* correct iff both of its end points map to the run's action, consecutive   *)
(* runs tile the whole line (ordinal successor) and the first / last run     *)
(* start at -inf / end at +inf.  For f64 the same is done on windows of      *)
(* consecutive patterns around every break point (2k+1)/510, every fixed     *)
(* point k/255, +-1, +-0, the subnormals and +-inf.                          *)
(*                                                                           *)
(* Exact real semantics (Action!FromRatio lifted to dyadic rationals):       *)
(*   strength(v) = min(255, floor((floor(510 |v|) + 1) / 2))                 *)
(* which is round-half-away(255 |v|) clamped; sign from the sign BIT.        *)
(* f32: v * 255 is exact in f64 (24 + 8 bits), so no tolerance.              *)
(* f64: fl(|v| * 255) carries an error below 2^-45, hence within 2^-43 of a  *)
(* tie of 510 |v| with an odd integer either neighbour is admitted.          *)
(***************************************************************************)
EXTENDS Action, Big, TLC, Json, IOUtils

Rec == ndJsonDeserialize(IOEnv.TRACE)
VARIABLE l
E == Rec[l]

RECURSIVE Pow2(_)
Pow2(n) == IF n = 0 THEN <<1>> ELSE IF n >= 13 THEN BMulSmall(Pow2(n - 13), 8192) ELSE BMulSmall(Pow2(n - 1), 2)

BToNat(b) == Limb(b, 1) + BASE * Limb(b, 2)          \* for values known to be < 10^8
BAbsDiff(a, b) == IF BCmp(a, b) >= 0 THEN BSub(a, b) ELSE BSub(b, a)
Min(a, b) == IF a < b THEN a ELSE b

\* admissible strengths of the point P = m * 2^e
Strengths(P, tol) ==
    IF P.cls = "inf" THEN {BOUND}
    ELSE IF BIsZero(P.m) THEN {0}
    ELSE IF P.e >= 0 THEN {BOUND}                    \* |v| >= 1
    ELSE IF -P.e > 170 THEN {0}                      \* m < 2^53: |v| < 2^-117
    ELSE LET d == Pow2(-P.e)
             x == BMulSmall(P.m, 510)                \* 510 |v| = x / d
         IN  IF BCmp(x, BMulSmall(d, 510)) >= 0 THEN {BOUND}
             ELSE LET q == BToNat(BDiv(x, d))                           \* floor(510 |v|) < 510
                      s == Min(BOUND, (q + 1) \div 2)
                      t == IF q % 2 = 1 THEN q ELSE q + 1               \* nearest odd integer (a tie is 510|v| = t)
                      near == tol /\ BCmp(BMul(BAbsDiff(x, BMulSmall(d, t)), Pow2(43)), d) <= 0
                  IN  IF near THEN {Min(BOUND, (t - 1) \div 2), Min(BOUND, (t + 1) \div 2)} ELSE {s}
Acts(P, tol) == {IF P.neg THEN Sell(s) ELSE Buy(s) : s \in Strengths(P, tol)}

\* ordinals: little-endian 16-bit limbs
RECURSIVE OSucc(_, _, _)
OSucc(a, b, i) ==      \* b = a + 1 ?
    IF i > Len(a) THEN FALSE
    ELSE IF a[i] = 65535 THEN b[i] = 0 /\ OSucc(a, b, i + 1)
    ELSE b[i] = a[i] + 1 /\ \A j \in (i + 1)..Len(a) : a[j] = b[j]
RECURSIVE OLe(_, _, _)
OLe(a, b, i) == IF i = 0 THEN TRUE ELSE IF a[i] # b[i] THEN a[i] < b[i] ELSE OLe(a, b, i - 1)

GroupOK ==
    /\ E.forms_bad = 0                                 \* the Option / reference forms agree with the plain one
    /\ E.full => (E.from = <<0, 0>> /\ E.to = <<1, 65280>>)       \* 4 278 190 082 patterns: ordinals 0 .. 0xFF000001
    /\ l < Len(Rec) /\ Rec[l + 1].ev = "run" /\ Rec[l + 1].grp = E.grp /\ Rec[l + 1].lo.o = E.from
RunOK ==
    LET tol == E.ty = "f64" IN
    /\ E.act \in Acts(E.lo, tol) /\ E.act \in Acts(E.hi, tol)
    /\ OLe(E.lo.o, E.hi.o, Len(E.lo.o))
    /\ Rec[l - 1].grp = E.grp
    /\ Rec[l - 1].ev = "run" => OSucc(Rec[l - 1].hi.o, E.lo.o, 1)
    /\ l < Len(Rec) /\ Rec[l + 1].grp = E.grp /\ Rec[l + 1].ev \in {"run", "end"}
EndOK == Rec[l - 1].ev = "run" /\ Rec[l - 1].grp = E.grp /\ Rec[l - 1].hi.o = E.to
NanOK == E.bad = 0 /\ (E.ty = "f32" => E.count = 16777214)

Init == l = 1
Next == /\ l <= Len(Rec)
        /\ \/ E.ev = "group" /\ GroupOK
           \/ E.ev = "run" /\ RunOK
           \/ E.ev = "end" /\ EndOK
           \/ E.ev = "nan" /\ NanOK
        /\ l' = l + 1
Spec == Init /\ [][Next]_l

NotDone == l <= Len(Rec)
Matched == TLCGet("stats").diameter - 1
TraceAccepted ==
    \/ Matched >= Len(Rec)
    \/ PrintT(<<"FAIL", ToJson([matched |-> Matched, event |-> Rec[Matched + 1]])>>) /\ FALSE
=============================================================================
