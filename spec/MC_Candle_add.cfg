CONSTANTS
  Mode = "add"
SPECIFICATION Spec
INVARIANTS ValidateInv TRInv AddInv Emit
CHECK_DEADLOCK FALSE
