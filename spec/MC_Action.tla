------------------------------ MODULE MC_Action ------------------------------
(***************************************************************************)
(* Complete check of the Action algebra: all 513 actions, all 263 169       *)
(* pairs, triples over boundary strengths; From<f64> over every rational    *)
(* k/1020 in [-1.25, 1.25] (every break point (2k+1)/510 and its            *)
(* neighbours).  Violating pairs are REPORTED (printed) rather than stopping *)
(* the run, so the harness can confirm each of them on the real type.       *)
(* Emit mode prints, per action, the row of every unary observer and the    *)
(* Sub / Eq / Cmp rows against all 513 actions for replay (direction A).    *)
(***************************************************************************)
EXTENDS Action, TLC, Json, Sequences

CONSTANT Mode      \* "pairs" | "triples" | "emit" | "float"

VARIABLES a, b, c
vars == <<a, b, c>>

Edge == {NONE, Buy(0), Buy(1), Buy(2), Buy(127), Buy(128), Buy(254), Buy(255),
         Sell(0), Sell(1), Sell(2), Sell(127), Sell(128), Sell(254), Sell(255)}

Init == CASE Mode = "pairs"   -> a \in Actions /\ b \in Actions /\ c = 0
          [] Mode = "triples" -> a \in Edge /\ b \in Edge /\ c \in Edge
          [] Mode = "emit"    -> a \in Actions /\ b = 0 /\ c = 0
          [] Mode = "float"   -> a \in -1300..1300 /\ b = 0 /\ c = 0     \* v = a / 1020
Next == UNCHANGED vars
Spec == Init /\ [][Next]_vars

Bad(name) == PrintT(<<"BAD", ToJson([law |-> name, a |-> a, b |-> b, c |-> c])>>)

\* laws that hold: plain invariants
Unary == Mode = "pairs" /\ b = NONE =>
           /\ NegOK(a) /\ AnalogOK(a) /\ RatioRange(a) /\ EqReflexive(a) /\ RoundTrip(a)
           /\ (a \in -128..127 => FromI8OK(a))
Pairs == Mode = "pairs" =>
           /\ SubOK(a, b) /\ EqSymmetric(a, b) /\ EqSound(a, b) /\ CmpAntisym(a, b)
Triples == Mode = "triples" => EqTransitive(a, b, c)
\* laws reported pair by pair (the run continues): a violation here is confirmed on the real type
Reported ==
    /\ (Mode = "pairs" /\ ~EqOrdConsistent(a, b)) => Bad("eq-ord-consistent")
    /\ (Mode = "triples" /\ ~CmpTransitive(a, b, c)) => Bad("cmp-transitive")

\* From<f64> on the grid v = a/1020: total, sign-preserving, monotone, saturating, ratio in range
FromV(k) == FromRatio(k < 0, IF k < 0 THEN -k ELSE k, 1020)
Float == Mode = "float" =>
           /\ FromV(a) \in Actions /\ ~IsNone(FromV(a))
           /\ (a > 0 => IsBuy(FromV(a))) /\ (a < 0 => IsSell(FromV(a)))
           /\ (a < 1300 => RatioNum(FromV(a)) <= RatioNum(FromV(a + 1)))
           /\ (a >= 1020 => FromV(a) = Buy(BOUND)) /\ (a <= -1020 => FromV(a) = Sell(BOUND))
           /\ RatioNum(FromV(Clamp255(a) * 4)) = Clamp255(a)         \* k/255 is a fixed point
           /\ LET v2 == IF a > 1020 THEN 1020 ELSE IF a < -1020 THEN -1020 ELSE a      \* |ratio - v| <= 1/510
              IN  (4 * RatioNum(FromV(a)) - v2) * 2 \in -4..4

\* direction A for From<f64>/<f32>: the expected action for v = a/1020 (break points are a = 2 mod 4)
EmitFloat == Mode = "float" => PrintT(<<"FROW", ToJson([k |-> a, act |-> FromV(a)])>>)

Seq513 == [i \in 1..513 |-> IF i <= 256 THEN Buy(i - 1) ELSE IF i <= 512 THEN Sell(i - 257) ELSE NONE]
Emit == Mode = "emit" =>
          PrintT(<<"ROW", ToJson([a |-> a, neg |-> Neg(a), ratio |-> RatioNum(a), none |-> IsNone(a),
                                  analog |-> Analog(a),
                                  sub |-> [i \in 1..513 |-> Sub(a, Seq513[i])],
                                  eq  |-> [i \in 1..513 |-> IF Eq(a, Seq513[i]) THEN 1 ELSE 0],
                                  cmp |-> [i \in 1..513 |-> Cmp(a, Seq513[i])]])>>)
=============================================================================
