CONSTANTS
  F32 = FALSE
SPECIFICATION Spec
POSTCONDITION TraceAccepted
CHECK_DEADLOCK FALSE
