CONSTANTS
  F32 = FALSE
  CHECK_VALUES = TRUE
  CHECK_SIGNALS = TRUE
  CHECK_RANGES = FALSE
  TSTRENGTH_DOC = FALSE
SPECIFICATION Spec
INVARIANT NotDone
POSTCONDITION TraceAccepted
CHECK_DEADLOCK FALSE
