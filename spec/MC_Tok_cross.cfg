\* C14: crossing detectors, every pair of streams over 4 ranks + -0.0 (complete: state = sign of last delta)
CONSTANTS
  PMAX = 255
  SMM_TOTAL_ORDER = TRUE
  REV_REBASE = TRUE
  Inits <- AllToks
  Subjects <- CrossAll
  Lens <- L1to2
  Ranks <- R4
  WithNegZero = TRUE
  EmitDepth = 0
  FirstIsInit = FALSE
SPECIFICATION Spec
INVARIANTS Conform Antisym
CHECK_DEADLOCK FALSE
