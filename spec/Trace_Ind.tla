------------------------------- MODULE Trace_Ind -------------------------------
(***************************************************************************)
(* Trace validation (direction B) of the indicators: C05 (raw values),      *)
(* C06 (signals), C11 (result shape), C12 (ranges, checked by the           *)
(* CheckRanges invariants of Ranges.tla on the same traces).                *)
(*                                                                           *)
(* The harness initialises real indicator instances from (randomised,       *)
(* valid) configurations, feeds valid candle streams and logs config,       *)
(* candles, values and signals.  The spec carries its own state of each     *)
(* indicator from init (exact fixed point) and accepts an event only if     *)
(*  - the result has exactly size() values and signals;                     *)
(*  - every value lies within the allowance of the specified formula;       *)
(*  - every signal is what the documented rule yields FROM THE LOGGED       *)
(*    VALUES, the candle and the config (so C06 does not depend on C05's    *)
(*    tolerance); where a comparison is within rounding of its threshold    *)
(*    both outcomes are admitted and the spec branches.                     *)
(***************************************************************************)
EXTENDS Indicators, NumSubjects, Ranges, TLC, Json, IOUtils

CONSTANTS CHECK_VALUES,     \* C05: raw values against the formulas
          CHECK_SIGNALS,    \* C06: signals against their rules (from the logged values)
          CHECK_RANGES      \* C12: documented ranges / orderings of the logged values

Rec == ndJsonDeserialize(IOEnv.TRACE)
VARIABLES l, name, cfg, st, sg, t, P, V, K, live, mute,
          dry        \* number of consecutive zero-volume bars up to now (the construction candle is an infinite prehistory)
vars == <<l, name, cfg, st, sg, t, P, V, K, live, mute, dry>>
E == Rec[l]
IsNum(j) == "s" \in DOMAIN j
Fx(j) == FxFromJson(j)
Cn(j) == [o |-> Fx(j.o), h |-> Fx(j.h), l |-> Fx(j.l), c |-> Fx(j.c), v |-> Fx(j.v)]

\* the harness sorts the config fields by type: integers, floats (-> Fx), MA constructors [ma, n], strings, booleans
CfgOf(j) == j.i @@ [k \in DOMAIN j.f |-> Fx(j.f[k])] @@ j.m @@ j.s @@ j.b

Tol(scale, tt) == Allow(K, 8, tt, scale)

QuotOK(y, e, tt) ==
    LET an == Tol(e.sn, tt)  ad == Tol(e.sd, tt)  aden == FxAbs(e.den)
    IN  \/ FxLe(aden, FxMulInt(ad, 8))
        \/ /\ IsNum(y)
           /\ LET yy == Fx(y)
              IN  FxLe(FxAbs(FxSub(FxMul(yy, e.den), e.num)),
                       FxAdd(FxDivInt(FxMulInt(FxAdd(an, FxMul(FxAbs(yy), ad)), 8), 7),
                             FxAdd(FxMul(FxMulInt(EPS, 4), FxMul(FxAbs(yy), aden)), Delta(4, FxAbs(yy)))))

Accept(y, e, tt) ==
    CASE e.kind = "any" -> TRUE
      [] e.kind = "abs" -> IsNum(y) /\ FxLe(FxAbs(FxSub(Fx(y), e.v)), Tol(e.scale, tt))
      [] e.kind = "sqoff" -> /\ IsNum(y)
                             /\ LET d == FxSub(Fx(y), e.mid)
                                    slack == FxAdd(Tol(e.s2, tt), FxMulInt(FxMul(FxAbs(d), Tol(e.sm, tt)), 2))
                                IN  /\ FxLe(FxAbs(FxSub(FxSqr(d), e.v)), FxAdd(slack, FxMul(FxMulInt(EPS, 16), e.v)))
                                    /\ (d.s = e.sgn \/ FxLe(FxSqr(d), slack))
      [] e.kind = "quot" -> QuotOK(y, e, tt)
      [] e.kind = "guard" -> LET ad == Tol(e.sd, tt)
                             IN  IF FxGt(e.den, ad) THEN QuotOK(y, e, tt)
                                 ELSE IF FxLt(e.den, FxNeg(ad)) THEN IsNum(y) /\ FxEq(Fx(y), e.zero)
                                 ELSE TRUE

Init == l = 1 /\ name = "" /\ cfg = <<>> /\ st = <<>> /\ sg = <<>> /\ t = 0 /\ P = FxZero /\ V = FxZero /\ K = 1 /\ live = FALSE /\ mute = FALSE /\ dry = 0

TNew == /\ E.ev = "ind_new"
        /\ E.valid = TRUE /\ E.res \in {"ok", "err"}    \* generated configurations are valid; whether every valid one initialises is C10's claim
        /\ LET c == Cn(E.c)  cf == CfgOf(E.cfg)
           IN  /\ name' = E.name /\ cfg' = cf
               /\ st' = IF (CHECK_VALUES /\ E.name \in SpecifiedValues) \/ (CHECK_RANGES /\ E.name \in RangeNeedsSpec) THEN IInit(E.name, cf, c) ELSE <<>>
               /\ sg' = IF CHECK_SIGNALS /\ E.name \in SpecifiedSignals THEN ISigInit(E.name, cf, c) ELSE <<>>
               /\ P' = CMag(c) /\ V' = FxAbs(c.v)
        /\ t' = 0 /\ K' = E.k /\ live' = (E.res = "ok") /\ mute' = FALSE
        /\ dry' = IF Cn(E.c).v.s > 0 THEN 0 ELSE 100000

TNext == /\ E.ev = "ind_next" /\ live
         /\ "panic" \notin DOMAIN E
         /\ LET c  == Cn(E.c)
                p2 == FxMax(P, CMag(c))
                v2 == FxMax(V, FxAbs(c.v))
                allnum == \A i \in 1..Len(E.v) : IsNum(E.v[i])
            IN  /\ P' = p2 /\ V' = v2
                /\ E.size = E.cfgsize /\ Len(E.v) = E.size[1] /\ Len(E.s) = E.size[2]        \* C11: result shape
                /\ IF CHECK_VALUES /\ name \in SpecifiedValues
                   THEN \E r \in {IStep(name, cfg, st, c, p2, v2)} :
                           /\ st' = r.st
                           /\ Len(r.vals) = Len(E.v)
                           /\ \A i \in 1..Len(E.v) : Accept(E.v[i], r.vals[i], t + 1)
                   ELSE IF CHECK_RANGES /\ name \in RangeNeedsSpec
                   \* a volume-normalised quantity is asserted to be in range where its formula is DEFINED: the exact sums of the
                   \* values specification say where (its expectation there is a quotient with a denominator away from 0)
                   THEN \E r \in {IStep(name, cfg, st, c, p2, v2)} :
                           /\ st' = r.st
                           /\ RangeOKDefined(name, E.v, r.vals)
                   ELSE st' = st
                \* a non-numeric value after the first step (0/0, or a radicand made negative by the residue of running sums) leaves
                \* the signal machine, which is specified on defined values, without a defined state: the rest of the program is muted
                /\ mute' = (mute \/ (~allnum /\ t >= 1))
                /\ IF CHECK_SIGNALS /\ name \in SpecifiedSignals /\ allnum /\ ~mute
                   THEN \E a \in ISig(name, cfg, sg, c, [i \in 1..Len(E.v) |-> [x |-> Fx(E.v[i]), o |-> E.o[i]]]) :
                           /\ sg' = a.sg
                           /\ \A i \in 1..Len(E.s) : E.s[i] \in a.sigs[i]
                   ELSE sg' = sg
                /\ dry' = IF c.v.s > 0 THEN 0 ELSE IF dry >= 100000 THEN dry ELSE dry + 1
                /\ CHECK_RANGES => RangeOK(name, cfg, c, E.v, E.raw_ma_kinds, dry')
         /\ t' = t + 1 /\ UNCHANGED <<name, cfg, K, live>>

Next == l <= Len(Rec) /\ (TNew \/ TNext) /\ l' = l + 1
Spec == Init /\ [][Next]_vars

\* with branching signal machines the trace is accepted iff SOME path consumes every event
\* reaching the end of the trace ends the search at once (reported by TLC as a violation of NotDone = accepted);
\* otherwise the postcondition reports the longest matched prefix
NotDone == l <= Len(Rec)
Matched == TLCGet("stats").diameter - 1
TraceAccepted ==
    \/ Matched = Len(Rec)
    \/ /\ PrintT(<<"FAIL", ToJson([matched |-> Matched, total |-> Len(Rec), event |-> Rec[Matched + 1]])>>)
       /\ FALSE
=============================================================================
