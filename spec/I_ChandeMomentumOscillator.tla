------------------------- MODULE I_ChandeMomentumOscillator -------------------------
(* ChandeMomentumOscillator(period n, zone z, source): over the last n one-step changes of the source (the source is  *)
(* constant before the stream, so missing changes are 0) up = sum of the positive changes, dn = sum of the absolute   *)
(* negative changes; value = (up - dn) / (up + dn), 0 when both are 0 (the code tests its running accumulators with   *)
(* an exact `!= 0.`: near-zero denominators are exempt).  S0 = full buy when the value crosses under -z (was above,   *)
(* is <= -z), full sell when it crosses above +z (was below, is >= z); both detectors start from a zero difference.   *)
\* SPEC: values signals
EXTENDS IndLib

ChandeMomentumOscillator_Init(cfg, c) == [h |-> WFill(cfg.period + 1, Src(c, cfg.source))]
ChandeMomentumOscillator_Step(cfg, st, c, P, V) ==
    LET n  == cfg.period
        h  == WPush(st.h, Src(c, cfg.source))
        S  == SrcScale(cfg.source, P, V)
        ch == [j \in 1..n |-> FxSub(h[j + 1], h[j])]
        up == FxSum([j \in 1..n |-> IF ch[j].s > 0 THEN ch[j] ELSE FxZero])
        dn == FxSum([j \in 1..n |-> IF ch[j].s < 0 THEN FxNeg(ch[j]) ELSE FxZero])
    IN  [st |-> [h |-> h], vals |-> <<Gx(FxSub(up, dn), FxAdd(up, dn), FxMulInt(S, 2), FxMulInt(S, 2), FxZero)>>]

\* sign of (logged value a) - (float-computed threshold b): exact unless the two are within rounding of each other
ChandeMomentumOscillator_Sgn(a, b) == IF NearEq(a, b) THEN {-1, 0, 1} ELSE {FxSub(a, b).s}
ChandeMomentumOscillator_SigInit(cfg, c) == [lo |-> 0, hi |-> 0]
ChandeMomentumOscillator_Sig(cfg, sg, c, v) ==
    {[sg |-> [lo |-> dl, hi |-> dh],
      sigs |-> <<{Act(B2I(sg.lo > 0 /\ dl <= 0) - B2I(sg.hi < 0 /\ dh >= 0))}>>]
     : dl \in ChandeMomentumOscillator_Sgn(v[1].x, FxNeg(cfg.zone)), dh \in ChandeMomentumOscillator_Sgn(v[1].x, cfg.zone)}
=============================================================================
