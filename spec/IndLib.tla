--------------------------------- MODULE IndLib ---------------------------------
(***************************************************************************)
(* Vocabulary shared by the indicator specifications (I_*.tla):             *)
(*   - candles as records [o, h, l, c, v] of Fx, Src(c, source);            *)
(*   - expectations for raw values (C05): Ex (absolute, with the magnitude  *)
(*     scale the allowance is proportional to), Qx (quotient), Any;         *)
(*   - the signal vocabulary (C06) evaluated on the implementation's own    *)
(*     logged values: crossings, unit actions, proportional actions;        *)
(*   - small windows over Fx (push, highest, lowest, newest-extremum age).  *)
(* Actions are coded as in Action.tla: Buy(s) = s, Sell(s) = -1-s, None=600.*)
(***************************************************************************)
EXTENDS MA

Src(c, s) == CASE s = "close" -> c.c [] s = "open" -> c.o [] s = "high" -> c.h [] s = "low" -> c.l
               [] s = "hl2" -> HL2(c) [] s = "tp" -> TP(c) [] s = "volume" -> c.v
               [] s = "volumed_price" -> FxMul(TP(c), c.v)
\* magnitude scale of a source value, given the price scale P and the volume scale V
SrcScale(s, P, V) == CASE s = "volume" -> V [] s = "volumed_price" -> FxMul(P, V) [] OTHER -> P

\* expectations
Ex(v, scale) == [kind |-> "abs", v |-> v, scale |-> scale]
Qx(num, den, sn, sd) == [kind |-> "quot", num |-> num, den |-> den, sn |-> sn, sd |-> sd]
\* as Qx, but the code returns `zero` when its guard finds the denominator not positive / zero
Gx(num, den, sn, sd, zero) == [kind |-> "guard", num |-> num, den |-> den, sn |-> sn, sd |-> sd, zero |-> zero]
AnyVal == [kind |-> "any"]
\* y = mid + sgn * sqrt(v): a square root is ill-conditioned near 0, so it is compared in the squared domain:
\* (y - mid)^2 against v (allowance proportional to s2) -- used for bands built on a standard deviation
SqOff(mid, v, sgn, s2, sm) == [kind |-> "sqoff", mid |-> mid, v |-> v, sgn |-> sgn, s2 |-> s2, sm |-> sm]

\* windows (oldest first)
WPush(w, x) == Append(Tail(w), x)
WFill(n, v) == [i \in 1..n |-> v]
RECURSIVE FxMaxOf(_, _, _), FxMinOf(_, _, _)
FxMaxOf(w, i, acc) == IF i > Len(w) THEN acc ELSE FxMaxOf(w, i + 1, FxMax(acc, w[i]))
FxMinOf(w, i, acc) == IF i > Len(w) THEN acc ELSE FxMinOf(w, i + 1, FxMin(acc, w[i]))
Hi(w) == FxMaxOf(w, 2, w[1])
Lo(w) == FxMinOf(w, 2, w[1])
\* age (0 = newest) of the newest maximal / minimal element
HiAge(w) == CHOOSE a \in 0..(Len(w) - 1) : FxEq(w[Len(w) - a], Hi(w)) /\ \A b \in 0..(a - 1) : ~FxEq(w[Len(w) - b], Hi(w))
LoAge(w) == CHOOSE a \in 0..(Len(w) - 1) : FxEq(w[Len(w) - a], Lo(w)) /\ \A b \in 0..(a - 1) : ~FxEq(w[Len(w) - b], Lo(w))

\* action codes
BUY == 255
SELL == -256
NONE == 600
Act(i) == IF i > 0 THEN BUY ELSE IF i < 0 THEN SELL ELSE NONE      \* From<i8>
B2I(b) == IF b THEN 1 ELSE 0
Sg(x) == x.s                                                       \* sign of an Fx value

\* A logged float: [x |-> its fixed-point value, o |-> its exact ordering key <<sign, hi, mid, lo>>].
\* Fx resolves 10^-24 only; the sign of a difference of two logged floats is decided on the keys, exactly.
LexCmp(p, q) == IF p[2] # q[2] THEN (IF p[2] < q[2] THEN -1 ELSE 1)
                ELSE IF p[3] # q[3] THEN (IF p[3] < q[3] THEN -1 ELSE 1)
                ELSE IF p[4] # q[4] THEN (IF p[4] < q[4] THEN -1 ELSE 1) ELSE 0
FCmp(a, b) ==         \* sign(a - b) for logged floats a, b
    LET p == a.o  q == b.o
    IN  IF p[1] # q[1] THEN (IF p[1] < q[1] THEN -1 ELSE 1)
        ELSE IF p[1] = 0 THEN 0
        ELSE p[1] * LexCmp(p, q)
ZeroV == [x |-> FxZero, o |-> <<0, 0, 0, 0>>]
FGt(a, b) == FCmp(a, b) > 0
FGe(a, b) == FCmp(a, b) >= 0
FLt(a, b) == FCmp(a, b) < 0
FLe(a, b) == FCmp(a, b) <= 0
FEq(a, b) == FCmp(a, b) = 0

\* Cross detector on logged values: state = sign of the last difference (Cross::default(): 0)
CrossOut(last, a, b) == LET d == FCmp(a, b) IN B2I(last < 0 /\ d >= 0) - B2I(last > 0 /\ d <= 0)
CrossLast(a, b) == FCmp(a, b)
CrossAboveOut(last, a, b) == B2I(last < 0 /\ FCmp(a, b) >= 0)
CrossUnderOut(last, a, b) == B2I(last > 0 /\ FCmp(a, b) <= 0)

----------------------------------------------------------------------------
(* Reversal detectors on logged floats, AS CODED (src/methods/reversal.rs; model-checked against the pivot definition *)
(* in Reversal.tla / MC_Tok): window of left+right+1 values, value and position of the current extremum, position     *)
(* counter renumbered before it saturates at 255.  Indicators seed them with a constant (usually 0) and then feed     *)
(* their own series, so the implementation-shaped machine is followed here.  dir = 1: upper, -1: lower.               *)
RevVInit(l, r, v0) == [left |-> l, right |-> r, ev |-> v0, ei |-> 0, index |-> 0, win |-> WFill(l + r + 1, v0)]
RECURSIVE RevVScan(_, _, _, _, _)
RevVScan(win, j, pos, acc, dir) ==
    IF j > Len(win) THEN acc
    ELSE RevVScan(win, j + 1, pos + 1, IF dir * FCmp(win[j], acc[2]) >= 0 THEN <<pos, win[j]>> ELSE acc, dir)
RevVNext(st, x, dir) ==
    LET win2  == WPush(st.win, x)
        n     == Len(st.win)
        idxs  == IF st.index + 1 > 255 THEN 255 ELSE st.index + 1
        first == IF idxs < n THEN 0 ELSE idxs - n
        upd   == IF st.ei < first THEN RevVScan(win2, 2, first + 1, <<first, win2[1]>>, dir)
                 ELSE IF dir * FCmp(x, st.ev) >= 0 THEN <<st.index, x>>
                 ELSE <<st.ei, st.ev>>
        fire  == st.index >= st.right /\ upd[1] = (IF st.index < st.right THEN 0 ELSE st.index - st.right)
        shift == IF idxs = 255 THEN idxs - n ELSE 0
    IN  [st |-> [st EXCEPT !.win = win2, !.ei = upd[1] - shift, !.ev = upd[2], !.index = idxs - shift], out |-> B2I(fire)]
\* ReversalSignal = lower - upper (+1: a low pivot `right` bars ago, -1: a high pivot)
RevBothInit(l, r, v0) == [hi |-> RevVInit(l, r, v0), lo |-> RevVInit(l, r, v0)]
RevBothNext(st, x) == LET h == RevVNext(st.hi, x, 1)  w == RevVNext(st.lo, x, -1)
                      IN  [st |-> [hi |-> h.st, lo |-> w.st], out |-> w.out - h.out]

\* Action::from(x: f64) for an exactly known x: clamp to [-1, 1], strength = round-half-away(|x| * 255).
\* The code rounds the product once before round(): at a distance < 2^-40 from a half the neighbour is admitted too.
FxFloorInt(x) == LET w == BShr(x.m, FRAC) IN IF Len(w) = 0 THEN 0 ELSE IF Len(w) = 1 THEN w[1] ELSE w[1] + 10000 * w[2]   \* |x| < 10^8
ActFOK(code, x) ==
    LET ax  == IF FxGt(FxAbs(x), FxOne) THEN FxOne ELSE FxAbs(x)
        p   == FxMulInt(ax, 255)
        lo  == FxFloorInt(FxAdd(p, FxSub(FxDivInt(FxOne, 2), FxShr(FxOne, 3))))       \* round(p - 1e-12)
        hi  == FxFloorInt(FxAdd(p, FxAdd(FxDivInt(FxOne, 2), FxShr(FxOne, 3))))       \* round(p + 1e-12)
        neg == x.s < 0
    IN  IF x.s = 0 \/ (lo = 0 /\ code \in {0, -1})   \* strength 0: Buy(0) and Sell(0) are the same action (Action's own equality);
        THEN code \in {0, -1}                         \* the sign of a value that rounds to strength 0 is not part of the rule
        ELSE IF neg THEN code \in {-1 - lo, -1 - hi} ELSE code \in {lo, hi}
\* the same as a set of admissible codes
ActFSet(x) == {code \in -256..255 : ActFOK(code, x)}
\* near-threshold comparisons on logged floats: a >= b decided exactly, unless the two are within 2^-40 relative
\* of each other, in which case both outcomes are admissible (the code compares against a float-computed bound)
NearEq(a, b) == FxLe(FxAbs(FxSub(a, b)), FxShr(FxMax(FxAbs(a), FxAbs(b)), 3))
GeSet(a, b) == IF NearEq(a, b) THEN {TRUE, FALSE} ELSE {FxGe(a, b)}
GtSet(a, b) == IF NearEq(a, b) THEN {TRUE, FALSE} ELSE {FxGt(a, b)}
LeSet(a, b) == GeSet(b, a)
LtSet(a, b) == GtSet(b, a)
=============================================================================
