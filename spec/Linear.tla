-------------------------------- MODULE Linear --------------------------------
(***************************************************************************)
(* Definitions ("from scratch") of the finite-window numeric methods over   *)
(* exact fixed-point numbers (Big.tla's Fx):                                *)
(*   SMA WMA SWMA TRIMA HMA LinReg Conv VWMA Integral Derivative Momentum   *)
(*   RateOfChange Past StDev MeanAbsDev MedianAbsDev CCI LinearVolatility   *)
(*   ADI(n>0)                                                               *)
(* Each Def takes the input history h (a sequence, OLDEST FIRST, at least   *)
(* as long as the method looks back; the construction value stands in for   *)
(* the inputs before the stream) and returns the value of the documented    *)
(* formula in real (fixed-point) arithmetic.                                *)
(***************************************************************************)
EXTENDS Big, FiniteSets

RECURSIVE FxSumAt(_, _, _)
FxSumAt(s, i, acc) == IF i > Len(s) THEN acc ELSE FxSumAt(s, i + 1, FxAdd(acc, s[i]))
FxSum(s) == FxSumAt(s, 1, FxZero)

RECURSIVE FxMaxAbsAt(_, _, _)
FxMaxAbsAt(s, i, acc) == IF i > Len(s) THEN acc ELSE FxMaxAbsAt(s, i + 1, FxMax(acc, FxAbs(s[i])))
FxMaxAbs(s) == FxMaxAbsAt(s, 1, FxZero)

Last(h, n) == SubSeq(h, Len(h) - n + 1, Len(h))       \* the newest n elements
Ago(h, k)  == h[Len(h) - k]                           \* the element k steps back (0 = newest)

ISqrt(n) == CHOOSE r \in 0..n : r * r <= n /\ (r + 1) * (r + 1) > n

----------------------------------------------------------------------------
SMAv(w) == FxDivInt(FxSum(w), Len(w))                 \* w: exactly the window
WMAv(w) == LET n == Len(w) IN FxDivInt(FxSum([i \in 1..n |-> FxMulInt(w[i], i)]), (n * (n + 1)) \div 2)
\* symmetric weights 1,2,..,2,1 (the two middle ones equal for even n)
SWMAw(n, i) == IF i <= n + 1 - i THEN i ELSE n + 1 - i
SWMAv(w) == LET n == Len(w)
                tot == LET a == (n + 1) \div 2  b == n \div 2 IN (a * (a + 1)) \div 2 + (b * (b + 1)) \div 2
            IN  FxDivInt(FxSum([i \in 1..n |-> FxMulInt(w[i], SWMAw(n, i))]), tot)

SMADef(n, h)  == SMAv(Last(h, n))
WMADef(n, h)  == WMAv(Last(h, n))
SWMADef(n, h) == SWMAv(Last(h, n))
\* TRIMA = SMA(n) of SMA(n): looks back 2n-1
TRIMADef(n, h) == SMAv([j \in 1..n |-> SMAv(SubSeq(h, Len(h) - 2 * n + 1 + j, Len(h) - n + j))])
\* HMA(n) = WMA(isqrt n)( 2 WMA(n div 2) - WMA(n) ): looks back n + isqrt(n) - 1
HMADef(n, h) ==
    LET s == ISqrt(n)
        inner(e) == LET hh == SubSeq(h, 1, e)              \* history up to position e
                    IN  FxSub(FxMulInt(WMADef(n \div 2, hh), 2), WMADef(n, hh))
    IN  WMAv([j \in 1..s |-> inner(Len(h) - s + j)])
\* least-squares line through (-i, x_i), i = 0 (newest) .. n-1, evaluated at 0:
\* a linear filter with weights 2(2n-1-3i) / (n(n+1))
LinRegDef(n, h) == FxDivInt(FxSum([j \in 1..n |-> FxMulInt(Ago(h, j - 1), 2 * (2 * n - 1 - 3 * (j - 1)))]), n * (n + 1))
\* slope of that line (LinReg::tan): 6 * sum (n-1-2i) x_i / (n (n^2-1))  -- per unit step towards the newest
\* Conv: weights (Fx) applied oldest..newest, the last weight on the newest input
ConvDef(ws, h) == LET n == Len(ws)  w == Last(h, n)
                  IN  [num |-> FxSum([i \in 1..n |-> FxMul(w[i], ws[i])]), den |-> FxSum(ws)]
\* VWMA over pairs <<price, volume>>
VWMADef(n, h) == LET w == Last(h, n)
                 IN  [num |-> FxSum([i \in 1..n |-> FxMul(w[i][1], w[i][2])]), den |-> FxSum([i \in 1..n |-> w[i][2]])]
IntegralDef(n, h) == FxSum(Last(h, n))
MomentumDef(n, h) == FxSub(Ago(h, 0), Ago(h, n))
DerivativeDef(n, h) == FxDivInt(MomentumDef(n, h), n)
ROCDef(n, h) == [num |-> MomentumDef(n, h), den |-> Ago(h, n)]
PastDef(n, h) == Ago(h, n)
\* sample variance (n - 1): StDev is its square root
VarDef(n, h) == LET w == Last(h, n)
                    mean == SMAv(w)
                IN  FxDivInt(FxSum([i \in 1..n |-> FxSqr(FxSub(w[i], mean))]), n - 1)
MeanAbsDevDef(n, h) == LET w == Last(h, n)  mean == SMAv(w)
                       IN  FxDivInt(FxSum([i \in 1..n |-> FxAbs(FxSub(w[i], mean))]), n)
\* k-th smallest (1-based) of a sequence of Fx
KthFx(w, k) == LET i == CHOOSE i \in 1..Len(w) :
                          /\ Cardinality({j \in 1..Len(w) : FxLt(w[j], w[i])}) < k
                          /\ Cardinality({j \in 1..Len(w) : FxLe(w[j], w[i])}) >= k
               IN  w[i]
MedianDef(n, h) == LET w == Last(h, n)
                   IN  FxDivInt(FxAdd(KthFx(w, (n + 1) \div 2), KthFx(w, n \div 2 + 1)), 2)
MedianAbsDevDef(n, h) == LET w == Last(h, n)  med == MedianDef(n, h)
                         IN  FxDivInt(FxSum([i \in 1..n |-> FxAbs(FxSub(w[i], med))]), n)
\* CCI without the 0.015 factor: (x0 - mean) / MeanAbsDev
CCIDef(n, h) == [num |-> FxSub(Ago(h, 0), SMADef(n, h)), den |-> MeanAbsDevDef(n, h)]
\* sum of the last n absolute one-step changes: looks back n + 1
LinVolDef(n, h) == FxSum([j \in 1..n |-> FxAbs(FxSub(Ago(h, j - 1), Ago(h, j)))])

----------------------------------------------------------------------------
(* candles: records [o, h, l, c, v] of Fx *)
TP(c)    == FxDivInt(FxAdd(FxAdd(c.h, c.l), c.c), 3)
HL2(c)   == FxDivInt(FxAdd(c.h, c.l), 2)
OHLC4(c) == FxDivInt(FxAdd(FxAdd(c.o, c.h), FxAdd(c.l, c.c)), 4)
\* close location value as a quotient: ((c - l) - (h - c)) / (h - l); 0 on a zero range
CLVnum(c) == FxSub(FxSub(c.c, c.l), FxSub(c.h, c.c))
CLVden(c) == FxSub(c.h, c.l)
CLV(c)   == IF FxIsZero(CLVden(c)) THEN FxZero ELSE FxDiv(CLVnum(c), CLVden(c))
\* magnitude of a candle's prices
CMag(c) == FxMax(FxMax(FxAbs(c.o), FxAbs(c.h)), FxMax(FxAbs(c.l), FxAbs(c.c)))
\* conditioning of a term clv * volume: the numerator of clv is a difference of price-sized quantities, rounded at price
\* scale, so the term is only determined up to a few eps * P / (h - l) * v
CLVCond(c) == IF FxIsZero(CLVden(c)) THEN FxZero ELSE FxMul(FxDiv(CMag(c), CLVden(c)), c.v)
\* true range with a previous close
TRClose(c, pc) == FxSub(FxMax(c.h, pc), FxMin(c.l, pc))
ADIDef(n, h) == FxSum([i \in 1..n |-> LET c == Last(h, n)[i] IN FxMul(CLV(c), c.v)])
=============================================================================
