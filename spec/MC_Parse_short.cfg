CONSTANTS
  PMAX = 255
  Mode = "short"
  MaxLen = 4
SPECIFICATION Spec
INVARIANTS CanonOK Emit
CHECK_DEADLOCK FALSE
