--------------------------------- MODULE Api ---------------------------------
(***************************************************************************)
(* The Method / Sequence API as a protocol over handles (C09, C13).         *)
(*                                                                           *)
(* Everything is stated against ONE reference run: an instance built from   *)
(* the first element of the input stream xs and fed xs[1], xs[2], ...       *)
(* element by element produces ys[1], ys[2], ...  Because methods are       *)
(* deterministic transducers, the abstract state of a handle is just the    *)
(* number c of stream elements it has consumed; every call, whatever its    *)
(* form (next, over, call, apply, boxed closure, history / last-value       *)
(* wrapper), on whatever handle (original, clone, restored snapshot), must  *)
(* return exactly the slice ys[c+1 .. c+k] and advance c by k.  peek is the *)
(* value most recently produced, ys[c].                                     *)
(*                                                                           *)
(* TLC explores the protocol and emits programs: sequences of operations    *)
(* annotated with the slice of the reference outputs each must return; the  *)
(* harness computes the reference run on the real crate and replays the     *)
(* programs on every subject, comparing bit for bit.                        *)
(***************************************************************************)
EXTENDS Integers, Sequences, FiniteSets, TLC, Json

CONSTANTS L,          \* length of the input stream
          MaxH,       \* at most this many handles
          MaxK,       \* chunk sizes 0..MaxK
          Depth,      \* a program has at most this many operations
          Ops         \* operation names enabled in this configuration

VARIABLES hs,         \* handle -> [kind, c]   kinds: "plain" | "hist" | "last" | "fn"
          prog        \* the operations so far (with their expected slices)

vars == <<hs, prog>>

Kinds == {"plain", "hist", "last", "fn"}
Handles == DOMAIN hs
NextH == Cardinality(Handles)

\* ref: which reference run the slice is taken from -- "plain": ys; "pre": the run of an instance that was fed the
\* construction value once more before the stream (what WithLastValue::new does to the instance it wraps)
Op(name, h, k, as, lo, hi) == [op |-> name, h |-> h, k |-> k, as |-> as, lo |-> lo, hi |-> hi,
                               ref |-> IF h \in DOMAIN hs /\ hs[h].kind = "last" /\ lo > 0 /\ name # "peek0" THEN "pre" ELSE "plain"]
Do(o) == prog' = Append(prog, o)
Set(h, kind, c) == hs' = (h :> [kind |-> kind, c |-> c]) @@ hs
CanAdd == NextH < MaxH

Init == hs = <<>> /\ prog = <<>>

\* constructors: Method::new, with_history, new_fn, and with_last_value, which feeds the construction value to
\* the wrapped instance once and keeps the result: its peek is ys[1] at once, and its later outputs are those of
\* the pre-fed run ("pre").  That the pre-fed run equals the plain run (the construction value is a constant
\* prehistory, C08) is compared separately by the harness: exactly for selections, within rounding otherwise.
New(name, kind, pre) == /\ name \in Ops /\ CanAdd
                        /\ Set(NextH, kind, 0)
                        /\ Do(Op(name, -1, 0, NextH, 1, pre))
\* one-shot: Method::new_over / new_apply on the first k elements
NewOver(name) == /\ name \in Ops
                 /\ \E k \in 0..MaxK : Do(Op(name, -1, k, -1, 1, k)) /\ UNCHANGED hs

\* consuming calls on an existing handle
Consume(name, kinds, ks) ==
    /\ name \in Ops
    /\ \E h \in Handles : \E k \in ks :
          /\ hs[h].kind \in kinds
          /\ hs[h].c + k <= L
          /\ Set(h, hs[h].kind, hs[h].c + k)
          /\ Do(Op(name, h, k, -1, hs[h].c + 1, hs[h].c + k))

\* observers
Peek == /\ "peek" \in Ops
        /\ \E h \in Handles : /\ hs[h].kind \in {"plain", "last"}
                              /\ hs[h].c >= 1 \/ hs[h].kind = "last"
                              /\ IF hs[h].c = 0 THEN Do(Op("peek0", h, 0, -1, 1, 1))      \* the value kept by with_last_value
                                 ELSE Do(Op("peek", h, 0, -1, hs[h].c, hs[h].c))
                              /\ UNCHANGED hs
Get == /\ "get" \in Ops
       /\ \E h \in Handles : \E i \in 0..(L + 1) :
             /\ hs[h].kind = "hist" /\ i <= hs[h].c + 1
             /\ Do(Op("get", h, i, -1, hs[h].c - i, IF i < hs[h].c THEN hs[h].c - i ELSE hs[h].c - i - 1))
             /\ UNCHANGED hs
Iter == /\ "iter" \in Ops
        /\ \E h \in Handles : hs[h].kind = "hist" /\ Do(Op("iter", h, 0, -1, 1, hs[h].c)) /\ UNCHANGED hs

\* new handles from old ones: same abstract state
Dup(name, kinds) == /\ name \in Ops /\ CanAdd
                    /\ \E h \in Handles : /\ hs[h].kind \in kinds
                                          /\ Set(NextH, hs[h].kind, hs[h].c)
                                          /\ Do(Op(name, h, 0, NextH, 1, 0))
IntoFn == /\ "into_fn" \in Ops
          /\ \E h \in Handles : /\ hs[h].kind = "plain"
                                /\ Set(h, "fn", hs[h].c)
                                /\ Do(Op("into_fn", h, 0, -1, 1, 0))

Next == /\ Len(prog) < Depth
        /\ \/ New("new", "plain", 0) \/ New("with_history", "hist", 0) \/ New("with_last_value", "last", 1)
           \/ New("new_fn", "fn", 0)
           \/ NewOver("new_over") \/ NewOver("new_apply")
           \/ Consume("next", {"plain", "hist", "last"}, {1})
           \/ Consume("fncall", {"fn"}, {1})
           \/ Consume("over", {"plain", "hist", "last"}, 0..MaxK)
           \/ Consume("call", {"plain", "hist", "last"}, 0..MaxK)
           \/ Consume("apply", {"plain"}, 0..MaxK)
           \/ Peek \/ Get \/ Iter
           \/ Dup("clone", {"plain", "hist", "last"}) \/ Dup("snapshot", {"plain"})
           \/ IntoFn

Spec == Init /\ [][Next]_vars

----------------------------------------------------------------------------
(* properties of the protocol itself *)
TypeOK == \A h \in Handles : hs[h].kind \in Kinds /\ hs[h].c \in 0..L
\* exactly one output per input: the slices requested from a handle and its ancestors tile 1..c
OnePerInput == \A i \in 1..Len(prog) :
                  LET o == prog[i] IN o.op \in {"next", "fncall", "over", "call", "apply"} => o.hi - o.lo + 1 = o.k
\* an operation on one handle never changes another handle (action property)
Independent == [][\A h \in Handles : (Len(prog') > Len(prog) /\ prog'[Len(prog')].h # h) => hs'[h] = hs[h]]_vars

\* direction A: print every program that reaches the depth bound
Emit == (Len(prog) = Depth) => PrintT(<<"REPLAY", ToJson([prog |-> prog])>>)

AllOps == {"new", "with_history", "with_last_value", "new_fn", "new_over", "new_apply", "next", "fncall", "over", "call",
           "apply", "peek", "get", "iter", "clone", "snapshot", "into_fn"}
DeepOps == {"new", "with_last_value", "over", "peek"}
SnapOps == {"new", "next", "over", "clone", "snapshot"}
IndOps == {"new", "new_fn", "new_over", "next", "fncall", "over", "clone", "snapshot"}
=============================================================================
