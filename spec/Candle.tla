-------------------------------- MODULE Candle --------------------------------
(***************************************************************************)
(* OHLCV helpers of src/core/ohlcv.rs and candle aggregation (C18).         *)
(*                                                                           *)
(* Part 1 (grid): field values are small integers plus the IEEE specials    *)
(* NAN, PINF, NINF (codes); comparisons follow IEEE (anything compared with *)
(* NaN is false).  validate AS CODED versus the predicate of the property   *)
(* statement; the single-subtraction true range versus the three-way        *)
(* maximum; clv's zero-range branch; associativity of `+` on candles.       *)
(* Part 2 (numeric): the formulas in exact fixed point live in Linear.tla   *)
(* (TP, HL2, OHLC4, CLV, TRClose) and are used by Trace_Candle.             *)
(***************************************************************************)
EXTENDS Integers

NAN == 9000
PINF == 8000
NINF == -8000
IsNaN(a) == a = NAN
IsFinite(a) == a \notin {NAN, PINF, NINF}
Lt(a, b) == ~IsNaN(a) /\ ~IsNaN(b) /\ a < b
Gt(a, b) == Lt(b, a)
Le(a, b) == ~IsNaN(a) /\ ~IsNaN(b) /\ a <= b
Ge(a, b) == Le(b, a)

\* fn validate(&self) -> bool, as coded
ValidateCoded(c) ==
    /\ ~(Gt(c.c, c.h) \/ Lt(c.c, c.l) \/ Lt(c.h, c.l))
    /\ ~(Gt(c.o, c.h) \/ Lt(c.o, c.l))
    /\ Gt(c.c, 0) /\ Gt(c.o, 0) /\ Gt(c.h, 0) /\ Gt(c.l, 0)
    /\ IsFinite(c.c) /\ IsFinite(c.o) /\ IsFinite(c.h) /\ IsFinite(c.l)
    /\ (IsNaN(c.v) \/ Ge(c.v, 0))

\* the property's predicate: ordered, positive, finite prices; non-negative or absent (NaN) volume
ValidateStmt(c) ==
    /\ \A p \in {c.o, c.h, c.l, c.c} : IsFinite(p) /\ p > 0
    /\ c.l <= c.o /\ c.o <= c.h /\ c.l <= c.c /\ c.c <= c.h
    /\ (IsNaN(c.v) \/ (c.v # NINF /\ c.v >= 0))

Max2(a, b) == IF a >= b THEN a ELSE b
Min2(a, b) == IF a <= b THEN a ELSE b
IAbs(a) == IF a < 0 THEN -a ELSE a
\* tr_close as coded (one subtraction) and the textbook three-way maximum, on finite integers
TRCoded(h, l, pc) == Max2(h, pc) - Min2(l, pc)
TRText(h, l, pc) == Max2(h - l, Max2(IAbs(h - pc), IAbs(l - pc)))

\* Candle + rhs: keeps open, max high, min low, rhs close, summed volume
VAdd(a, b) == IF IsNaN(a) \/ IsNaN(b) THEN NAN ELSE a + b          \* an absent (NaN) volume makes the sum absent
\* f64::max / f64::min ignore a NaN operand (NaN only when both are NaN): an absent high / low is the identity of the aggregation
FMax(a, b) == IF IsNaN(a) THEN b ELSE IF IsNaN(b) THEN a ELSE Max2(a, b)
FMin(a, b) == IF IsNaN(a) THEN b ELSE IF IsNaN(b) THEN a ELSE Min2(a, b)
CAdd(a, b) == [o |-> a.o, h |-> FMax(a.h, b.h), l |-> FMin(a.l, b.l), c |-> b.c, v |-> VAdd(a.v, b.v)]
=============================================================================
