---------------------------- MODULE Trace_Window ----------------------------
(***************************************************************************)
(* Trace validation (direction B) for yata::core::Window.                   *)
(*                                                                           *)
(* The harness drives real Window<T> objects with random programs and logs  *)
(* one event per public call with its arguments and its result (value,      *)
(* None, panic).  This specification replays the events on the ABSTRACT      *)
(* machine of Window.tla (hs[h] = the last N pushes of handle h, oldest      *)
(* first) and accepts an event only if the logged result is the abstract     *)
(* reading.  A trace is accepted iff every event is matched.                 *)
(***************************************************************************)
EXTENDS Window, TLC, Json, IOUtils

Rec == ndJsonDeserialize(IOEnv.TRACE)

VARIABLES l,      \* position in the trace
          hs      \* handle -> abstract sequence

vars == <<l, hs>>

E == Rec[l]
Is(name) == l <= Len(Rec) /\ Rec[l].ev = name
Step == l' = l + 1
Keep == hs' = hs
H == hs[E.h]
Bind(h, s) == hs' = (h :> s) @@ hs

Init == l = 1 /\ hs = <<>>

\* a fresh program starts: forget every handle
TReset == Is("reset") /\ hs' = <<>> /\ Step

TNew == /\ Is("new")
        /\ IF WNewPanics(E.n) THEN E.res = "panic" /\ Keep
           ELSE E.res = "ok" /\ Bind(E.h, AbsNew(E.n, E.v))
        /\ Step

TEmpty == Is("empty") /\ Bind(E.h, <<>>) /\ Step

TPush == /\ Is("push")
         /\ IF Len(H) = 0 THEN E.y = Panic /\ Keep
            ELSE E.y = Some(AbsPushOut(H)) /\ Bind(E.h, AbsPush(H, E.x))
         /\ Step

TNewest  == Is("newest")   /\ E.y = AbsNewest(H)        /\ Keep /\ Step
TOldest  == Is("oldest")   /\ E.y = AbsOldest(H)        /\ Keep /\ Step
TGet     == Is("get")      /\ E.y = AbsGet(H, E.i)      /\ Keep /\ Step
TIndex   == Is("index")    /\ E.y = AbsIndex(H, E.i)    /\ Keep /\ Step
TLen     == Is("len")      /\ E.y = Len(H)              /\ Keep /\ Step
TIsEmpty == Is("is_empty") /\ E.y = (Len(H) = 0)        /\ Keep /\ Step

\* an iterator advanced k times, then asked size_hint / len / count / last and one more next
IterOK(s) == /\ E.outs = AbsTaken(s, E.k)
             /\ E.hint = AbsRemaining(s, E.k)
             /\ E.hint_hi = AbsRemaining(s, E.k)
             /\ E.count = AbsRemaining(s, E.k)
             /\ E.last = AbsLast(s, E.k)
             /\ E.nxt = AbsTaken(s, E.k + 1)[E.k + 1]
             /\ E.nth1 = AbsNth(s, E.k, 1)
             /\ E.rest = AbsRest(s, E.k)          \* drained through fold (for_each)
             /\ E.rest2 = AbsRest(s, E.k)         \* drained through try_fold (all)
             /\ E.rest3 = AbsRest(s, E.k)         \* collected
TIter == Is("iter") /\ IterOK(AbsIter(H)) /\ Keep /\ Step
TRev  == Is("rev")  /\ IterOK(AbsRev(H))  /\ Keep /\ Step

\* the exported representation (as_slice + serialized index) denotes the same sequence
TExport == /\ Is("export")
           /\ Len(E.buf) = Len(H)
           /\ (Len(H) = 0 => E.index = 0)
           /\ (Len(H) > 0 => E.index < Len(H) /\ AbsFromParts(E.buf, E.index) = H)
           /\ Keep /\ Step

\* Window::from_parts(buf, index) with arbitrary (also invalid) arguments
TFromParts == /\ Is("from_parts")
              /\ IF WFromPartsPanics(E.buf, E.index) THEN E.res = "panic" /\ Keep
                 ELSE E.res = "ok" /\ Bind(E.as, AbsFromParts(E.buf, E.index))
              /\ Step

\* deserialization of an arbitrary {"buf": .., "index": ..} document
TDeser == /\ Is("deser")
          /\ LET d == WDeserialize(E.buf, E.index)
             IN  /\ E.res = d.res
                 /\ d.res # "panic"
                 /\ IF d.res = "ok" THEN Bind(E.as, AbsFromParts(E.buf, E.index)) ELSE Keep
          /\ Step

\* clone / serde round trip / From<Vec>: the new handle denotes the same sequence
TSame == /\ Is("clone") \/ Is("serde")
         /\ E.res = "ok"
         /\ Bind(E.as, H)
         /\ Step

TFromVec == /\ Is("from_vec")
            /\ IF WFromPartsPanics(E.buf, 0) THEN E.res = "panic" /\ Keep
               ELSE E.res = "ok" /\ Bind(E.as, E.buf)
            /\ Step

Next == \/ TReset \/ TNew \/ TEmpty \/ TPush \/ TNewest \/ TOldest \/ TGet \/ TIndex \/ TLen \/ TIsEmpty
        \/ TIter \/ TRev \/ TExport \/ TFromParts \/ TDeser \/ TSame \/ TFromVec

Spec == Init /\ [][Next]_vars

\* invariant of every observed state: no handle ever exceeds the capacity bound
CapOK == \A h \in DOMAIN hs : Len(hs[h]) <= PMAX - 1

\* reaching the end of the trace ends the search at once (reported by TLC as a violation of NotDone = accepted);
\* otherwise the postcondition reports the longest matched prefix
NotDone == l <= Len(Rec)
Matched == TLCGet("stats").diameter - 1
TraceAccepted ==
    \/ Matched = Len(Rec)
    \/ /\ PrintT(<<"FAIL", ToJson([matched |-> Matched, total |-> Len(Rec),
                                   event |-> Rec[Matched + 1]])>>)
       /\ FALSE
=============================================================================
