CONSTANTS
  Mode = "emit"
SPECIFICATION Spec
INVARIANTS Emit
CHECK_DEADLOCK FALSE
