----------------------------- MODULE I_ChaikinMoneyFlow -----------------------------
(* ChaikinMoneyFlow(size n): sum over the last n candles of clv * volume, divided by the sum of their volumes.       *)
(* S0 = the value crosses 0.  Undefined (0/0) on zero total volume.                                                   *)
\* SPEC: values signals
EXTENDS IndLib

ChaikinMoneyFlow_Init(cfg, c) == [w |-> WFill(cfg.size, c)]
ChaikinMoneyFlow_Step(cfg, st, c, P, V) ==
    LET n == cfg.size  w == WPush(st.w, c)
        num == FxSum([i \in 1..n |-> FxMul(CLV(w[i]), w[i].v)])
        den == FxSum([i \in 1..n |-> w[i].v])
        cond == FxSum([i \in 1..n |-> CLVCond(w[i])])        \* conditioning of the clv terms (narrow candles)
    IN  [st |-> [w |-> w], vals |-> <<Qx(num, den, FxAdd(FxMulInt(V, n), cond), FxMulInt(V, n))>>]
ChaikinMoneyFlow_SigInit(cfg, c) == [x |-> 0]
ChaikinMoneyFlow_Sig(cfg, sg, c, v) == {[sg |-> [x |-> CrossLast(v[1], ZeroV)], sigs |-> <<{Act(CrossOut(sg.x, v[1], ZeroV))}>>]}
=============================================================================
