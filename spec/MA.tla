---------------------------------- MODULE MA ----------------------------------
(***************************************************************************)
(* The moving-average constructor (helpers::MA): 15 kinds behind one        *)
(* Init / Step interface in exact fixed point, used by the indicator        *)
(* specifications.  kind is the lower-case name of the text form            *)
(* ("sma", "wma", "hma", "rma", "ema", "dma", "dema", "tma", "tema",        *)
(* "wsma", "smm", "swma", "trima", "linreg", "vidya").                      *)
(* Finite-window kinds keep the inputs they look back on and evaluate the   *)
(* definition of Linear.tla from scratch; the others carry the recurrence   *)
(* of Recursive.tla.                                                        *)
(***************************************************************************)
EXTENDS Recursive

FIRKinds == {"sma", "wma", "hma", "smm", "swma", "trima", "linreg"}
MADepth(kind, n) == CASE kind = "trima" -> 2 * n - 1
                      [] kind = "hma" -> n + ISqrt(n) - 1
                      [] OTHER -> n

MAInit(kind, n, v) ==
    CASE kind \in FIRKinds -> [w |-> [i \in 1..MADepth(kind, n) |-> v]]
      [] kind \in {"ema", "rma", "wsma"} -> [v |-> v]
      [] kind \in {"dma", "tma", "dema", "tema"} -> [c |-> CascInit(n, v)]
      [] kind = "vidya" -> VidyaInit(n, v)

MAStep(kind, n, st, x) ==
    IF kind \in FIRKinds
    THEN LET w == Append(Tail(st.w), x)
             y == CASE kind = "sma" -> SMADef(n, w) [] kind = "wma" -> WMADef(n, w) [] kind = "hma" -> HMADef(n, w)
                    [] kind = "smm" -> MedianDef(n, w) [] kind = "swma" -> SWMADef(n, w) [] kind = "trima" -> TRIMADef(n, w)
                    [] kind = "linreg" -> LinRegDef(n, w)
         IN  [st |-> [w |-> w], out |-> y]
    ELSE CASE kind = "ema"  -> LET q == EMAStep(n, st.v, x)  IN [st |-> [v |-> q.st], out |-> q.out]
           [] kind = "rma"  -> LET q == RMAStep(n, st.v, x)  IN [st |-> [v |-> q.st], out |-> q.out]
           [] kind = "wsma" -> LET q == WSMAStep(n, st.v, x) IN [st |-> [v |-> q.st], out |-> q.out]
           [] kind = "dma"  -> LET q == DMAStep(n, st.c, x)  IN [st |-> [c |-> q.st], out |-> q.out]
           [] kind = "tma"  -> LET q == TMAStep(n, st.c, x)  IN [st |-> [c |-> q.st], out |-> q.out]
           [] kind = "dema" -> LET q == DEMAStep(n, st.c, x) IN [st |-> [c |-> q.st], out |-> q.out]
           [] kind = "tema" -> LET q == TEMAStep(n, st.c, x) IN [st |-> [c |-> q.st], out |-> q.out]
           [] kind = "vidya" -> LET q == VidyaStep(n, st, x, FxZero) IN [st |-> q.st, out |-> q.out]

\* with a config field m = [ma |-> kind, n |-> length]
MInit(m, v) == MAInit(m.ma, m.n, v)
MStep(m, st, x) == MAStep(m.ma, m.n, st, x)
=============================================================================
