--------------------------------- MODULE I_Kaufman ---------------------------------
(* Kaufman(period1, period2 fast, period3 slow, filter_period, square_smooth, k, source) -- KAMA:                   *)
(*   er = |src - src period1 candles ago| / (sum of the last period1 absolute one-step changes), 0 on zero          *)
(*   volatility; sc = er (2/(period2+1) - 2/(period3+1)) + 2/(period3+1), squared when square_smooth;               *)
(*   kama <- kama + sc (src - kama), seeded with the first source value.  Value [kama].                             *)
(* S0, filter_period <= 1: src crosses kama (+ upwards).  filter_period > 1: a cross is not reported but latched    *)
(* together with the kama value at the cross; it is reported once, on the first later candle without a new cross    *)
(* on which |kama - latched kama| > k * StDev(filter_period)(kama) (sample deviation, window seeded with the first  *)
(* source value).  Evaluated on the logged kama values: the deviation is recomputed exactly from them; when the     *)
(* comparison is within the rounding of the code's running-sums variance (10^-12 of the squared magnitude) both     *)
(* outcomes are admitted and the spec branches.  src against kama: exact for a direct source, branching within      *)
(* rounding for computed sources (hl2, tp, volumed_price).                                                          *)
(* NOTE: init() fails (StDev::new) for filter_period <= 1 although validate() accepts it, so the unfiltered branch  *)
(* cannot be reached through the public API; it is specified nevertheless.                                          *)
\* SPEC: values signals
EXTENDS IndLib

\* Conditioning of the efficiency ratio.  The code keeps the volatility as a running sum (+= new - old): after larger
\* changes have passed through it, the sum carries a rounding residue proportional to the largest volatility seen
\* (vm), not to its current value, so er = dir / vol has the relative error (allowance of vm) / vol.  Its effect on
\* kama, |src - kama| * d sc/d er * er * vm / vol, is carried in `e` (in units of the allowance; it decays with the
\* recurrence, factor 1 - sc) and added to the magnitude scale of the value -- capped at 1000 times the source scale.
Kaufman_Init(cfg, c) == LET src == Src(c, cfg.source)
                        IN  [w |-> WFill(cfg.period1 + 1, src), kama |-> src, e |-> FxZero, vm |-> FxZero]
Kaufman_Step(cfg, st, c, P, V) ==
    LET src  == Src(c, cfg.source)
        S    == SrcScale(cfg.source, P, V)
        w    == WPush(st.w, src)
        dir  == FxAbs(MomentumDef(cfg.period1, w))
        vol  == LinVolDef(cfg.period1, w)
        vm   == FxMax(st.vm, vol)
        er   == IF FxIsZero(vol) THEN FxZero ELSE FxDiv(dir, vol)
        fast == FxFromRat(2, cfg.period2 + 1)
        slow == FxFromRat(2, cfg.period3 + 1)
        sc1  == FxAdd(FxMul(er, FxSub(fast, slow)), slow)
        sc   == IF cfg.square_smooth THEN FxSqr(sc1) ELSE sc1
        kama == FxAdd(st.kama, FxMul(sc, FxSub(src, st.kama)))
        dsc  == FxMul(FxMul(FxSub(fast, slow), er), IF cfg.square_smooth THEN FxMulInt(sc1, 2) ELSE FxOne)
        term == IF FxIsZero(vol) THEN FxZero ELSE FxMul(FxMul(FxAbs(FxSub(src, st.kama)), dsc), FxDiv(vm, vol))
        e    == FxAdd(FxMul(st.e, FxSub(FxOne, sc)), term)
    IN  [st |-> [w |-> w, kama |-> kama, e |-> e, vm |-> vm],
         vals |-> <<Ex(kama, FxMin(FxMulInt(S, 1000), FxAdd(S, e)))>>]

\* possible signs of src - lv (src: fixed-point source value of the candle, lv: logged float)
Kaufman_Cmp(src, lv, direct) ==
    IF FxIsZero(src) THEN {-lv.o[1]}
    ELSE IF direct \/ ~NearEq(src, lv.x) THEN {FxCmp(src, lv.x)}
    ELSE {-1, 0, 1}

\* x: sign of the last src - kama; ls: latched cross; lsv: kama at the latched cross; w: StDev window; M: magnitude
Kaufman_SigInit(cfg, c) ==
    LET src == Src(c, cfg.source)
    IN  [x |-> 0, ls |-> 0, lsv |-> src, M |-> FxAbs(src),
         w |-> IF cfg.filter_period > 1 THEN WFill(cfg.filter_period, src) ELSE <<>>]
Kaufman_Sig(cfg, sg, c, v) ==
    LET src    == Src(c, cfg.source)
        direct == cfg.source \in {"close", "open", "high", "low", "volume"}
        kama   == v[1].x
        Cross(d) == B2I(sg.x < 0 /\ d >= 0) - B2I(sg.x > 0 /\ d <= 0)
    IN  IF cfg.filter_period <= 1
        THEN {[sg |-> [sg EXCEPT !.x = d], sigs |-> <<{Act(Cross(d))}>>] : d \in Kaufman_Cmp(src, v[1], direct)}
        ELSE LET n    == cfg.filter_period
                 w    == WPush(sg.w, kama)
                 M    == FxMax(sg.M, FxAbs(kama))
                 k2   == FxSqr(cfg.k)
                 thr  == FxMul(k2, VarDef(n, w))                       \* (k sd)^2
                 d2   == FxSqr(FxSub(kama, sg.lsv))
                 tol  == FxAdd(FxMul(k2, FxShr(FxSqr(M), 3)), FxShr(FxMax(d2, thr), 3))
                 over == IF FxLe(FxAbs(FxSub(d2, thr)), tol) THEN {TRUE, FALSE} ELSE {FxGt(d2, thr)}
             IN  {[sg |-> [x |-> d, w |-> w, M |-> M,
                           ls  |-> IF Cross(d) # 0 THEN Cross(d) ELSE IF sg.ls # 0 /\ g THEN 0 ELSE sg.ls,
                           lsv |-> IF Cross(d) # 0 THEN kama ELSE sg.lsv],
                   sigs |-> <<{IF Cross(d) = 0 /\ sg.ls # 0 /\ g THEN Act(sg.ls) ELSE NONE}>>]
                  : d \in Kaufman_Cmp(src, v[1], direct), g \in over}
=============================================================================
