------------------------------ MODULE MC_Result ------------------------------
(* IndicatorResult (C11): a result built from nv values and ns signals carries exactly min(nv, SIZE) values and       *)
(* min(ns, SIZE) signals (SIZE = 4, the capacity of its fixed arrays), in the given order; its accessors agree.        *)
(* Every (nv, ns) in 0..6 x 0..6 is printed for replay on the real type.                                               *)
EXTENDS Naturals, TLC, Json
SIZE == 4
VARIABLES nv, ns
Init == nv \in 0..6 /\ ns \in 0..6
Next == UNCHANGED <<nv, ns>>
Spec == Init /\ [][Next]_<<nv, ns>>
Min(a, b) == IF a < b THEN a ELSE b
Emit == PrintT(<<"RES", ToJson([nv |-> nv, ns |-> ns, vlen |-> Min(nv, SIZE), slen |-> Min(ns, SIZE)])>>)
=============================================================================
