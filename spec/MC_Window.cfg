\* complete: every capacity of the default PeriodType, every phase
CONSTANTS
  PMAX = 255
  Caps <- AllCaps
  FullIter <- IterCaps
  EmitCaps <- NoCaps
SPECIFICATION Spec
INVARIANTS TypeOK PushInv ObserverInv IterInv RebuildInv
CHECK_DEADLOCK FALSE
