------------------------------ MODULE MC_Window ------------------------------
(***************************************************************************)
(* Model-checking instance for Window.tla.                                  *)
(*                                                                           *)
(* Elements are labels: the construction value is 0 and the k-th push is   *)
(* the label k, so a state is determined by (capacity, number of pushes)   *)
(* and the reachable space is finite and small: for the default PeriodType *)
(* (PMAX = 255) ALL capacities 0..254 with ALL rotation phases and fill     *)
(* levels (pushes 0..2N+2) are enumerated.                                  *)
(*                                                                           *)
(* Invariants say: every observer of the implementation-shaped window       *)
(* equals the reading of the abstract sequence `hist`; every unchecked      *)
(* access is in bounds; a window rebuilt from (as_slice, index) or through  *)
(* Serialize/Deserialize reads the same; iterators split at every k report  *)
(* consumed ++ remaining = the sequence.                                    *)
(***************************************************************************)
EXTENDS Window, TLC, Json

CONSTANTS Caps,        \* capacities to explore
          FullIter,    \* capacities for which every iterator split 0..N+1 is checked
          EmitCaps     \* capacities whose observer tables are printed for replay (direction A)

VARIABLES w, hist, p

vars == <<w, hist, p>>

Init == \E n \in Caps :
          /\ ~WNewPanics(n)
          /\ w = WNew(n, 0)
          /\ hist = AbsNew(n, 0)
          /\ p = 0

Push == /\ ~WPushPanics(w)
        /\ p < 2 * w.size + 2
        /\ w' = WPush(w, p + 1)
        /\ hist' = AbsPush(hist, p + 1)
        /\ p' = p + 1

Next == Push

Spec == Init /\ [][Next]_vars

----------------------------------------------------------------------------
N == Len(hist)

\* iterator splits to check in this state
Splits == IF N \in FullIter THEN 0..N ELSE {0, 1, N - 1, N} \cap 0..N

FoldSplits == IF N <= 12 THEN 0..N ELSE {0, 1, 2, N - 2, N - 1, N}

TypeOK == WellFormed(w) /\ w.size = N

PushInv ==      \* push returns the value pushed N steps before; empty window panics
    IF N = 0 THEN WPushPanics(w)
    ELSE /\ ~WPushPanics(w) /\ WPushArithOk(w)
         /\ WPushOut(w) = AbsPushOut(hist)

ObserverInv ==
    /\ WNewest(w) = AbsNewest(hist)
    /\ WOldest(w) = AbsOldest(hist)
    /\ WLen(w) = N
    /\ WIsEmpty(w) = (N = 0)
    /\ \A i \in 0..(N + 1) : WGet(w, i) = AbsGet(hist, i)
    /\ \A i \in 0..(N + 1) : WIndex(w, i) = AbsIndex(hist, i)
    /\ WGet(w, PMAX) = None /\ WIndex(w, PMAX) = Panic
    /\ \A i \in 0..(N + 1) : WIndexInBounds(w, i)

\* One full traversal (N + 1 calls of next: the last one must return None) gives
\* the result of every call and the iterator state at every split point k.
IterInv ==
    \* (bound through singleton sets: TLC re-evaluates a LET definition at every use)
    \A f \in {ItFull(w, N + 1)}, r \in {RevFull(w, N + 1)},
       af \in {AbsTaken(AbsIter(hist), N + 1)}, ar \in {AbsTaken(AbsRev(hist), N + 1)} :
        /\ f.outs = af
        /\ r.outs = ar
        /\ \A k \in Splits :
              /\ ItSizeHint(f.its[k + 1]) = AbsRemaining(hist, k)
              /\ ItCount(f.its[k + 1]) = AbsRemaining(hist, k)
              /\ ItLast(w, f.its[k + 1]) = AbsLast(AbsIter(hist), k)
              /\ ItNext(w, f.its[k + 1]).out = af[k + 1]
              /\ ItSizeHint(r.its[k + 1]) = AbsRemaining(hist, k)
              /\ ItCount(r.its[k + 1]) = AbsRemaining(hist, k)
              /\ RevLast(w, r.its[k + 1]) = AbsLast(AbsRev(hist), k)
              /\ RevNext(w, r.its[k + 1]).out = ar[k + 1]

\* Every observer the invariants above talk about, as one value (used to compare
\* a rebuilt window with the original).
Reads(x) == <<WNewest(x), WOldest(x), WLen(x), WIsEmpty(x),
              [i \in 0..(N + 1) |-> WGet(x, i)],
              ItFull(x, N + 1), RevFull(x, N + 1)>>

RebuildInv ==
    /\ AbsFromParts(WAsSlice(w), w.index) = hist
    /\ N > 0 => /\ ~WFromPartsPanics(WAsSlice(w), w.index)
                /\ WellFormed(WFromParts(WAsSlice(w), w.index))
                /\ Reads(WFromParts(WAsSlice(w), w.index)) = Reads(w)
    /\ LET s == WSerialize(w)
           d == WDeserialize(s.buf, s.index)
       IN  /\ d.res = "ok"
           /\ WellFormed(d.w)
           /\ Reads(d.w) = Reads(w)

----------------------------------------------------------------------------
(* Direction A: print the observer table of this state, to be replayed on   *)
(* the real Window<T>.                                                      *)
Emit ==
    (N \in EmitCaps) =>
      PrintT(<<"ROW", ToJson([
          n      |-> N,
          p      |-> p,
          pushout|-> IF N = 0 THEN Panic ELSE Some(WPushOut(w)),
          newest |-> WNewest(w),
          oldest |-> WOldest(w),
          len    |-> WLen(w),
          empty  |-> WIsEmpty(w),
          get    |-> [i \in 1..(N + 2) |-> WGet(w, i - 1)],
          idx    |-> [i \in 1..(N + 2) |-> WIndex(w, i - 1)],
          \* per split k: size_hint, last(), next(), nth(1), and -- for the splits in FoldSplits -- what the
          \* remaining part yields when it is drained through fold / try_fold based adaptors
          iter   |-> LET f == ItFull(w, N + 1)
                     IN  [k \in 1..(N + 1) |->
                            [hint |-> ItSizeHint(f.its[k]), last |-> ItLast(w, f.its[k]), nxt |-> f.outs[k],
                             nth1 |-> AbsNth(AbsIter(hist), k - 1, 1),
                             rest |-> IF (k - 1) \in FoldSplits THEN AbsRest(AbsIter(hist), k - 1) ELSE <<"skip">>]],
          rev    |-> LET r == RevFull(w, N + 1)
                     IN  [k \in 1..(N + 1) |->
                            [hint |-> ItSizeHint(r.its[k]), last |-> RevLast(w, r.its[k]), nxt |-> r.outs[k],
                             nth1 |-> AbsNth(AbsRev(hist), k - 1, 1),
                             rest |-> IF (k - 1) \in FoldSplits THEN AbsRest(AbsRev(hist), k - 1) ELSE <<"skip">>]],
          buf    |-> WAsSlice(w),
          index  |-> w.index
      ])>>)

----------------------------------------------------------------------------
(* constant definitions for the .cfg files *)
AllCaps   == 0..(PMAX - 1)
SmallCaps == 0..24 \cup {127, 128}
IterCaps  == 0..24 \cup {63, 64, 127, 128, PMAX - 2, PMAX - 1}
EmitSmall == 0..9 \cup {PMAX - 1}
NoCaps    == {}
WideCaps  == {254, 255, 256, 257, 300, 1000}
OneCap    == {PMAX - 1}
=============================================================================
