CONSTANTS
  L = 14
  MaxH = 4
  MaxK = 3
  Depth = 14
  Ops <- AllOps
SPECIFICATION Spec
INVARIANTS TypeOK OnePerInput Emit
PROPERTY Independent
CHECK_DEADLOCK FALSE
