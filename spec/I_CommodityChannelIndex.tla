-------------------------- MODULE I_CommodityChannelIndex --------------------------
(* CommodityChannelIndex(period n, zone z, source): value = (src - SMA(n)(src)) / (1.5 * MeanAbsDev(n)(src)), 0 when   *)
(* the mean absolute deviation is not positive (guard of methods::CCI).  S0: t = [v < -z and previous v >= -z] -      *)
(* [v > z and previous v <= z] (previous v initially 0); the signal is t unless t equals the previously EMITTED       *)
(* signal (then none): full buy on entering the zone below -z, full sell on entering the zone above +z.               *)
\* SPEC: values signals
EXTENDS IndLib

CommodityChannelIndex_Init(cfg, c) == [w |-> WFill(cfg.period, Src(c, cfg.source))]
CommodityChannelIndex_Step(cfg, st, c, P, V) ==
    LET n == cfg.period
        w == WPush(st.w, Src(c, cfg.source))
        S == SrcScale(cfg.source, P, V)
        q == CCIDef(n, w)
    IN  [st |-> [w |-> w],
         vals |-> <<Gx(FxMulInt(q.num, 2), FxMulInt(q.den, 3), FxMulInt(S, 4), FxMulInt(S, 6), FxZero)>>]

CommodityChannelIndex_SigInit(cfg, c) == [last |-> ZeroV.x, sig |-> 0]
CommodityChannelIndex_Sig(cfg, sg, c, v) ==
    LET x == v[1].x  z == cfg.zone  nz == FxNeg(cfg.zone)
    IN  {LET t == B2I(lt /\ pge) - B2I(gt /\ ple)
             s == IF t # 0 /\ sg.sig # t THEN t ELSE 0
         IN  [sg |-> [last |-> x, sig |-> s], sigs |-> <<{Act(s)}>>]
         : lt \in LtSet(x, nz), pge \in GeSet(sg.last, nz), gt \in GtSet(x, z), ple \in LeSet(sg.last, z)}
=============================================================================
