------------------------------- MODULE I_WoodiesCCI -------------------------------
(* WoodiesCCI(period1 < period2, s1_lag, source): turbo = CCI(period1)(src) / 1.5, trend = CCI(period2)(src) / 1.5,   *)
(* where CCI(n) = (src - SMA(n)) / MeanAbsDev(n) without the 0.015 constant, 0 when the deviation is not positive.    *)
(* Values [turbo, trend].                                                                                             *)
(* S0 (documented): full buy when the trend CCI has stayed above the zero line for s1_lag bars, full sell when it     *)
(* has stayed below for s1_lag bars.  The bar count is kept as the code keeps it: set to +-1 on the bar the trend     *)
(* crosses 0, otherwise advanced by sign(trend).                                                                      *)
(* DEVIATION OF THE ORIGINAL CODE: it multiplied [|count| = s1_lag] by the CROSSING of that very bar instead of the   *)
(* side the count is on, so it could fire only on a crossing bar, where |count| = 1: never for s1_lag > 1 (default    *)
(* 6).  WoodiesCCI_SigAsCoded is that behaviour (it accepts all traces of the original code); WoodiesCCI_Sig is the   *)
(* documented rule (it rejects the original code on the first bar the trend CCI completes s1_lag bars on one side).   *)
\* SPEC: values signals
EXTENDS IndLib

WoodiesCCI_Init(cfg, c) == [w |-> WFill(cfg.period2, Src(c, cfg.source))]
WoodiesCCI_Step(cfg, st, c, P, V) ==
    LET S  == SrcScale(cfg.source, P, V)
        w  == WPush(st.w, Src(c, cfg.source))
        a  == CCIDef(cfg.period1, w)
        b  == CCIDef(cfg.period2, w)
        \* x / 1.5 = 2 num / (3 den)
        e(q) == Gx(FxMulInt(q.num, 2), FxMulInt(q.den, 3), FxMulInt(S, 2), FxMulInt(S, 6), FxZero)
    IN  [st |-> [w |-> w], vals |-> <<e(a), e(b)>>]

WoodiesCCI_SigInit(cfg, c) == [x |-> 0, n |-> 0]
WoodiesCCI_Count(sg, v) == LET cross == CrossOut(sg.x, v[2], ZeroV)
                           IN  IF cross = 0 THEN sg.n + FCmp(v[2], ZeroV) ELSE cross
WoodiesCCI_Abs(i) == IF i < 0 THEN -i ELSE i
WoodiesCCI_SigDoc(cfg, sg, c, v) ==
    LET n == WoodiesCCI_Count(sg, v)
    IN  {[sg |-> [x |-> CrossLast(v[2], ZeroV), n |-> n],
          sigs |-> <<{Act(IF WoodiesCCI_Abs(n) = cfg.s1_lag THEN n ELSE 0)}>>]}
WoodiesCCI_SigAsCoded(cfg, sg, c, v) ==
    LET n == WoodiesCCI_Count(sg, v)
    IN  {[sg |-> [x |-> CrossLast(v[2], ZeroV), n |-> n],
          sigs |-> <<{Act(IF WoodiesCCI_Abs(n) = cfg.s1_lag THEN CrossOut(sg.x, v[2], ZeroV) ELSE 0)}>>]}
WoodiesCCI_Sig(cfg, sg, c, v) == WoodiesCCI_SigDoc(cfg, sg, c, v)
=============================================================================
