------------------------------- MODULE I_CoppockCurve -------------------------------
(* CoppockCurve(ma1, s3_ma, period2 > period3, s2_left, s2_right, source): roc(n) = (src - src[n ago]) / src[n ago]; *)
(* main = ma1(roc(period2) + roc(period3)), signal line = s3_ma(main); both averages seeded 0 (the rate-of-change    *)
(* windows with the first source).  Values [main, line] are dimensionless ratios (the doc comment gives them the     *)
(* range of the source).  S0 = main crosses 0, S1 = reversal points of main (ReversalSignal(s2_left, s2_right)       *)
(* seeded 0: buy on a low pivot, sell on a high pivot; the doc sentence is truncated), S2 = main crosses line.       *)
(* A zero source value (source = volume) makes a later rate of change x/0: from then on the values are unspecified   *)
(* (`dead`), the code yields inf/NaN which most averages never forget.                                               *)
\* SPEC: values signals
EXTENDS IndLib

CoppockCurve_Init(cfg, c) ==
    [w |-> WFill(cfg.period2 + 1, Src(c, cfg.source)), m1 |-> MInit(cfg.ma1, FxZero), m2 |-> MInit(cfg.s3_ma, FxZero),
     mx |-> FxZero, dead |-> FALSE]
CoppockCurve_Step(cfg, st, c, P, V) ==
    LET w   == WPush(st.w, Src(c, cfg.source))
        x   == Ago(w, 0)
        p2  == Ago(w, cfg.period2)
        p3  == Ago(w, cfg.period3)
    IN  IF st.dead \/ FxIsZero(p2) \/ FxIsZero(p3)
        THEN [st |-> [st EXCEPT !.w = w, !.dead = TRUE], vals |-> <<AnyVal, AnyVal>>]
        ELSE LET r  == FxAdd(FxDiv(FxSub(x, p2), p2), FxDiv(FxSub(x, p3), p3))
                 mx == FxMax(st.mx, FxAbs(r))                      \* largest input of the averages so far
                 a  == MStep(cfg.ma1, st.m1, r)
                 b  == MStep(cfg.s3_ma, st.m2, a.out)
             IN  [st |-> [w |-> w, m1 |-> a.st, m2 |-> b.st, mx |-> mx, dead |-> FALSE],
                  vals |-> <<Ex(a.out, FxMulInt(mx, 4)), Ex(b.out, FxMulInt(mx, 8))>>]

CoppockCurve_SigInit(cfg, c) == [x1 |-> 0, rv |-> RevBothInit(cfg.s2_left, cfg.s2_right, ZeroV), x3 |-> 0]
CoppockCurve_Sig(cfg, sg, c, v) ==
    LET r == RevBothNext(sg.rv, v[1])
    IN  {[sg |-> [x1 |-> CrossLast(v[1], ZeroV), rv |-> r.st, x3 |-> CrossLast(v[1], v[2])],
          sigs |-> <<{Act(CrossOut(sg.x1, v[1], ZeroV))}, {Act(r.out)}, {Act(CrossOut(sg.x3, v[1], v[2]))}>>]}
=============================================================================
