CONSTANTS
  F32 = FALSE
SPECIFICATION Spec
INVARIANT NotDone
POSTCONDITION TraceAccepted
CHECK_DEADLOCK FALSE
