------------------------------ MODULE MC_Candle ------------------------------
(* Complete grids for Candle.tla; rows are printed for replay on Candle, the 5-tuple and [ValueType; 5]. *)
EXTENDS Candle, TLC, Json, Sequences

CONSTANT Mode        \* "validate" | "tr" | "add" | "seq"
VARIABLES x, y, z
vars == <<x, y, z>>

V == {NAN, NINF, -1, 0, 1, 2, 3, PINF}
VSeq == <<NAN, NINF, -1, 0, 1, 2, 3, PINF>>
Small == {1, 2}
Cands == [o : {1}, h : Small, l : Small, c : Small, v : {1, 2, NAN}] \cup [o : {2}, h : {2}, l : {1}, c : {1}, v : {1, NAN}]
           \cup [o : {1}, h : Small \cup {NAN}, l : Small \cup {NAN}, c : Small, v : {1}]     \* gaps: candles without a high / low

\* plain value sequences (Sequence<ValueType>::validate): valid iff every item is finite -- HUGE stands for a finite value near
\* the top of the range (sums of two of them overflow), so finiteness of the ITEMS is what counts
HUGE == 7000
VH == V \cup {HUGE, -HUGE}
Finite(v) == v \notin {NAN, NINF, PINF}
Init == CASE Mode = "seq" -> x \in VH /\ y \in VH /\ z \in VH
          [] Mode = "validate" -> x \in V /\ y \in V /\ z \in V                 \* (open, high, low); close and volume inside
          [] Mode = "tr"       -> x \in 0..8 /\ y \in 0..8 /\ z \in 0..8        \* (high, low, prev close)
          [] Mode = "add"      -> x \in Cands /\ y \in Cands /\ z \in Cands
Next == UNCHANGED vars
Spec == Init /\ [][Next]_vars

Cn(c, v) == [o |-> x, h |-> y, l |-> z, c |-> c, v |-> v]
ValidateInv == Mode = "validate" => \A c \in V, v \in V : ValidateCoded(Cn(c, v)) = ValidateStmt(Cn(c, v))
TRInv == (Mode = "tr" /\ x >= y) => TRCoded(x, y, z) = TRText(x, y, z)
AddInv == Mode = "add" => CAdd(CAdd(x, y), z) = CAdd(x, CAdd(y, z))

Emit == CASE Mode = "seq" -> PrintT(<<"SEQ", ToJson([xs |-> <<x, y, z>>,
                                                     valid |-> [n \in 1..3 |-> IF \A i \in 1..n : Finite(<<x, y, z>>[i]) THEN 1 ELSE 0],
                                                     valid_rev |-> [n \in 1..3 |-> IF \A i \in 1..n : Finite(<<z, y, x>>[i]) THEN 1 ELSE 0]])>>)
          [] Mode = "validate" ->
               PrintT(<<"ROW", ToJson([o |-> x, h |-> y, l |-> z,
                                       valid |-> [i \in 1..8 |-> [j \in 1..8 |-> IF ValidateCoded(Cn(VSeq[i], VSeq[j])) THEN 1 ELSE 0]]])>>)
          [] Mode = "tr" -> PrintT(<<"TR", ToJson([h |-> x, l |-> y, pc |-> z, tr |-> TRCoded(x, y, z)])>>)
          [] Mode = "add" -> PrintT(<<"ADD", ToJson([a |-> x, b |-> y, c |-> z, sum |-> CAdd(CAdd(x, y), z)])>>)
=============================================================================
