----------------------------- MODULE WindowCore -----------------------------
(***************************************************************************)
(* yata::core::Window<T> : circular buffer (src/core/window.rs).            *)
(* (All non-recursive definitions; Window.tla extends this module with the  *)
(* recursive iterator runs.  Window_proofs.tla proves the ring lemmas over  *)
(* this module with TLAPS, which does not accept RECURSIVE operators.)      *)
(*                                                                           *)
(* Two descriptions live here:                                              *)
(*   - the implementation-shaped one: a record [buf, index, size, s_1]      *)
(*     updated with the same PeriodType arithmetic the Rust code uses, one  *)
(*     operator per public call, every outcome modelled (value / None /     *)
(*     panic);                                                              *)
(*   - the abstract one: `hist`, the sequence of the last N pushes, oldest  *)
(*     first (the construction value counts as N earlier pushes).           *)
(* MC_Window checks that every observer of the first equals the reading of *)
(* the second in every reachable state; Trace_Window validates recorded     *)
(* executions of the real type against the abstract readings.               *)
(*                                                                           *)
(* Buffers are TLA+ sequences (1-based); Rust indices are 0-based, hence    *)
(* the `+ 1` at every access.  Every access site has an InBounds predicate  *)
(* (these are the `get_unchecked` sites of the unsafe_performance build).   *)
(***************************************************************************)
EXTENDS Integers, Sequences, Period

Some(v) == <<"some", v>>
None    == <<"none">>
Panic   == <<"panic">>
IsSome(o) == o[1] = "some"

----------------------------------------------------------------------------
(* Construction *)

\* Window::new(size, value); debug_assert!(size <= PeriodType::MAX - 1)
WNewPanics(n) == n > PMAX - 1
WNew(n, v) == [buf |-> [i \in 1..n |-> v], index |-> 0, size |-> n, s_1 |-> SatSub(n, 1)]

\* Window::empty()
WEmpty == [buf |-> <<>>, index |-> 0, size |-> 0, s_1 |-> 0]

\* Window::from_parts(slice, index): two assert!s, then the struct literal
WFromPartsPanics(buf, index) == ~(Len(buf) < PMAX) \/ ~(Len(buf) > index)
WFromParts(buf, index) ==
    LET size == Cast(Len(buf))
    IN  [buf |-> buf, index |-> index, size |-> size, s_1 |-> SatSub(size, 1)]

----------------------------------------------------------------------------
(* push *)

InB(w, i0) == i0 >= 0 /\ i0 < Len(w.buf)          \* 0-based index inside the buffer

WPushPanics(w)   == w.size = 0 \/ ~InB(w, w.index) \* debug_assert!(!is_empty) / bounds check
WPushOut(w)      == w.buf[w.index + 1]
WPush(w, v)      == [w EXCEPT !.buf[w.index + 1] = v,
                              !.index = IF w.index # w.s_1 THEN PAdd(w.index, 1) ELSE 0]
\* `(self.index != self.s_1) as PeriodType * (self.index + 1)` evaluates index + 1
\* unconditionally: it must not overflow even when the product is discarded.
WPushArithOk(w)  == PAdd(w.index, 1) # OVF

----------------------------------------------------------------------------
(* observers *)

WNewestIdx(w)    == IF w.index >= 1 THEN w.index - 1 ELSE w.s_1
WNewest(w)       == IF InB(w, WNewestIdx(w)) THEN Some(w.buf[WNewestIdx(w) + 1]) ELSE Panic
WOldest(w)       == IF InB(w, w.index) THEN Some(w.buf[w.index + 1]) ELSE Panic
WLen(w)          == w.size
WIsEmpty(w)      == Len(w.buf) = 0
WAsSlice(w)      == w.buf

\* fn slice_index(&self, index) -> Option<PeriodType>   (-1 = None)
SliceIndex(w, i) ==
    IF w.s_1 < i THEN -1
    ELSE LET idx       == w.s_1 - i
             saturated == SatAdd(w.index, idx)
             overflow  == IF saturated >= w.size THEN 1 ELSE 0
             s         == PSub(w.size, w.index)
         IN  IF s = OVF THEN OVF - 1            \* arithmetic panic (never reachable: index < size)
             ELSE overflow * SatSub(idx, s) + (1 - overflow) * saturated

WGet(w, i) ==
    LET b == SliceIndex(w, i)
    IN  IF b = -2 THEN Panic
        ELSE IF b = -1 THEN None
        ELSE IF InB(w, b) THEN Some(w.buf[b + 1]) ELSE None

WIndex(w, i) ==
    LET b == SliceIndex(w, i)
    IN  IF b < 0 THEN Panic
        ELSE IF InB(w, b) THEN Some(w.buf[b + 1]) ELSE Panic
\* the unchecked access in Index is in bounds whenever the safe build does not panic
WIndexInBounds(w, i) == LET b == SliceIndex(w, i) IN b >= 0 => InB(w, b) \/ w.size = 0

----------------------------------------------------------------------------
(* iterators: state [index, size]; `w` is the borrowed window *)

ItNew(w) == [index |-> w.index, size |-> w.size]

\* WindowIterator::next (newest -> oldest)
ItNext(w, it) ==
    IF it.size = 0 THEN [out |-> None, it |-> it]
    ELSE LET at_start == IF it.index = 0 THEN 1 ELSE 0
             ni       == SatSub(it.index, 1) + at_start * w.s_1
         IN  [out |-> IF InB(w, ni) THEN Some(w.buf[ni + 1]) ELSE Panic,
              it  |-> [index |-> ni, size |-> it.size - 1]]

\* ReversedWindowIterator::next (oldest -> newest)
RevNext(w, it) ==
    IF it.size = 0 THEN [out |-> None, it |-> it]
    ELSE [out |-> IF InB(w, it.index) THEN Some(w.buf[it.index + 1]) ELSE Panic,
          it  |-> [index |-> IF it.index # w.s_1 THEN it.index + 1 ELSE 0, size |-> it.size - 1]]

ItSizeHint(it) == it.size
ItCount(it)    == it.size
\* last(): nothing left => None, otherwise the final element of the traversal
ItLast(w, it)  == IF it.size = 0 THEN None ELSE WOldest(w)
RevLast(w, it) == IF it.size = 0 THEN None ELSE WNewest(w)

----------------------------------------------------------------------------
(* serde *)

WSerialize(w) == [buf |-> w.buf, index |-> w.index]

\* Deserialize: [res |-> "ok" | "err" | "panic", w |-> the window when ok]
WDeserialize(buf, index) ==
    IF Len(buf) > PMAX - 1 THEN [res |-> "err", w |-> WEmpty]
    ELSE IF Len(buf) = 0 /\ index = 0 THEN [res |-> "ok", w |-> WEmpty]   \* the empty window round-trips
    ELSE IF Cast(Len(buf)) <= index THEN [res |-> "err", w |-> WEmpty]
    ELSE IF WFromPartsPanics(buf, index) THEN [res |-> "panic", w |-> WEmpty]
    ELSE [res |-> "ok", w |-> WFromParts(buf, index)]

\* structural well-formedness of an instance (what every unchecked access relies on)
WellFormed(w) ==
    /\ w.size = Len(w.buf)
    /\ w.size <= PMAX - 1
    /\ w.s_1 = SatSub(w.size, 1)
    /\ (w.size = 0 => w.index = 0)
    /\ (w.size > 0 => w.index < w.size)

----------------------------------------------------------------------------
(* The abstract machine: h = the last N pushes, oldest first *)

AbsNew(n, v)    == [i \in 1..n |-> v]
AbsPushOut(h)   == h[1]
AbsPush(h, v)   == Append(Tail(h), v)
AbsNewest(h)    == IF Len(h) = 0 THEN Panic ELSE Some(h[Len(h)])
AbsOldest(h)    == IF Len(h) = 0 THEN Panic ELSE Some(h[1])
AbsGet(h, i)    == IF i < Len(h) THEN Some(h[Len(h) - i]) ELSE None
AbsIndex(h, i)  == IF i < Len(h) THEN Some(h[Len(h) - i]) ELSE Panic
\* element sequences of the two traversals
AbsIter(h)      == [j \in 1..Len(h) |-> h[Len(h) + 1 - j]]
AbsRev(h)       == h
\* what an iterator over sequence s must report after k elements have been taken
AbsTaken(s, k)  == [j \in 1..(IF k <= Len(s) THEN k ELSE Len(s)) |-> Some(s[j])]
                     \o [j \in 1..(IF k <= Len(s) THEN 0 ELSE k - Len(s)) |-> None]
AbsRemaining(s, k) == IF k >= Len(s) THEN 0 ELSE Len(s) - k
AbsLast(s, k)   == IF k >= Len(s) THEN None ELSE Some(s[Len(s)])
\* what is left after k elements were taken, and the j-th (0-based) of those
AbsRest(s, k)   == IF k >= Len(s) THEN <<>> ELSE SubSeq(s, k + 1, Len(s))
AbsNth(s, k, j) == IF k + j + 1 <= Len(s) THEN Some(s[k + j + 1]) ELSE None
\* the sequence represented by an exported buffer and the index of its oldest element
AbsFromParts(buf, index) == [j \in 1..Len(buf) |-> buf[((index + j - 1) % Len(buf)) + 1]]

=============================================================================
