----------------------------- MODULE I_EldersForceIndex -----------------------------
(* EldersForceIndex(ma, period2 k, source): force = (src - src[k ago]) * (sum of the volumes of the last k candles,   *)
(* the current one included); value = ma(force), the average seeded 0 (the candle window with the first candle).      *)
(* For k = 1 this is the referenced (close - previous close) * volume.  S0 = the value crosses 0.                     *)
\* SPEC: values signals
EXTENDS IndLib

EldersForceIndex_Init(cfg, c) == [w |-> WFill(cfg.period2 + 1, c), m |-> MInit(cfg.ma, FxZero)]
EldersForceIndex_Step(cfg, st, c, P, V) ==
    LET k   == cfg.period2
        w   == WPush(st.w, c)
        S   == SrcScale(cfg.source, P, V)
        vs  == FxSum([i \in 1..k |-> w[i + 1].v])              \* the newest k volumes
        f   == FxMul(FxSub(Src(c, cfg.source), Src(w[1], cfg.source)), vs)
        a   == MStep(cfg.ma, st.m, f)
        Sf  == FxMul(FxMulInt(S, 2), FxMulInt(V, k))               \* |src - src'| <= 2 S, volume sum <= k V
    IN  [st |-> [w |-> w, m |-> a.st], vals |-> <<Ex(a.out, FxMulInt(Sf, 4))>>]

EldersForceIndex_SigInit(cfg, c) == [x |-> 0]
EldersForceIndex_Sig(cfg, sg, c, v) ==
    {[sg |-> [x |-> CrossLast(v[1], ZeroV)], sigs |-> <<{Act(CrossOut(sg.x, v[1], ZeroV))}>>]}
=============================================================================
