---------------------------- MODULE I_ChaikinOscillator ----------------------------
(* ChaikinOscillator(ma1 fast, ma2 slow, window w): adi = accumulation/distribution index = sum of clv * volume over   *)
(* the last w candles, or (w = 0, the default) over every candle fed since construction (the construction candle is   *)
(* not part of that sum: it starts at 0); value = ma1(adi) - ma2(adi), both averages seeded with the initial adi       *)
(* (0 for w = 0, w * clv * volume of the first candle otherwise).  S0 = value crosses 0.                               *)
(* Scale: a cumulative sum has no a-priori magnitude, the allowance is proportional to the largest |adi| reached.     *)
\* SPEC: values signals
EXTENDS IndLib

ChaikinOscillator_Term(c) == FxMul(CLV(c), c.v)
ChaikinOscillator_Init(cfg, c) ==
    LET a0 == FxMulInt(ChaikinOscillator_Term(c), cfg.window)
    IN  [w |-> WFill(cfg.window, ChaikinOscillator_Term(c)), adi |-> a0, mag |-> FxAbs(a0), cnd |-> FxMulInt(CLVCond(c), cfg.window),
         m1 |-> MInit(cfg.ma1, a0), m2 |-> MInit(cfg.ma2, a0)]
ChaikinOscillator_Step(cfg, st, c, P, V) ==
    LET term == ChaikinOscillator_Term(c)
        w    == IF cfg.window = 0 THEN st.w ELSE WPush(st.w, term)
        adi  == IF cfg.window = 0 THEN FxAdd(st.adi, term) ELSE FxSum(w)
        \* largest |adi| reached; the conditioning of the clv terms accumulates like the terms themselves
        mag  == FxMax(st.mag, FxAbs(adi))
        cnd  == FxAdd(st.cnd, CLVCond(c))
        a    == MStep(cfg.ma1, st.m1, adi)
        b    == MStep(cfg.ma2, st.m2, adi)
    IN  [st |-> [w |-> w, adi |-> adi, mag |-> mag, cnd |-> cnd, m1 |-> a.st, m2 |-> b.st],
         vals |-> <<Ex(FxSub(a.out, b.out), FxMulInt(FxMax(FxMax(mag, V), FxDivInt(cnd, 8)), 4))>>]

ChaikinOscillator_SigInit(cfg, c) == [x |-> 0]
ChaikinOscillator_Sig(cfg, sg, c, v) == {[sg |-> [x |-> CrossLast(v[1], ZeroV)], sigs |-> <<{Act(CrossOut(sg.x, v[1], ZeroV))}>>]}
=============================================================================
