-------------------------- MODULE I_PivotReversalStrategy --------------------------
(* PivotReversalStrategy(left, right): no values.  swh = a high pivot of `high` confirmed now (the high `right` bars   *)
(* ago is the newest maximum of the last left+right+1 highs), swl = likewise a low pivot of `low`.  hprice / lprice    *)
(* remember the high / low of the last pivot bar (0.0 before the first pivot).  As CODED: le = swh or high <= hprice,  *)
(* se = swl or low >= lprice, S0 = Action(se - le).  The documentation says "low pivot -> buy, high pivot -> sell,     *)
(* otherwise no signal"; the code keeps signalling on non-pivot bars through the hprice / lprice comparisons (about   *)
(* 40% of all bars carry a signal), and a pivot bar yields its signal only when the opposite comparison is false.      *)
(* The pivot detectors follow src/methods/reversal.rs (RevVNext of IndLib) with exact Fx comparisons of candle fields. *)
\* SPEC: values signals
EXTENDS IndLib

PivotReversalStrategy_Cmp(a, b) == IF FxGt(a, b) THEN 1 ELSE IF FxLt(a, b) THEN -1 ELSE 0
PivotReversalStrategy_RevInit(l, r, v0) == [left |-> l, right |-> r, ev |-> v0, ei |-> 0, index |-> 0, win |-> WFill(l + r + 1, v0)]
RECURSIVE PivotReversalStrategy_Scan(_, _, _, _, _)
PivotReversalStrategy_Scan(win, j, pos, acc, dir) ==
    IF j > Len(win) THEN acc
    ELSE PivotReversalStrategy_Scan(win, j + 1, pos + 1,
                                    IF dir * PivotReversalStrategy_Cmp(win[j], acc[2]) >= 0 THEN <<pos, win[j]>> ELSE acc, dir)
PivotReversalStrategy_RevNext(st, x, dir) ==
    LET win2  == WPush(st.win, x)
        n     == Len(st.win)
        idxs  == IF st.index + 1 > 255 THEN 255 ELSE st.index + 1
        first == IF idxs < n THEN 0 ELSE idxs - n
        upd   == IF st.ei < first THEN PivotReversalStrategy_Scan(win2, 2, first + 1, <<first, win2[1]>>, dir)
                 ELSE IF dir * PivotReversalStrategy_Cmp(x, st.ev) >= 0 THEN <<st.index, x>>
                 ELSE <<st.ei, st.ev>>
        fire  == st.index >= st.right /\ upd[1] = (IF st.index < st.right THEN 0 ELSE st.index - st.right)
        shift == IF idxs = 255 THEN idxs - n ELSE 0
    IN  [st |-> [st EXCEPT !.win = win2, !.ei = upd[1] - shift, !.ev = upd[2], !.index = idxs - shift], out |-> fire]

PivotReversalStrategy_Init(cfg, c) == <<>>
PivotReversalStrategy_Step(cfg, st, c, P, V) == [st |-> st, vals |-> <<>>]

PivotReversalStrategy_SigInit(cfg, c) ==
    [ph |-> PivotReversalStrategy_RevInit(cfg.left, cfg.right, c.h), pl |-> PivotReversalStrategy_RevInit(cfg.left, cfg.right, c.l),
     hprice |-> FxZero, lprice |-> FxZero]
PivotReversalStrategy_Sig(cfg, sg, c, v) ==
    LET h == PivotReversalStrategy_RevNext(sg.ph, c.h, 1)
        w == PivotReversalStrategy_RevNext(sg.pl, c.l, -1)
        \* the candle `right` bars ago (the first candle before the stream): the detectors' windows hold its high / low
        hprice == IF h.out THEN Ago(h.st.win, cfg.right) ELSE sg.hprice
        lprice == IF w.out THEN Ago(w.st.win, cfg.right) ELSE sg.lprice
        le == B2I(h.out \/ FxLe(c.h, hprice))
        se == B2I(w.out \/ FxGe(c.l, lprice))
    IN  {[sg |-> [ph |-> h.st, pl |-> w.st, hprice |-> hprice, lprice |-> lprice], sigs |-> <<{Act(se - le)}>>]}
=============================================================================
