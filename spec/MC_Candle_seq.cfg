CONSTANTS
  Mode = "seq"
SPECIFICATION Spec
INVARIANTS Emit
CHECK_DEADLOCK FALSE
