----------------------------- MODULE NumSubjects -----------------------------
(***************************************************************************)
(* Uniform interface to the numeric methods (C02: finite-window; C03:       *)
(* recursive), used by the trace specification Trace_Num.                   *)
(*                                                                           *)
(*   NDepth(s, p)          how many past inputs the definition needs        *)
(*   NInit(s, p, v)        recursive state (<<>> for finite-window methods) *)
(*   NExpect(s, p, h, r, x, t, M)                                           *)
(*        h : input history INCLUDING x (oldest first, NDepth long)         *)
(*        r : recursive state BEFORE this step; x : the input; t : number   *)
(*        of next() calls so far (this one included); M : largest input     *)
(*        magnitude over the whole history                                  *)
(*     -> [st |-> new recursive state, exp |-> expectation]                 *)
(* An expectation is one of                                                 *)
(*   [kind |-> "abs",  v, tol]            |y - v| <= tol                    *)
(*   [kind |-> "sq",   v, tol]            y >= 0 and |y^2 - v| <= tol       *)
(*   [kind |-> "quot", num, den, an, ad]  y = num/den, allowances an, ad;   *)
(*                                        exempt when |den| <= 8 ad         *)
(*   [kind |-> "guard", ...quot fields, zero] as quot, but the code returns *)
(*                                        `zero` when den is not > 0        *)
(*   [kind |-> "candle", c, tol]          five fields                       *)
(* The allowance is DESIGN.md section 4: A = eps * (16 k + D t) * S + delta.*)
(***************************************************************************)
EXTENDS Recursive

CONSTANT F32            \* TRUE for value_type_f32 builds (eps = 2^-23), FALSE for f64 (eps = 2^-52)

EPS == IF F32 THEN [s |-> 1, m |-> <<1250, 5078, 2895, 9209, 11>>] ELSE [s |-> 1, m |-> <<4605, 2204, 2>>]

\* spec-side truncation: (k + 8) units of 10^-24 per unit of magnitude
Delta(k, S) == [s |-> 1, m |-> BMulSmall(BAdd(BShr(S.m, FRAC), <<1>>), k + 8)]
\* A(k, D, t, S) = eps * (16 k + D t) * S + delta        (16 k + D t stays < 200000 for t <= 20000)
\* (small multipliers go through MulInt, whose limb products must stay below 2^31; large ones -- soak runs -- through Mul)
Allow(k, D, t, S) == LET c == 16 * k + D * t
                     IN  FxAdd(FxMul(IF c < 200000 THEN FxMulInt(EPS, c) ELSE FxMul(EPS, FxFromInt(c)), S), Delta(k, S))

Abs(v, tol) == [kind |-> "abs", v |-> v, tol |-> tol]

FirstOf(h) == [i \in 1..Len(h) |-> h[i][1]]
SecondOf(h) == [i \in 1..Len(h) |-> h[i][2]]

FinWin == {"SMA", "WMA", "SWMA", "TRIMA", "HMA", "LinReg", "Conv", "VWMA", "Integral", "Derivative", "Momentum",
           "RateOfChange", "Past", "StDev", "MeanAbsDev", "MedianAbsDev", "CCI", "LinearVolatility", "ADI"}
Recur  == {"EMA", "DMA", "TMA", "DEMA", "TEMA", "RMA", "WSMA", "TSI", "Vidya", "TR", "HeikinAshi", "Integral0", "ADI0"}

NDepth(s, p) ==
    CASE s \in {"SMA", "WMA", "SWMA", "LinReg", "VWMA", "Integral", "StDev", "MeanAbsDev", "MedianAbsDev", "CCI", "ADI"} -> p[1]
      [] s = "Conv"  -> Len(p)
      [] s = "TRIMA" -> 2 * p[1] - 1
      [] s = "HMA"   -> p[1] + ISqrt(p[1]) - 1
      [] s \in {"Derivative", "Momentum", "RateOfChange", "Past", "LinearVolatility"} -> p[1] + 1
      [] OTHER -> 1

NInit(s, p, v) ==
    CASE s \in {"EMA", "RMA", "WSMA"} -> v
      [] s \in {"DMA", "TMA", "DEMA", "TEMA"} -> CascInit(p[1], v)
      [] s = "TSI" -> TSIInit(p, v)
      [] s = "Vidya" -> VidyaInit(p[1], v)
      [] s = "TR" -> TRInit(v)
      [] s = "HeikinAshi" -> HAInit(v)
      [] s = "Integral0" -> FxZero
      [] s = "ADI0" -> <<FxZero, FxZero>>          \* running sum, accumulated conditioning of its terms
      [] OTHER -> <<>>

\* The code evaluates CLV as (2 c - l - h) / (h - l): the numerator is a difference of price-sized quantities rounded at
\* price scale, so a term clv * v carries an absolute error of up to a few eps * P / (h - l) * v (quotient rule, DESIGN 4)
CLVAllow(cond) == FxMul(FxMulInt(EPS, 8), cond)
\* magnitude of one input of subject s
InMag(s, x) == IF s = "VWMA" THEN FxMax(FxAbs(x[1]), FxAbs(x[2]))
               ELSE IF s \in {"ADI", "ADI0"} THEN FxAbs(x.v)            \* |clv| <= 1, so a term is at most the volume
               ELSE IF s \in {"TR", "HeikinAshi"} THEN CMag(x)
               ELSE FxAbs(x)

NExpect(s, p, h, r, x, t, M) ==
    LET n == IF Len(p) > 0 /\ s # "Conv" THEN p[1] ELSE 0
        Mw == IF s \in {"VWMA", "ADI", "TR", "HeikinAshi", "Integral0", "ADI0"} THEN FxZero ELSE FxMaxAbs(h)  \* magnitude inside the window
        nM == FxMulInt(M, n)
        fin(v, k, D, S) == [st |-> r, exp |-> Abs(v, Allow(k, D, t, S))]
    IN
    CASE s = "SMA"      -> fin(SMADef(n, h), n, 8, M)
      [] s = "WMA"      -> fin(WMADef(n, h), n, 8, M)
      [] s = "SWMA"     -> fin(SWMADef(n, h), n, 8, M)
      [] s = "TRIMA"    -> fin(TRIMADef(n, h), 2 * n, 8, M)
      [] s = "HMA"      -> fin(HMADef(n, h), 2 * n, 8, FxMulInt(M, 3))
      [] s = "LinReg"   -> fin(LinRegDef(n, h), n, 8, FxMulInt(M, 4))
      [] s = "Integral" -> fin(IntegralDef(n, h), n, 8, nM)
      [] s = "Momentum" -> fin(MomentumDef(n, h), 1, 0, Mw)
      [] s = "Derivative" -> fin(DerivativeDef(n, h), 1, 0, Mw)
      [] s = "Past"     -> [st |-> r, exp |-> Abs(PastDef(n, h), Delta(0, Mw))]
      [] s = "MeanAbsDev"   -> fin(MeanAbsDevDef(n, h), 2 * n, 8, M)       \* recomputed from the window, but around the running mean
      [] s = "MedianAbsDev" -> fin(MedianAbsDevDef(n, h), 2 * n, 0, Mw)
      [] s = "LinearVolatility" -> fin(LinVolDef(n, h), n, 8, FxMulInt(nM, 2))
      [] s = "ADI"      -> [st |-> r, exp |-> Abs(ADIDef(n, h), FxAdd(Allow(2 * n, 8, t, nM),
                                                                     CLVAllow(FxSum([i \in 1..n |-> CLVCond(Last(h, n)[i])]))))]
      [] s = "StDev"    -> [st |-> r, exp |-> LET v == VarDef(n, h)
                                                 a == Allow(2 * n, 8, t, FxSqr(M))
                                             IN  [kind |-> "sq", v |-> v, tol |-> FxAdd(a, FxMul(FxMulInt(EPS, 8), v))]]
      [] s = "RateOfChange" -> [st |-> r, exp |-> LET d == ROCDef(n, h)
                                                  IN  [kind |-> "quot", num |-> d.num, den |-> d.den,
                                                       an |-> Allow(1, 0, t, Mw), ad |-> Delta(0, Mw)]]
      [] s = "CCI"      -> [st |-> r, exp |-> LET d == CCIDef(n, h)
                                              IN  [kind |-> "guard", num |-> d.num, den |-> d.den, zero |-> FxZero,
                                                   an |-> Allow(n, 8, t, M), ad |-> Allow(2 * n, 8, t, M)]]
      [] s = "VWMA"     -> [st |-> r, exp |-> LET d == VWMADef(n, h)
                                                  Mp == M  \* M tracks max(|price|, |volume|): use M*M as the product scale
                                              IN  [kind |-> "quot", num |-> d.num, den |-> d.den,
                                                   an |-> Allow(2 * n, 8, t, FxMulInt(FxSqr(Mp), n)),
                                                   ad |-> Allow(n, 8, t, FxMulInt(Mp, n))]]
      [] s = "Conv"     -> [st |-> r, exp |-> LET d == ConvDef(p, h)
                                                  W == FxSum([i \in 1..Len(p) |-> FxAbs(p[i])])
                                              IN  [kind |-> "quot", num |-> d.num, den |-> d.den,
                                                   an |-> Allow(2 * Len(p), 0, t, FxMul(W, Mw)),
                                                   ad |-> Allow(Len(p), 0, t, W)]]
      \* ---- recursive
      [] s = "EMA"  -> LET q == EMAStep(n, r, x)  IN [st |-> q.st, exp |-> Abs(q.out, Allow(4 * n + 4, 0, t, M))]
      [] s = "RMA"  -> LET q == RMAStep(n, r, x)  IN [st |-> q.st, exp |-> Abs(q.out, Allow(4 * n + 4, 0, t, M))]
      [] s = "WSMA" -> LET q == WSMAStep(n, r, x) IN [st |-> q.st, exp |-> Abs(q.out, Allow(8 * n + 4, 0, t, M))]
      [] s = "DMA"  -> LET q == DMAStep(n, r, x)  IN [st |-> q.st, exp |-> Abs(q.out, Allow(8 * n + 8, 0, t, M))]
      [] s = "TMA"  -> LET q == TMAStep(n, r, x)  IN [st |-> q.st, exp |-> Abs(q.out, Allow(12 * n + 12, 0, t, M))]
      [] s = "DEMA" -> LET q == DEMAStep(n, r, x) IN [st |-> q.st, exp |-> Abs(q.out, Allow(12 * n + 12, 0, t, FxMulInt(M, 3)))]
      [] s = "TEMA" -> LET q == TEMAStep(n, r, x) IN [st |-> q.st, exp |-> Abs(q.out, Allow(16 * n + 16, 0, t, FxMulInt(M, 7)))]
      [] s = "TSI"  -> LET q == TSIStep(p, r, x)
                           a == Allow(8 * (p[1] + p[2]) + 8, 0, t, FxMulInt(M, 2))
                       IN  [st |-> q.st, exp |-> [kind |-> "guard", num |-> q.num, den |-> q.den, zero |-> FxZero, an |-> a, ad |-> a]]
      [] s = "Vidya" -> LET aq == Allow(n, 8, t, FxMulInt(M, 2 * n))       \* sums of n changes, each up to 2M
                            q  == VidyaStep(n, r, x, aq)
                        IN  [st |-> q.st, exp |-> [kind |-> "vidya", v |-> q.out,
                                                   tol |-> FxAdd(Allow(8 * n + 8, 8, t, M), q.st.eacc),
                                                   tot |-> q.tot, atot |-> aq,
                                                   \* the factor lies in [0, 1] whatever the sums: the output stays between x and y_prev
                                                   lo |-> FxMin(x, r.y), hi |-> FxMax(x, r.y)]]
      [] s = "TR"   -> LET q == TRStep(r, x) IN [st |-> q.st, exp |-> Abs(q.out, Allow(1, 0, t, FxMax(CMag(x), FxAbs(r))))]
      [] s = "HeikinAshi" -> LET q == HAStep(r, x)
                             IN  [st |-> q.st, exp |-> [kind |-> "candle", c |-> q.out, tol |-> Allow(8, 0, t, M)]]
      [] s = "Integral0" -> LET q == CumStep(r, x)
                            IN  [st |-> q.st, exp |-> Abs(q.out, Allow(1, 8, IF t < 20000 THEN t ELSE 20000, FxMulInt(M, IF t < 20000 THEN t ELSE 20000)))]
      [] s = "ADI0" -> LET q == CumStep(r[1], FxMul(CLV(x), x.v))
                           e == FxAdd(r[2], CLVCond(x))
                       IN  [st |-> <<q.st, e>>,
                            exp |-> Abs(q.out, FxAdd(Allow(2, 8, IF t < 20000 THEN t ELSE 20000, FxMulInt(M, IF t < 20000 THEN t ELSE 20000)), CLVAllow(e)))]
=============================================================================
