-------------------------------- MODULE Action --------------------------------
(***************************************************************************)
(* yata::core::Action (src/core/action.rs): None | Buy(0..255) | Sell(0..255)*)
(*                                                                           *)
(* Actions are coded as integers so that tables can be exchanged with the   *)
(* harness:  Buy(s) = s (0..255), Sell(s) = -1 - s (-1..-256), None = 600.  *)
(* Every conversion and operator is given AS CODED; the properties of C16   *)
(* (ratio algebra, equality/ordering consistency) are stated over them.     *)
(***************************************************************************)
EXTENDS Integers

BOUND == 255
NONE == 600
Buy(s) == s
Sell(s) == -1 - s
IsBuy(a) == a >= 0 /\ a <= BOUND
IsSell(a) == a < 0
IsNone(a) == a = NONE
Str(a) == IF IsBuy(a) THEN a ELSE -1 - a          \* payload of a Buy / Sell
Actions == (0..BOUND) \cup {-1 - s : s \in 0..BOUND} \cup {NONE}

\* ratio() as the numerator over 255 (defined for Buy/Sell; None has no ratio and counts as 0 in differences)
RatioNum(a) == IF IsNone(a) THEN 0 ELSE IF IsBuy(a) THEN a ELSE -Str(a)

\* From<i8>, analog(), sign(), value()
FromI8(v) == IF v = 0 THEN NONE ELSE IF v > 0 THEN Buy(BOUND) ELSE Sell(BOUND)
Analog(a) == IF IsNone(a) THEN 0 ELSE IF IsBuy(a) THEN (IF a > 0 THEN 1 ELSE 0) ELSE (IF Str(a) > 0 THEN -1 ELSE 0)
Sgn(i) == IF i > 0 THEN 1 ELSE IF i < 0 THEN -1 ELSE 0

\* Neg
Neg(a) == IF IsNone(a) THEN NONE ELSE IF IsBuy(a) THEN Sell(a) ELSE Buy(Str(a))

\* Sub as coded
SatAdd8(x, y) == IF x + y > BOUND THEN BOUND ELSE x + y
Sub(a, b) ==
    IF IsNone(a) /\ IsNone(b) THEN NONE
    ELSE IF IsNone(b) THEN a
    ELSE IF IsNone(a) THEN Neg(b)
    ELSE IF IsBuy(a) /\ IsBuy(b) THEN (IF a >= b THEN Buy(a - b) ELSE Sell(b - a))
    ELSE IF IsSell(a) /\ IsSell(b) THEN (IF Str(a) >= Str(b) THEN Sell(Str(a) - Str(b)) ELSE Buy(Str(b) - Str(a)))
    ELSE IF IsBuy(a) THEN Buy(SatAdd8(a, Str(b)))
    ELSE Sell(SatAdd8(Str(a), b))

\* PartialEq as coded
Eq(a, b) ==
    \/ IsNone(a) /\ IsNone(b)
    \/ IsBuy(a) /\ IsSell(b) /\ a = 0 /\ Str(b) = 0
    \/ IsSell(a) /\ IsBuy(b) /\ Str(a) = 0 /\ b = 0
    \/ IsBuy(a) /\ IsBuy(b) /\ a = b
    \/ IsSell(a) /\ IsSell(b) /\ a = b

\* #[derive(Ord)] on enum { Buy(u8), None, Sell(u8) }: variant index, then payload.  -1 / 0 / 1
Variant(a) == IF IsBuy(a) THEN 0 ELSE IF IsNone(a) THEN 1 ELSE 2
Cmp(a, b) ==
    IF Variant(a) # Variant(b) THEN (IF Variant(a) < Variant(b) THEN -1 ELSE 1)
    ELSE IF IsNone(a) THEN 0
    ELSE Sgn(Str(a) - Str(b))

----------------------------------------------------------------------------
(* From<f64> as a step function of the exact real value v = num / den (den > 0):   *)
(* clamp to [-1,1]; strength = round-half-away(|v| * 255); sign from the sign BIT   *)
(* (neg = TRUE for negative values and for -0.0).  NaN -> None is a separate case.  *)
RoundHalfAway(num, den) == (2 * num + den) \div (2 * den)        \* num >= 0
FromRatio(neg, num, den) ==
    LET n2 == IF num > den THEN den ELSE num
        s  == RoundHalfAway(n2 * BOUND, den)
    IN  IF neg THEN Sell(s) ELSE Buy(s)

----------------------------------------------------------------------------
(* the ratio algebra the operators must satisfy *)
Clamp255(x) == IF x > BOUND THEN BOUND ELSE IF x < -BOUND THEN -BOUND ELSE x
NegOK(a)    == /\ Neg(Neg(a)) = a
               /\ RatioNum(Neg(a)) = -RatioNum(a)
               /\ IsNone(Neg(a)) = IsNone(a)
SubOK(a, b) == /\ RatioNum(Sub(a, b)) = Clamp255(RatioNum(a) - RatioNum(b))
               /\ IsNone(Sub(a, b)) = (IsNone(a) /\ IsNone(b))
AnalogOK(a) == Analog(a) = Sgn(RatioNum(a))
RatioRange(a) == RatioNum(a) \in -BOUND..BOUND
EqReflexive(a)  == Eq(a, a)
EqSymmetric(a, b) == Eq(a, b) = Eq(b, a)
\* equal actions are indistinguishable by ratio; ordering agrees with equality; ordering is antisymmetric
EqSound(a, b)   == Eq(a, b) => (RatioNum(a) = RatioNum(b) /\ IsNone(a) = IsNone(b))
EqOrdConsistent(a, b) == Eq(a, b) = (Cmp(a, b) = 0)
CmpAntisym(a, b) == Cmp(a, b) = -Cmp(b, a)
EqTransitive(a, b, c) == (Eq(a, b) /\ Eq(b, c)) => Eq(a, c)
CmpTransitive(a, b, c) == (Cmp(a, b) <= 0 /\ Cmp(b, c) <= 0) => Cmp(a, c) <= 0
\* from(ratio(a)) = a : ratio is s/255 exactly as a rational
RoundTrip(a) == IsNone(a) \/ Eq(FromRatio(IsSell(a), Str(a), BOUND), a)
FromI8OK(v)  == /\ Analog(FromI8(v)) = Sgn(v)
                /\ (v = 0) = IsNone(FromI8(v))
=============================================================================
