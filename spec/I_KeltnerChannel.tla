----------------------------- MODULE I_KeltnerChannel -----------------------------
(* KeltnerChannel(ma(p), sigma, source): middle = ma(src); atr = SMA(p)(true range against the previous close),     *)
(* seeded with high - low of the first candle (previous close of the first candle = its own close);                 *)
(* upper = middle + sigma atr, lower = middle - sigma atr.                                                          *)
(* AS CODED the values are [source, upper, lower] (the doc comment lists: upper bound, source value, lower bound)   *)
(* and S0 = CrossUnder(src, lower) - CrossAbove(src, upper): SELL when the source crosses above the upper bound,    *)
(* BUY when it crosses under the lower bound (the doc comment states the opposite polarity).  The spec follows the  *)
(* code in both points; both are reported as documentation discrepancies.                                           *)
\* SPEC: values signals
EXTENDS IndLib

KeltnerChannel_Init(cfg, c) ==
    [pc |-> c.c, m |-> MInit(cfg.ma, Src(c, cfg.source)), w |-> WFill(cfg.ma.n, FxSub(c.h, c.l))]
KeltnerChannel_Step(cfg, st, c, P, V) ==
    LET src == Src(c, cfg.source)
        S   == SrcScale(cfg.source, P, V)
        a   == MStep(cfg.ma, st.m, src)
        w   == WPush(st.w, TRClose(c, st.pc))
        off == FxMul(cfg.sigma, SMADef(cfg.ma.n, w))
        sc  == FxAdd(FxMulInt(S, 4), FxMul(cfg.sigma, P))
    IN  [st |-> [pc |-> c.c, m |-> a.st, w |-> w],
         vals |-> <<Ex(src, S), Ex(FxAdd(a.out, off), sc), Ex(FxSub(a.out, off), sc)>>]

KeltnerChannel_SigInit(cfg, c) == [a |-> 0, u |-> 0]
KeltnerChannel_Sig(cfg, sg, c, v) ==
    {[sg |-> [a |-> CrossLast(v[1], v[2]), u |-> CrossLast(v[1], v[3])],
      sigs |-> <<{Act(CrossUnderOut(sg.u, v[1], v[3]) - CrossAboveOut(sg.a, v[1], v[2]))}>>]}
=============================================================================
