------------------------------ MODULE Trace_Tok ------------------------------
(***************************************************************************)
(* Trace validation (direction B) for the token-domain subjects.            *)
(*                                                                           *)
(* The harness generates token streams (uniform, tie-heavy, monotone,       *)
(* plateaus, slow walks, zeros incl. -0.0), embeds them into floats, runs   *)
(* the real methods and logs every call with its result mapped back to      *)
(* rank units.  This spec replays the calls on the DEFINITIONS (ANext of    *)
(* TokSubjects) and accepts an event only if the logged result is the       *)
(* definition's.  One program (reset/new/next...) at a time.                *)
(***************************************************************************)
EXTENDS TokSubjects, TLC, Json, IOUtils

Rec == ndJsonDeserialize(IOEnv.TRACE)

VARIABLES l, subj, par, ast, live

vars == <<l, subj, par, ast, live>>

E == Rec[l]
Is(name) == l <= Len(Rec) /\ Rec[l].ev = name
Step == l' = l + 1

Canon(s) == IF s = "MadMedian" THEN "SMM" ELSE s

\* the definition's output in the units the harness logs (linear embeddings)
Units(s, o) == IF s = "HighestLowestDelta" THEN <<o[1] - o[2]>>
               ELSE IF s = "SMM" THEN <<o[1] + o[2]>>
               ELSE o

ParamsOk(s, p) == IF s \in RevSubjects THEN RevParamsOk(p[1], p[2]) /\ p[1] + p[2] + 1 <= PMAX - 1
                  ELSE IF s \in SelSubjects THEN p[1] >= 1 /\ p[1] <= PMAX - 1
                  ELSE TRUE

Init == l = 1 /\ subj = "" /\ par = <<>> /\ ast = <<>> /\ live = FALSE

TReset == Is("reset") /\ live' = FALSE /\ UNCHANGED <<subj, par, ast>> /\ Step

TNew == /\ Is("new")
        /\ LET s == Canon(E.subject)
           IN  /\ ParamsOk(s, E.params)          \* the generators stay inside the accepted range (C10 covers the rest)
               /\ E.res = "ok"
               /\ subj' = s /\ par' = E.params
               /\ ast' = AInit(s, E.params, E.init)
               /\ live' = TRUE
        /\ Step

TNext == /\ Is("next") /\ live
         /\ LET a == ANext(subj, par, ast, E.x)
            IN  /\ E.y = Units(subj, a.out)
                /\ ast' = a.st
         /\ UNCHANGED <<subj, par, live>>
         /\ Step

Next == TReset \/ TNew \/ TNext
Spec == Init /\ [][Next]_vars

\* reaching the end of the trace ends the search at once (reported by TLC as a violation of NotDone = accepted);
\* otherwise the postcondition reports the longest matched prefix
NotDone == l <= Len(Rec)
Matched == TLCGet("stats").diameter - 1
TraceAccepted ==
    \/ Matched = Len(Rec)
    \/ /\ PrintT(<<"FAIL", ToJson([matched |-> Matched, total |-> Len(Rec), event |-> Rec[Matched + 1]])>>)
       /\ FALSE
=============================================================================
