------------------------------ MODULE MC_Parse ------------------------------
(* Enumerates texts and prints what Parse.tla says about each, for replay on the real FromStr impls:   *)
(*   canon: every kind x boundary lengths, every source name;                                        *)
(*   edit : every single-character deletion, substitution and insertion applied to canonical texts;  *)
(*   short: every text of length <= MaxLen over a small alphabet.                                    *)
EXTENDS Parse, TLC, Json

CONSTANTS Mode, MaxLen
VARIABLE t
Alpha == <<"s", "m", "a", "-", "1", "2", "5", "6", "0", "+", " ", "S", "_", "x", "l", "o", "w", "t", "p", "3", "h", "c">>
Small == <<"s", "m", "a", "-", "2", "5", "+", " ">>
RECURSIVE NumStr(_)
NumStr(n) == IF n < 10 THEN <<Digits[n + 1]>> ELSE Append(NumStr(n \div 10), Digits[(n % 10) + 1])
Lens == {0, 1, 9, 10, 99, 100, PMAX - 1, PMAX, PMAX + 1, 300, 1000, 65535, 65536, 99999}
CanonMA == {MANames[k] \o <<"-">> \o NumStr(n) : k \in 1..Len(MANames), n \in Lens}
CanonSrc == {SourceNames[k] : k \in 1..Len(SourceNames)}
EditBase == {MANames[k] \o <<"-">> \o NumStr(n) : k \in {1, 8, 14}, n \in {7, 25, PMAX}} \cup CanonSrc
           \cup {<<"s", "m", "a", "-", "+", "5">>, <<"e", "m", "a", "-", "0", "0", "7">>, <<" ", "T", "P", " ">>, <<"H", "l", "C", "3">>}
Del(s, i) == SubSeq(s, 1, i - 1) \o SubSeq(s, i + 1, Len(s))
Sub(s, i, ch) == SubSeq(s, 1, i - 1) \o <<ch>> \o SubSeq(s, i + 1, Len(s))
Ins(s, i, ch) == SubSeq(s, 1, i - 1) \o <<ch>> \o SubSeq(s, i, Len(s))
Edits == UNION {{Del(s, i) : i \in 1..Len(s)} \cup {Sub(s, i, Alpha[a]) : i \in 1..Len(s), a \in 1..Len(Alpha)}
                \cup {Ins(s, i, Alpha[a]) : i \in 1..(Len(s) + 1), a \in 1..Len(Alpha)} : s \in EditBase}
Short == UNION {[1..n -> {Small[a] : a \in 1..Len(Small)}] : n \in 0..MaxLen}

Init == CASE Mode = "canon" -> t \in CanonMA \cup CanonSrc \cup EditBase
          [] Mode = "edit"  -> t \in Edits
          [] Mode = "short" -> t \in Short
Next == UNCHANGED t
Spec == Init /\ [][Next]_t

\* round trip of the canonical forms (within range)
CanonOK == Mode = "canon" =>
             /\ (t \in CanonSrc => ParseSource(t).ok)
             /\ \A k \in 1..Len(MANames), n \in 0..PMAX :
                   t = MANames[k] \o <<"-">> \o NumStr(n) => ParseMA(t) = [ok |-> TRUE, kind |-> MAKindNames[k], len |-> n]
Emit == PrintT(<<"ROW", ToJson([text |-> t, ma |-> ParseMA(t), src |-> ParseSource(t)])>>)
=============================================================================
