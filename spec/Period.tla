------------------------------- MODULE Period -------------------------------
(***************************************************************************)
(* PeriodType arithmetic as the crate performs it.                          *)
(*                                                                           *)
(* PeriodType is an unsigned machine integer (u8 by default; u16/u32/u64   *)
(* with cargo features).  PMAX is PeriodType::MAX.  The crate is tested in *)
(* the dev profile, where +,-,* panic on overflow; the outcome of such an  *)
(* operation is modelled by the sentinel OVF (= -1, never a valid value),  *)
(* which is absorbing.  Saturating / checked / casting operations are      *)
(* modelled next to them.                                                   *)
(***************************************************************************)
EXTENDS Integers

CONSTANT PMAX            \* PeriodType::MAX : 255 | 65535 | ... | scaled-down 7 / 15

ASSUME PMAXAssumption == PMAX \in Nat /\ PMAX >= 3

OVF == -1                \* outcome "panicked with arithmetic overflow"

IsP(a) == a \in 0..PMAX

Min2(a, b) == IF a <= b THEN a ELSE b
Max2(a, b) == IF a >= b THEN a ELSE b

\* a + b, a - b, a * b in a debug build
PAdd(a, b) == IF a = OVF \/ b = OVF THEN OVF ELSE IF a + b > PMAX THEN OVF ELSE a + b
PSub(a, b) == IF a = OVF \/ b = OVF THEN OVF ELSE IF a < b THEN OVF ELSE a - b
PMul(a, b) == IF a = OVF \/ b = OVF THEN OVF ELSE IF a * b > PMAX THEN OVF ELSE a * b
PDiv(a, b) == IF a = OVF \/ b = OVF \/ b = 0 THEN OVF ELSE a \div b

\* a.saturating_add(b), a.saturating_sub(b)
SatAdd(a, b) == Min2(a + b, PMAX)
SatSub(a, b) == IF a < b THEN 0 ELSE a - b

\* a.wrapping_add(b): release-build behaviour of `+`
WrapAdd(a, b) == (a + b) % (PMAX + 1)

\* a.checked_sub(b): -1 stands for None here as well
CheckedSub(a, b) == IF a < b THEN OVF ELSE a - b

\* (x as PeriodType) for a non-negative integer x that may not fit
Cast(x) == x % (PMAX + 1)

=============================================================================
