---------------------------- MODULE MC_IndParams ----------------------------
(***************************************************************************)
(* C10 at indicator level.  The claim is uniform over all indicators:       *)
(*   validate(cfg) = FALSE  =>  init(cfg, candle) = Err                     *)
(*   init never panics;  init = Ok  =>  next never panics on valid candles  *)
(* so the model's work is the enumeration of configurations: for every      *)
(* indicator of the catalogue (public fields and their types, from the      *)
(* struct definitions) every single-field and every two-field deviation     *)
(* from the default configuration over a boundary grid of values per type   *)
(* (lengths 0,1,2,3,127,128,253,254,255; floats NaN, +-Inf, -1, 0, 0.5, 1,  *)
(* 2; every MA kind at boundary lengths; sources).  Each configuration is   *)
(* emitted as the sequence of set(name, text) calls that builds it; the     *)
(* harness builds it on the real config, evaluates validate / init and runs *)
(* every accepted instance on valid candles.                                *)
(***************************************************************************)
EXTENDS Integers, Sequences, TLC, Json, IOUtils

Cat == JsonDeserialize(IOEnv.CATALOG)

IntTexts == <<"0", "1", "2", "3", "127", "128", "253", "254", "255">>
FloatTexts == <<"nan", "inf", "-inf", "-1", "0", "0.5", "1", "2", "1e-300">>
MATexts == <<"sma-0", "sma-1", "sma-2", "sma-254", "sma-255", "ema-1", "ema-255", "wma-255", "hma-1", "hma-255", "rma-255", "dma-255", "dema-255",
             "tma-255", "tema-255", "wsma-0", "wsma-128", "smm-2", "smm-255", "swma-255", "trima-255", "linreg-1", "linreg-255", "vidya-254", "vidya-255">>
SourceTexts == <<"volume", "open">>
BoolTexts == <<"true", "false">>
TextsOf(t) == CASE t = "int" -> IntTexts [] t = "float" -> FloatTexts [] t = "ma" -> MATexts [] t = "source" -> SourceTexts [] t = "bool" -> BoolTexts

VARIABLES ind, f1, f2, t1, t2
vars == <<ind, f1, f2, t1, t2>>
NF(i) == Len(Cat[i].fields)
Init == /\ ind \in 1..Len(Cat)
        /\ f1 \in 1..NF(ind) /\ f2 \in 0..NF(ind) /\ (f2 = 0 \/ f2 > f1)
        /\ t1 \in 1..Len(TextsOf(Cat[ind].fields[f1].t))
        /\ t2 \in 1..(IF f2 = 0 THEN 1 ELSE Len(TextsOf(Cat[ind].fields[f2].t)))
Next == UNCHANGED vars
Spec == Init /\ [][Next]_vars

SetOf(f, t) == [field |-> Cat[ind].fields[f].f, text |-> TextsOf(Cat[ind].fields[f].t)[t]]
Emit == PrintT(<<"REPLAY", ToJson([ind |-> Cat[ind].name,
                                   sets |-> IF f2 = 0 THEN <<SetOf(f1, t1)>> ELSE <<SetOf(f1, t1), SetOf(f2, t2)>>])>>)
=============================================================================
