-------------------------------- MODULE Convert --------------------------------
(***************************************************************************)
(* Timeseries converters (C17).                                             *)
(*                                                                           *)
(* CollapseTimeframe (src/methods/collapse_timeframe.rs), implementation-   *)
(* shaped: [current (Option), index, period]; every period-th call returns  *)
(* the aggregate (first open, max high, min low, last close, summed volume) *)
(* of the last `period` inputs and starts over; the batch form              *)
(* Sequence::collapse_timeframe(size, continuous) aggregates windows of the *)
(* sequence (disjoint, or sliding when continuous).  Candles are records of *)
(* small integers here (exact in floating point).                           *)
(*                                                                           *)
(* RenkoOutput's iterator protocol (len, pos): next / size_hint / count /   *)
(* nth / last against the sequence of bricks it stands for.                 *)
(***************************************************************************)
EXTENDS Integers, Sequences, Candle

NoneC == [none |-> TRUE]
SomeC(c) == [none |-> FALSE, c |-> c]

CTInit(period) == [cur |-> NoneC, index |-> 0, period |-> period]
CTNext(st, c) ==
    LET cur2 == IF st.cur.none THEN c ELSE CAdd(st.cur.c, c)
        idx  == st.index + 1
    IN  IF idx = st.period
        THEN [st |-> [st EXCEPT !.cur = NoneC, !.index = 0], out |-> SomeC(cur2)]
        ELSE [st |-> [st EXCEPT !.cur = SomeC(cur2), !.index = idx], out |-> NoneC]

\* definition: aggregate of a non-empty sequence of candles
RECURSIVE AggAt(_, _, _)
AggAt(s, i, acc) == IF i > Len(s) THEN acc ELSE AggAt(s, i + 1, CAdd(acc, s[i]))
Agg(s) == AggAt(s, 2, s[1])
\* what the t-th call (1-based) must return, given all inputs so far
CTDef(period, xs) == IF Len(xs) % period = 0 THEN SomeC(Agg(SubSeq(xs, Len(xs) - period + 1, Len(xs)))) ELSE NoneC
\* batch form
Collapse(xs, size, continuous) ==
    IF Len(xs) < size THEN <<>>
    ELSE LET starts == IF continuous THEN 1..(Len(xs) - size + 1) ELSE {1 + k * size : k \in 0..((Len(xs) \div size) - 1)}
             n == IF continuous THEN Len(xs) - size + 1 ELSE Len(xs) \div size
         IN  [j \in 1..n |-> Agg(SubSeq(xs, IF continuous THEN j ELSE 1 + (j - 1) * size, (IF continuous THEN j ELSE 1 + (j - 1) * size) + size - 1))]

----------------------------------------------------------------------------
(* RenkoOutput as an iterator over bricks 1..len; pos = number already taken *)
RIter(len) == [len |-> len, pos |-> 0]
RNext(it) == IF it.pos = it.len THEN [it |-> it, out |-> 0] ELSE [it |-> [it EXCEPT !.pos = it.pos + 1], out |-> it.pos + 1]   \* 0 = None, k = k-th brick
RHint(it) == it.len - it.pos
RNth(it, n) == LET p == IF it.pos + n > it.len THEN it.len ELSE it.pos + n IN RNext([it EXCEPT !.pos = p])
RLast(it) == IF it.pos = it.len THEN 0 ELSE it.len
\* definitional: the remaining bricks are pos+1 .. len
RRest(it) == [j \in 1..(it.len - it.pos) |-> it.pos + j]
=============================================================================
