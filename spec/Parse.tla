--------------------------------- MODULE Parse ---------------------------------
(***************************************************************************)
(* Text forms of parameters (C10, C18): Source::from_str and MA::from_str   *)
(* as grammars over sequences of characters (a TLA+ string cannot be taken  *)
(* apart, so a text is a tuple of one-character strings).                   *)
(*   Source: the text is trimmed and ASCII-lower-cased, then must be one of *)
(*           the source names ("hlc3" is an alias of "tp").                 *)
(*   MA:     <kind>-<length>, split at the FIRST '-'; kind must be one of   *)
(*           the lower-case kind names exactly; length is parsed like Rust  *)
(*           parses a PeriodType: optional '+', then one or more decimal    *)
(*           digits, value <= PMAX; nothing is trimmed.                     *)
(* Everything else is an error -- never a panic.                            *)
(***************************************************************************)
EXTENDS Integers, Sequences, Period

Digits == <<"0", "1", "2", "3", "4", "5", "6", "7", "8", "9">>
IsDigit(ch) == \E i \in 1..10 : Digits[i] = ch
DigitVal(ch) == (CHOOSE i \in 1..10 : Digits[i] = ch) - 1

Lowers == <<"a", "c", "d", "e", "g", "h", "i", "l", "m", "n", "o", "p", "r", "s", "t", "u", "v", "w", "y">>
Uppers == <<"A", "C", "D", "E", "G", "H", "I", "L", "M", "N", "O", "P", "R", "S", "T", "U", "V", "W", "Y">>
Lower(ch) == IF \E i \in 1..Len(Uppers) : Uppers[i] = ch THEN Lowers[CHOOSE i \in 1..Len(Uppers) : Uppers[i] = ch] ELSE ch
IsSpace(ch) == ch \in {" ", "\t", "\n"}

RECURSIVE TrimL(_), TrimR(_), ParseDigits(_, _, _)
TrimL(s) == IF Len(s) > 0 /\ IsSpace(s[1]) THEN TrimL(Tail(s)) ELSE s
TrimR(s) == IF Len(s) > 0 /\ IsSpace(s[Len(s)]) THEN TrimR(SubSeq(s, 1, Len(s) - 1)) ELSE s
Trim(s) == TrimR(TrimL(s))
LowerAll(s) == [i \in 1..Len(s) |-> Lower(s[i])]

\* value of a digit string, -1 when it exceeds PMAX (overflow) -- accumulate like the standard library, saturating
ParseDigits(s, i, acc) == IF i > Len(s) THEN acc
                          ELSE IF acc = -1 THEN -1
                          ELSE LET v == acc * 10 + DigitVal(s[i]) IN ParseDigits(s, i + 1, IF v > PMAX THEN -1 ELSE v)
\* <PeriodType as FromStr>::from_str : -1 = Err
ParsePeriod(s) ==
    LET body == IF Len(s) > 0 /\ s[1] = "+" THEN Tail(s) ELSE s
    IN  IF Len(body) = 0 THEN -1
        ELSE IF \E i \in 1..Len(body) : ~IsDigit(body[i]) THEN -1
        ELSE ParseDigits(body, 1, 0)

MANames == <<<<"s", "m", "a">>, <<"w", "m", "a">>, <<"h", "m", "a">>, <<"r", "m", "a">>, <<"e", "m", "a">>, <<"d", "m", "a">>, <<"t", "m", "a">>, <<"d", "e", "m", "a">>, <<"t", "e", "m", "a">>, <<"w", "s", "m", "a">>, <<"s", "m", "m">>, <<"s", "w", "m", "a">>, <<"t", "r", "i", "m", "a">>, <<"l", "i", "n", "r", "e", "g">>, <<"v", "i", "d", "y", "a">>>>
MAKindNames == <<"SMA", "WMA", "HMA", "RMA", "EMA", "DMA", "TMA", "DEMA", "TEMA", "WSMA", "SMM", "SWMA", "TRIMA", "LinReg", "Vidya">>
SourceNames == <<<<"c", "l", "o", "s", "e">>, <<"h", "i", "g", "h">>, <<"l", "o", "w">>, <<"v", "o", "l", "u", "m", "e">>, <<"t", "p">>, <<"h", "l", "c", "3">>, <<"h", "l", "2">>, <<"o", "p", "e", "n">>, <<"v", "o", "l", "u", "m", "e", "d", "_", "p", "r", "i", "c", "e">>>>
SourceKinds == <<"Close", "High", "Low", "Volume", "TP", "TP", "HL2", "Open", "VolumedPrice">>

Err == [ok |-> FALSE]
\* MA::from_str
ParseMA(s) ==
    IF ~\E i \in 1..Len(s) : s[i] = "-" THEN Err
    ELSE LET i == CHOOSE i \in 1..Len(s) : s[i] = "-" /\ \A j \in 1..(i - 1) : s[j] # "-"
             method == SubSeq(s, 1, i - 1)
             len == ParsePeriod(SubSeq(s, i + 1, Len(s)))
         IN  IF len = -1 THEN Err
             ELSE IF ~\E k \in 1..Len(MANames) : MANames[k] = method THEN Err
             ELSE [ok |-> TRUE, kind |-> MAKindNames[CHOOSE k \in 1..Len(MANames) : MANames[k] = method], len |-> len]
\* Source::from_str
ParseSource(s) ==
    LET t == LowerAll(Trim(s))
    IN  IF \E k \in 1..Len(SourceNames) : SourceNames[k] = t
        THEN [ok |-> TRUE, kind |-> SourceKinds[CHOOSE k \in 1..Len(SourceNames) : SourceNames[k] = t]]
        ELSE Err
=============================================================================
