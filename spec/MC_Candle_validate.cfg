CONSTANTS
  Mode = "validate"
SPECIFICATION Spec
INVARIANTS ValidateInv TRInv AddInv Emit
CHECK_DEADLOCK FALSE
