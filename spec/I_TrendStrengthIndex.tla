---------------------------- MODULE I_TrendStrengthIndex ----------------------------
\* SPEC: values signals
EXTENDS IndLib

TrendStrengthIndex_Init(cfg, c) == [w |-> WFill(cfg.period, Src(c, cfg.source))]
TrendStrengthIndex_Step(cfg, st, c, P, V) ==
    LET n   == cfg.period
        w   == WPush(st.w, Src(c, cfg.source))
        S   == SrcScale(cfg.source, P, V)
        sy  == FxSum(w)
        A   == FxSub(FxMulInt(FxSum([i \in 1..n |-> FxMulInt(w[i], i)]), n), FxMulInt(sy, (n * (n + 1)) \div 2))   \* n Sxy
        B   == FxSub(FxMulInt(FxSum([i \in 1..n |-> FxSqr(w[i])]), n), FxSqr(sy))                                  \* n Syy
        nk  == (n * n * (n * n - 1)) \div 12                                                                      \* n Sxx
        \* condition number of Syy = sum y^2 - (sum y)^2 / n, computed by the code from running sums of size n S^2
        cond == FxDiv(FxMulInt(FxSqr(S), n * n), B)
    IN  [st |-> [w |-> w],
         vals |-> <<IF B.s <= 0 \/ FxGt(cond, FxFromInt(1000000)) THEN AnyVal
                    ELSE Ex(FxDiv(A, FxSqrt(FxMulInt(B, nk))), FxAdd(FxMulInt(FxSqrt(cond), 9), FxMulInt(cond, 4)))>>]

----------------------------------------------------------------------------
\* a NaN among logged floats: ordered with nothing
TrendStrengthIndex_NaN == [x |-> FxZero, o |-> <<2, 0, 0, 0>>]
TrendStrengthIndex_IsNaN(a) == a.o[1] = 2
\* `a >= b` (dir = 1) / `a <= b` (dir = -1) as the floating-point comparison: false when either side is NaN
TrendStrengthIndex_Ge(a, b, dir) == ~TrendStrengthIndex_IsNaN(a) /\ ~TrendStrengthIndex_IsNaN(b) /\ dir * FCmp(a, b) >= 0
\* IndLib's RevVNext (the detector as coded) with that comparison
RECURSIVE TrendStrengthIndex_Scan(_, _, _, _, _)
TrendStrengthIndex_Scan(win, j, pos, acc, dir) ==
    IF j > Len(win) THEN acc
    ELSE TrendStrengthIndex_Scan(win, j + 1, pos + 1, IF TrendStrengthIndex_Ge(win[j], acc[2], dir) THEN <<pos, win[j]>> ELSE acc, dir)
TrendStrengthIndex_RevNext(st, x, dir) ==
    LET win2  == WPush(st.win, x)
        n     == Len(st.win)
        idxs  == st.index + 1
        first == IF idxs < n THEN 0 ELSE idxs - n
        upd   == IF st.ei < first THEN TrendStrengthIndex_Scan(win2, 2, first + 1, <<first, win2[1]>>, dir)
                 ELSE IF TrendStrengthIndex_Ge(x, st.ev, dir) THEN <<st.index, x>>
                 ELSE <<st.ei, st.ev>>
        fire  == st.index >= st.right /\ upd[1] = st.index - st.right
        \* only differences of positions matter (the code renumbers them before its counter saturates): keep them small
        shift == IF idxs > 2 * n THEN idxs - 2 * n ELSE 0
    IN  [st |-> [st EXCEPT !.win = win2, !.ei = upd[1] - shift, !.ev = upd[2], !.index = idxs - shift], out |-> B2I(fire)]
RECURSIVE TrendStrengthIndex_NaNs(_, _, _, _)
TrendStrengthIndex_NaNs(rv, dir, j, bad) ==
    IF j = 0 THEN rv ELSE TrendStrengthIndex_NaNs(TrendStrengthIndex_RevNext(rv, bad, dir).st, dir, j - 1, bad)
\* p / 0 with a rounding residue in p gives +-inf instead of NaN: infinite logged values compare above / below everything
TrendStrengthIndex_PInf == [x |-> FxZero, o |-> <<1, 2147483647, 65535, 65535>>]
TrendStrengthIndex_NInf == [x |-> FxZero, o |-> <<-1, 2147483647, 65535, 65535>>]

\* admissible signs of (a - z) for a logged float a and a configured threshold z (z = +-zone, negation is exact)
TrendStrengthIndex_Sgn(a, z) ==
    IF FxIsZero(z) THEN {FCmp(a, ZeroV)}
    ELSE IF FxGe(FxAbs(z), FxShr(FxOne, 1)) \/ ~NearEq(a.x, z) THEN {FxCmp(a.x, z)}
    ELSE {-1, 0, 1}
TrendStrengthIndex_Sub(u, a) == IF u = 1 /\ a = 1 THEN 0 ELSE Act(u - a)

\* which rule TrendStrengthIndex_Sig stands for: TRUE = the documented one, FALSE = the behaviour of the code
CONSTANT TSTRENGTH_DOC      \* TRUE: the documented signal rules; FALSE: the rules as coded (polarity inverted, S1 gated by the PRICE window)
TrendStrengthIndex_Doc == TSTRENGTH_DOC
TrendStrengthIndex_SigInit(cfg, c) ==
    [lu |-> -cfg.zone.s, la |-> cfg.zone.s, hi |-> RevVInit(1, 2, ZeroV), lo |-> RevVInit(1, 2, ZeroV),
     pw |-> WFill(cfg.period + 1, Src(c, cfg.source)),
     vw |-> IF TrendStrengthIndex_Doc THEN WFill(cfg.reverse_offset + 1, ZeroV) ELSE <<>>]

\* the states the signal machine may be in when the steps since the last numeric value produced NaN
TrendStrengthIndex_Pre(cfg, sg) ==
    LET n == cfg.period
        m == cfg.reverse_offset + 1
        flat == \A i \in 1..(n - 2) : FxEq(Ago(sg.pw, i), Ago(sg.pw, 0))
    IN  {sg} \cup (IF flat THEN {[lu |-> b[2], la |-> b[2],
                                  hi |-> TrendStrengthIndex_NaNs(sg.hi, 1, j, b[1]), lo |-> TrendStrengthIndex_NaNs(sg.lo, -1, j, b[1]),
                                  pw |-> WFill(n + 1, Ago(sg.pw, 0)),
                                  vw |-> IF ~TrendStrengthIndex_Doc THEN <<>>
                                         ELSE IF j > m THEN WFill(m, TrendStrengthIndex_NaN)
                                         ELSE SubSeq(sg.vw, j + 1, m) \o WFill(j, TrendStrengthIndex_NaN)]
                                 : j \in 1..8, b \in {<<TrendStrengthIndex_NaN, 0>>, <<TrendStrengthIndex_PInf, 1>>, <<TrendStrengthIndex_NInf, -1>>}}
                   ELSE {})

TrendStrengthIndex_Step1(cfg, s, c, v, doc) ==
    LET h    == TrendStrengthIndex_RevNext(s.hi, v[1], 1)
        w    == TrendStrengthIndex_RevNext(s.lo, v[1], -1)
        rout == w.out - h.out
        pw   == WPush(s.pw, Src(c, cfg.source))
        vw   == IF doc THEN WPush(s.vw, v[1]) ELSE <<>>
        pr   == Ago(pw, cfg.reverse_offset)
        pv   == vw[1]
        nz   == FxNeg(cfg.zone)
        ups  == IF ~doc THEN GeSet(pr, cfg.zone)
                ELSE IF TrendStrengthIndex_IsNaN(pv) THEN {FALSE} ELSE {d >= 0 : d \in TrendStrengthIndex_Sgn(pv, cfg.zone)}
        dns  == IF ~doc THEN LeSet(pr, nz)
                ELSE IF TrendStrengthIndex_IsNaN(pv) THEN {FALSE} ELSE {d <= 0 : d \in TrendStrengthIndex_Sgn(pv, nz)}
    IN  {[sg |-> [lu |-> du, la |-> da, hi |-> h.st, lo |-> w.st, pw |-> pw, vw |-> vw],
          sigs |-> LET under == B2I(s.lu > 0 /\ du <= 0)       \* the value comes down through +zone
                       above == B2I(s.la < 0 /\ da >= 0)       \* the value comes up through -zone
                       upper == B2I(rout < 0 /\ up)            \* high pivot in the upper zone
                       lower == B2I(rout > 0 /\ dn)            \* low pivot in the lower zone
                   IN  IF doc THEN <<{TrendStrengthIndex_Sub(above, under)}, {Act(lower - upper)}>>
                       ELSE <<{TrendStrengthIndex_Sub(under, above)}, {Act(upper - lower)}>>]
         : du \in TrendStrengthIndex_Sgn(v[1], cfg.zone), da \in TrendStrengthIndex_Sgn(v[1], nz), up \in ups, dn \in dns}

TrendStrengthIndex_Sig(cfg, sg, c, v) ==
    UNION {TrendStrengthIndex_Step1(cfg, s, c, v, TrendStrengthIndex_Doc) : s \in TrendStrengthIndex_Pre(cfg, sg)}
=============================================================================
