---------------------------- MODULE I_TrendStrengthIndex ----------------------------
\* SPEC: values signals
EXTENDS IndLib

TrendStrengthIndex_Init(cfg, c) == [w |-> WFill(cfg.period, Src(c, cfg.source))]
TrendStrengthIndex_Step(cfg, st, c, P, V) ==
    LET w == WPush(st.w, Src(c, cfg.source))
    IN  [st |-> [w |-> w], vals |-> <<AnyVal>>]

----------------------------------------------------------------------------
\* a NaN among logged floats: ordered with nothing
TrendStrengthIndex_NaN == [x |-> FxZero, o |-> <<2, 0, 0, 0>>]
TrendStrengthIndex_IsNaN(a) == a.o[1] = 2
\* `a >= b` (dir = 1) / `a <= b` (dir = -1) as the floating-point comparison: false when either side is NaN
TrendStrengthIndex_Ge(a, b, dir) == ~TrendStrengthIndex_IsNaN(a) /\ ~TrendStrengthIndex_IsNaN(b) /\ dir * FCmp(a, b) >= 0
\* IndLib's RevVNext (the detector as coded) with that comparison
RECURSIVE TrendStrengthIndex_Scan(_, _, _, _, _)
TrendStrengthIndex_Scan(win, j, pos, acc, dir) ==
    IF j > Len(win) THEN acc
    ELSE TrendStrengthIndex_Scan(win, j + 1, pos + 1, IF TrendStrengthIndex_Ge(win[j], acc[2], dir) THEN <<pos, win[j]>> ELSE acc, dir)
TrendStrengthIndex_RevNext(st, x, dir) ==
    LET win2  == WPush(st.win, x)
        n     == Len(st.win)
        idxs  == st.index + 1
        first == IF idxs < n THEN 0 ELSE idxs - n
        upd   == IF st.ei < first THEN TrendStrengthIndex_Scan(win2, 2, first + 1, <<first, win2[1]>>, dir)
                 ELSE IF TrendStrengthIndex_Ge(x, st.ev, dir) THEN <<st.index, x>>
                 ELSE <<st.ei, st.ev>>
        fire  == st.index >= st.right /\ upd[1] = st.index - st.right
        \* only differences of positions matter (the code renumbers them before its counter saturates): keep them small
        shift == IF idxs > 2 * n THEN idxs - 2 * n ELSE 0
    IN  [st |-> [st EXCEPT !.win = win2, !.ei = upd[1] - shift, !.ev = upd[2], !.index = idxs - shift], out |-> B2I(fire)]
RECURSIVE TrendStrengthIndex_NaNs(_, _, _)
TrendStrengthIndex_NaNs(rv, dir, j) ==
    IF j = 0 THEN rv ELSE TrendStrengthIndex_NaNs(TrendStrengthIndex_RevNext(rv, TrendStrengthIndex_NaN, dir).st, dir, j - 1)

\* admissible signs of (a - z) for a logged float a and a configured threshold z (z = +-zone, negation is exact)
TrendStrengthIndex_Sgn(a, z) ==
    IF FxIsZero(z) THEN {FCmp(a, ZeroV)}
    ELSE IF FxGe(FxAbs(z), FxShr(FxOne, 1)) \/ ~NearEq(a.x, z) THEN {FxCmp(a.x, z)}
    ELSE {-1, 0, 1}
TrendStrengthIndex_Sub(u, a) == IF u = 1 /\ a = 1 THEN 0 ELSE Act(u - a)

TrendStrengthIndex_SigInit(cfg, c) ==
    [lu |-> -cfg.zone.s, la |-> cfg.zone.s, hi |-> RevVInit(1, 2, ZeroV), lo |-> RevVInit(1, 2, ZeroV),
     pw |-> WFill(cfg.period + 1, Src(c, cfg.source)), vw |-> WFill(cfg.period + 1, ZeroV)]

\* the states the signal machine may be in when the steps since the last numeric value produced NaN
TrendStrengthIndex_Pre(cfg, sg) ==
    LET n == cfg.period
        flat == \A i \in 1..(n - 2) : FxEq(Ago(sg.pw, i), Ago(sg.pw, 0))
    IN  {sg} \cup (IF flat THEN {[lu |-> 0, la |-> 0,
                                  hi |-> TrendStrengthIndex_NaNs(sg.hi, 1, j), lo |-> TrendStrengthIndex_NaNs(sg.lo, -1, j),
                                  pw |-> WFill(n + 1, Ago(sg.pw, 0)),
                                  vw |-> IF j > n THEN WFill(n + 1, TrendStrengthIndex_NaN)
                                         ELSE SubSeq(sg.vw, j + 1, n + 1) \o WFill(j, TrendStrengthIndex_NaN)] : j \in 1..8}
                   ELSE {})

TrendStrengthIndex_Step1(cfg, s, c, v, doc) ==
    LET h    == TrendStrengthIndex_RevNext(s.hi, v[1], 1)
        w    == TrendStrengthIndex_RevNext(s.lo, v[1], -1)
        rout == w.out - h.out
        pw   == WPush(s.pw, Src(c, cfg.source))
        vw   == WPush(s.vw, v[1])
        pr   == Ago(pw, cfg.reverse_offset)
        pv   == Ago(vw, cfg.reverse_offset)
        nz   == FxNeg(cfg.zone)
        ups  == IF ~doc THEN GeSet(pr, cfg.zone)
                ELSE IF TrendStrengthIndex_IsNaN(pv) THEN {FALSE} ELSE {d >= 0 : d \in TrendStrengthIndex_Sgn(pv, cfg.zone)}
        dns  == IF ~doc THEN LeSet(pr, nz)
                ELSE IF TrendStrengthIndex_IsNaN(pv) THEN {FALSE} ELSE {d <= 0 : d \in TrendStrengthIndex_Sgn(pv, nz)}
    IN  {[sg |-> [lu |-> du, la |-> da, hi |-> h.st, lo |-> w.st, pw |-> pw, vw |-> vw],
          sigs |-> LET under == B2I(s.lu > 0 /\ du <= 0)       \* the value comes down through +zone
                       above == B2I(s.la < 0 /\ da >= 0)       \* the value comes up through -zone
                       upper == B2I(rout < 0 /\ up)            \* high pivot in the upper zone
                       lower == B2I(rout > 0 /\ dn)            \* low pivot in the lower zone
                   IN  IF doc THEN <<{TrendStrengthIndex_Sub(above, under)}, {Act(lower - upper)}>>
                       ELSE <<{TrendStrengthIndex_Sub(under, above)}, {Act(upper - lower)}>>]
         : du \in TrendStrengthIndex_Sgn(v[1], cfg.zone), da \in TrendStrengthIndex_Sgn(v[1], nz), up \in ups, dn \in dns}

TrendStrengthIndex_SigDoc(cfg, sg, c, v) ==
    UNION {TrendStrengthIndex_Step1(cfg, s, c, v, TRUE) : s \in TrendStrengthIndex_Pre(cfg, sg)}
TrendStrengthIndex_SigAsCoded(cfg, sg, c, v) ==
    UNION {TrendStrengthIndex_Step1(cfg, s, c, v, FALSE) : s \in TrendStrengthIndex_Pre(cfg, sg)}
TrendStrengthIndex_Sig(cfg, sg, c, v) == TrendStrengthIndex_SigAsCoded(cfg, sg, c, v)
=============================================================================
