CONSTANTS
  F32 = FALSE
  CHECK_NONNEG = TRUE
SPECIFICATION Spec
INVARIANT NotDone
POSTCONDITION TraceAccepted
CHECK_DEADLOCK FALSE
