INIT Init
NEXT Next
INVARIANT Report
CHECK_DEADLOCK FALSE
