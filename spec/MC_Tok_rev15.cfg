\* C14/C07: reversal detectors with a scaled-down PeriodType (PMAX = 15): every stream of ANY length
\* over 3 ranks, all (left, right) with left + right + 1 <= 6 -- explores far beyond counter saturation
CONSTANTS
  PMAX = 15
  SMM_TOTAL_ORDER = TRUE
  REV_REBASE = TRUE
  Inits <- AllToks
  Subjects <- RevAll
  Lens <- L1to4
  Ranks <- R3
  WithNegZero = FALSE
  EmitDepth = 0
  FirstIsInit = TRUE
SPECIFICATION Spec
INVARIANTS Conform NoOvf
CHECK_DEADLOCK FALSE
