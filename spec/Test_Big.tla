------------------------------ MODULE Test_Big ------------------------------
(* Self-test of Big.tla against reference results computed with Python's   *)
(* arbitrary-precision integers (bin/selftest writes the cases).           *)
EXTENDS Big, TLC, Json, IOUtils
Cases == ndJsonDeserialize(IOEnv.CASES)
VARIABLE i
Init == i = 1
Next == i < Len(Cases) /\ i' = i + 1
C == Cases[i]
OK == /\ BAdd(C.a, C.b) = C.add
      /\ BMul(C.a, C.b) = C.mul
      /\ BCmp(C.a, C.b) = C.cmp
      /\ (C.cmp >= 0 => BSub(C.a, C.b) = C.sub)
      /\ BMulSmall(C.a, C.k) = C.muls
      /\ BDivSmall(C.a, C.k) = C.divs
      /\ BModSmall(C.a, C.k) = C.mods
      /\ (Len(C.b) > 0 => BDiv(C.a, C.b) = C.div)
      /\ BSqrt(C.a) = C.sqrt
Report == OK \/ (PrintT(<<"FAIL", ToJson([case |-> i])>>) /\ FALSE)
=============================================================================
