--------------------------------- MODULE Big ---------------------------------
(***************************************************************************)
(* Arbitrary-precision natural numbers and signed fixed-point numbers in    *)
(* pure TLA+ (TLC's integers are 32-bit).                                   *)
(*                                                                           *)
(* Big natural: sequence of limbs base 10^4, least significant first, no    *)
(* leading (most significant) zero limb; zero is <<>>.  Every intermediate  *)
(* stays below 2^31: limbs < 10^4, products of limbs < 10^8, column sums of *)
(* a schoolbook product < 21 * 10^8.  Operands are therefore limited to 21  *)
(* limbs (84 decimal digits), far more than the 24+16 digits used.          *)
(*                                                                           *)
(* Fx: signed fixed point with SCALE = 24 fractional decimal digits (6      *)
(* limbs): [s |-> -1 | 0 | 1, m |-> Big] denotes s * m * 10^-24.  The        *)
(* harness converts floats to the nearest Fx value; Mul and Div truncate    *)
(* toward zero (error < 10^-24 per operation).                              *)
(***************************************************************************)
EXTENDS Integers, Sequences

BASE == 10000
FRAC == 6                       \* fractional limbs: 10^-24

----------------------------------------------------------------------------
(* naturals *)

RECURSIVE BNorm(_)
BNorm(a) == IF Len(a) = 0 THEN a
            ELSE IF a[Len(a)] = 0 THEN BNorm(SubSeq(a, 1, Len(a) - 1)) ELSE a

BZero == <<>>
BIsZero(a) == Len(a) = 0

RECURSIVE BFromNat(_)
BFromNat(n) == IF n = 0 THEN <<>> ELSE <<n % BASE>> \o BFromNat(n \div BASE)

Limb(a, i) == IF i <= Len(a) THEN a[i] ELSE 0

\* compare from the most significant limb: -1, 0, 1
RECURSIVE BCmpAt(_, _, _)
BCmpAt(a, b, i) == IF i = 0 THEN 0
                   ELSE IF a[i] < b[i] THEN -1
                   ELSE IF a[i] > b[i] THEN 1
                   ELSE BCmpAt(a, b, i - 1)
BCmp(a, b) == IF Len(a) < Len(b) THEN -1 ELSE IF Len(a) > Len(b) THEN 1 ELSE BCmpAt(a, b, Len(a))

RECURSIVE BAddAt(_, _, _, _, _)
BAddAt(a, b, i, carry, acc) ==
    IF i > Len(a) /\ i > Len(b)
    THEN (IF carry = 0 THEN acc ELSE Append(acc, carry))
    ELSE LET t == Limb(a, i) + Limb(b, i) + carry
         IN  BAddAt(a, b, i + 1, t \div BASE, Append(acc, t % BASE))
BAdd(a, b) == BAddAt(a, b, 1, 0, <<>>)

\* a - b for a >= b
RECURSIVE BSubAt(_, _, _, _, _)
BSubAt(a, b, i, borrow, acc) ==
    IF i > Len(a) THEN BNorm(acc)
    ELSE LET t == a[i] - Limb(b, i) - borrow
         IN  IF t < 0 THEN BSubAt(a, b, i + 1, 1, Append(acc, t + BASE))
             ELSE BSubAt(a, b, i + 1, 0, Append(acc, t))
BSub(a, b) == BSubAt(a, b, 1, 0, <<>>)

\* a * k for 0 <= k <= 200000
RECURSIVE BMulSmallAt(_, _, _, _, _), BCarryOut(_, _)
BCarryOut(carry, acc) == IF carry = 0 THEN acc ELSE BCarryOut(carry \div BASE, Append(acc, carry % BASE))
BMulSmallAt(a, k, i, carry, acc) ==
    IF i > Len(a) THEN BCarryOut(carry, acc)
    ELSE LET t == a[i] * k + carry
         IN  BMulSmallAt(a, k, i + 1, t \div BASE, Append(acc, t % BASE))
BMulSmall(a, k) == IF k = 0 \/ Len(a) = 0 THEN <<>> ELSE BMulSmallAt(a, k, 1, 0, <<>>)

\* schoolbook product by columns: column c (1-based) = sum of a[i] * b[c + 1 - i]
RECURSIVE ColSum(_, _, _, _, _), BMulAt(_, _, _, _, _)
ColSum(a, b, c, i, acc) ==
    IF i > Len(a) \/ i > c THEN acc
    ELSE ColSum(a, b, c, i + 1, acc + (IF c + 1 - i <= Len(b) THEN a[i] * b[c + 1 - i] ELSE 0))
BMulAt(a, b, c, carry, acc) ==
    IF c > Len(a) + Len(b) - 1 THEN BCarryOut(carry, acc)
    ELSE LET lo == IF c > Len(b) THEN c + 1 - Len(b) ELSE 1
             t  == ColSum(a, b, c, lo, 0) + carry
         IN  BMulAt(a, b, c + 1, t \div BASE, Append(acc, t % BASE))
BMul(a, b) == IF Len(a) = 0 \/ Len(b) = 0 THEN <<>> ELSE BMulAt(a, b, 1, 0, <<>>)

\* a \div k and a % k for 1 <= k <= 200000: long division from the top limb
RECURSIVE BDivSmallAt(_, _, _, _, _)
BDivSmallAt(a, k, i, rem, acc) ==         \* acc collects quotient limbs most significant first
    IF i = 0 THEN <<acc, rem>>
    ELSE LET t == rem * BASE + a[i]
         IN  BDivSmallAt(a, k, i - 1, t % k, Append(acc, t \div k))
Reverse(s) == [j \in 1..Len(s) |-> s[Len(s) + 1 - j]]
BDivSmall(a, k) == BNorm(Reverse(BDivSmallAt(a, k, Len(a), 0, <<>>)[1]))
BModSmall(a, k) == BDivSmallAt(a, k, Len(a), 0, <<>>)[2]

\* shift by whole limbs
BShl(a, n) == IF Len(a) = 0 THEN a ELSE [i \in 1..n |-> 0] \o a
BShr(a, n) == IF Len(a) <= n THEN <<>> ELSE SubSeq(a, n + 1, Len(a))

\* general division a \div b (b # 0): one quotient limb at a time, each found by bisection on 0..9999
RECURSIVE QDigit(_, _, _, _), BDivAt(_, _, _, _, _)
QDigit(r, b, lo, hi) ==                    \* largest q in lo..hi with b * q <= r  (invariant: b * lo <= r)
    IF lo = hi THEN lo
    ELSE LET mid == (lo + hi + 1) \div 2
         IN  IF BCmp(BMulSmall(b, mid), r) <= 0 THEN QDigit(r, b, mid, hi) ELSE QDigit(r, b, lo, mid - 1)
BDivAt(a, b, i, rem, acc) ==
    IF i = 0 THEN BNorm(Reverse(acc))
    ELSE LET r == BNorm(<<a[i]>> \o rem)       \* rem * BASE + a[i]
             q == IF BCmp(r, b) < 0 THEN 0 ELSE QDigit(r, b, 0, BASE - 1)
         IN  BDivAt(a, b, i - 1, IF q = 0 THEN r ELSE BSub(r, BMulSmall(b, q)), Append(acc, q))
BDiv(a, b) == IF BCmp(a, b) < 0 THEN <<>> ELSE BDivAt(a, b, Len(a), <<>>, <<>>)

\* integer square root (floor) by bisection on the number of limbs, then Newton: used rarely
RECURSIVE BSqrtIter(_, _)
BSqrtIter(a, x) ==            \* x >= floor(sqrt(a)); Newton step decreases until fixed point
    LET y == BDivSmall(BAdd(x, BDiv(a, x)), 2)
    IN  IF BCmp(y, x) >= 0 THEN x ELSE BSqrtIter(a, y)
BSqrt(a) == IF Len(a) = 0 THEN <<>>
            ELSE BSqrtIter(a, BShl(<<1>>, (Len(a) + 1) \div 2))     \* 10^(4*ceil(len/2)) >= sqrt(a)

----------------------------------------------------------------------------
(* signed fixed point *)

FxZero == [s |-> 0, m |-> <<>>]
FxMk(s, m) == IF Len(m) = 0 THEN FxZero ELSE [s |-> s, m |-> m]
FxOne == [s |-> 1, m |-> BShl(<<1>>, FRAC)]
FxFromInt(n) == IF n = 0 THEN FxZero
                ELSE [s |-> IF n < 0 THEN -1 ELSE 1, m |-> BShl(BFromNat(IF n < 0 THEN -n ELSE n), FRAC)]
FxNeg(x) == [s |-> -x.s, m |-> x.m]
FxAbs(x) == [s |-> IF x.s = 0 THEN 0 ELSE 1, m |-> x.m]
FxSign(x) == x.s
FxIsZero(x) == x.s = 0

FxAdd(x, y) ==
    IF x.s = 0 THEN y ELSE IF y.s = 0 THEN x
    ELSE IF x.s = y.s THEN [s |-> x.s, m |-> BAdd(x.m, y.m)]
    ELSE LET c == BCmp(x.m, y.m)
         IN  IF c = 0 THEN FxZero
             ELSE IF c > 0 THEN [s |-> x.s, m |-> BSub(x.m, y.m)]
             ELSE [s |-> y.s, m |-> BSub(y.m, x.m)]
FxSub(x, y) == FxAdd(x, FxNeg(y))

FxCmp(x, y) ==          \* -1, 0, 1
    IF x.s # y.s THEN (IF x.s < y.s THEN -1 ELSE 1)
    ELSE IF x.s = 0 THEN 0
    ELSE x.s * BCmp(x.m, y.m)
FxLe(x, y) == FxCmp(x, y) <= 0
FxLt(x, y) == FxCmp(x, y) < 0
FxGe(x, y) == FxCmp(x, y) >= 0
FxGt(x, y) == FxCmp(x, y) > 0
FxEq(x, y) == FxCmp(x, y) = 0
FxMax(x, y) == IF FxGe(x, y) THEN x ELSE y
FxMin(x, y) == IF FxLe(x, y) THEN x ELSE y

FxMul(x, y) == IF x.s = 0 \/ y.s = 0 THEN FxZero ELSE FxMk(x.s * y.s, BShr(BMul(x.m, y.m), FRAC))
FxMulInt(x, k) == IF k = 0 \/ x.s = 0 THEN FxZero
                  ELSE [s |-> IF k < 0 THEN -x.s ELSE x.s, m |-> BMulSmall(x.m, IF k < 0 THEN -k ELSE k)]
FxDivInt(x, k) == IF x.s = 0 THEN FxZero
                  ELSE FxMk(IF k < 0 THEN -x.s ELSE x.s, BDivSmall(x.m, IF k < 0 THEN -k ELSE k))
FxDiv(x, y) == IF x.s = 0 THEN FxZero ELSE FxMk(x.s * y.s, BDiv(BShl(x.m, FRAC), y.m))
FxSqr(x) == FxMul(x, x)
FxSqrt(x) == IF x.s <= 0 THEN FxZero ELSE FxMk(1, BSqrt(BShl(x.m, FRAC)))
\* n / d as Fx (d > 0)
FxFromRat(n, d) == FxDivInt(FxFromInt(n), d)
\* from the harness' JSON form {"s": sign, "m": [limbs]}
FxFromJson(j) == FxMk(j.s, j.m)
\* x * 10^-k limbs: scale down by whole limbs (k <= FRAC), e.g. FxShr(FxOne, 4) = 10^-16
FxShr(x, k) == FxMk(x.s, BShr(x.m, k))
=============================================================================
