--------------------------- MODULE I_RelativeVigorIndex ---------------------------
(* RelativeVigorIndex(period1, period2, signal, zone): num = SMA(period1)(SWMA(period2)(d)), den = SMA(period1)(       *)
(* SWMA(period2)(high - low)); rvi = num / den (0 when den = 0); signal line = signal(rvi).  Values [rvi, line].        *)
(* AS CODED d = close - PREVIOUS close (0 on the first bar: the construction candle is the prehistory; repaired in     *)
(* /repo, it was close - open there); the referenced definition uses close - open of the same bar.  Seeds: the d-averages start from 0, the range averages from the first candle's high - low, the line      *)
(* from 0.  S0 = rvi crosses the line (+ upwards).  S1 AS CODED = [S0 < 0 and rvi > zone and line > zone] -             *)
(* [S0 > 0 and rvi < -zone and line < -zone], i.e. buy on a DOWNWARD cross above +zone and sell on an UPWARD cross      *)
(* below -zone; the documentation states the opposite (buy: below -zone crossing upwards, sell: above +zone crossing   *)
(* downwards).                                                                                                        *)
\* SPEC: values signals
EXTENDS IndLib

\* Rounding scale of the signal line.  rvi is a quotient of two averages known to within the allowance of scale 2P,
\* so its own error is that allowance times (1 + |rvi|) / den: scale q = 2 P (1 + |rvi|) / den (>= 1 + |rvi|).
\* The line averages rvi, so its scale is the same average of q (kinds with non-negative weights), the sum of the
\* absolute stage weights (dema: 2 e1 + e2, tema: 3 e1 + 3 e2 + e3), 3 max q over the window (hma, linreg: signed
\* weights of absolute sum < 3; smm), the running maximum for vidya (its factor depends on the inputs).
RelativeVigorIndex_EInit(m) ==
    CASE m.ma = "vidya" -> [mx |-> FxZero]
      [] m.ma \in {"dema", "tema"} -> MAInit("tma", m.n, FxZero)
      [] OTHER -> MInit(m, FxZero)
RelativeVigorIndex_EStep(m, est, q) ==
    CASE m.ma \in {"hma", "linreg", "smm"} -> LET w == WPush(est.w, q) IN [st |-> [w |-> w], out |-> FxMulInt(Hi(w), 3)]
      [] m.ma = "dema" -> LET s == CascStep(m.n, est.c, q) IN [st |-> [c |-> s], out |-> FxAdd(FxMulInt(s[1], 2), s[2])]
      [] m.ma = "tema" -> LET s == CascStep(m.n, est.c, q) IN [st |-> [c |-> s], out |-> FxAdd(FxMulInt(FxAdd(s[1], s[2]), 3), s[3])]
      [] m.ma = "vidya" -> LET mx == FxMax(est.mx, q) IN [st |-> [mx |-> mx], out |-> FxMulInt(mx, 4)]
      [] OTHER -> MStep(m, est, q)

RelativeVigorIndex_Init(cfg, c) ==
    LET hl == FxSub(c.h, c.l)
    IN  [pc |-> c.c,
         w1 |-> MAInit("swma", cfg.period2, FxZero), a1 |-> MAInit("sma", cfg.period1, FxZero),
         w2 |-> MAInit("swma", cfg.period2, hl),     a2 |-> MAInit("sma", cfg.period1, hl),
         m  |-> MInit(cfg.signal, FxZero), e |-> RelativeVigorIndex_EInit(cfg.signal), lost |-> FALSE]
RelativeVigorIndex_Step(cfg, st, c, P, V) ==
    LET w1 == MAStep("swma", cfg.period2, st.w1, FxSub(c.c, st.pc))
        a1 == MAStep("sma", cfg.period1, st.a1, w1.out)
        w2 == MAStep("swma", cfg.period2, st.w2, FxSub(c.h, c.l))
        a2 == MAStep("sma", cfg.period1, st.a2, w2.out)
        S2 == FxMulInt(P, 2)
        rvi == IF FxIsZero(a2.out) THEN FxZero ELSE FxDiv(a1.out, a2.out)
        \* den = 0: the code answers 0 only if its running sum is exactly 0, else a quotient of residues -- no scale
        q  == IF FxIsZero(a2.out) THEN FxFromInt(1000000000) ELSE FxMul(FxAdd(FxOne, FxAbs(rvi)), FxDiv(S2, a2.out))
        m  == MStep(cfg.signal, st.m, rvi)
        e  == RelativeVigorIndex_EStep(cfg.signal, st.e, q)
        \* once the averaged range is exactly 0 (a stretch of flat candles longer than both windows) the code's rvi is a quotient
        \* of rounding residues; it is fed to the signal line, which is not determined from then on
        lost == st.lost \/ FxIsZero(a2.out)
    IN  [st |-> [pc |-> c.c, w1 |-> w1.st, a1 |-> a1.st, w2 |-> w2.st, a2 |-> a2.st, m |-> m.st, e |-> e.st, lost |-> lost],
         vals |-> <<Gx(a1.out, a2.out, S2, S2, FxZero), IF lost THEN AnyVal ELSE Ex(m.out, FxMulInt(e.out, 2))>>]

\* logged value a > zone (exactly: zone is the configured float; against 0.0 the sign is taken from the ordering key)
RelativeVigorIndex_Above(a, z) == IF FxIsZero(z) THEN FGt(a, ZeroV) ELSE FxGt(a.x, z)
RelativeVigorIndex_Below(a, z) == IF FxIsZero(z) THEN FLt(a, ZeroV) ELSE FxLt(a.x, FxNeg(z))

RelativeVigorIndex_SigInit(cfg, c) == [x |-> 0]
RelativeVigorIndex_Sig(cfg, sg, c, v) ==
    LET s1 == CrossOut(sg.x, v[1], v[2])
        z  == cfg.zone
        s2 == B2I(s1 < 0 /\ RelativeVigorIndex_Above(v[1], z) /\ RelativeVigorIndex_Above(v[2], z))
              - B2I(s1 > 0 /\ RelativeVigorIndex_Below(v[1], z) /\ RelativeVigorIndex_Below(v[2], z))
    IN  {[sg |-> [x |-> CrossLast(v[1], v[2])], sigs |-> <<{Act(s1)}, {Act(s2)}>>]}
=============================================================================
