SPECIFICATION Spec
INVARIANT NotDone
POSTCONDITION TraceAccepted
CHECK_DEADLOCK FALSE
