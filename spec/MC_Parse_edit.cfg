CONSTANTS
  PMAX = 255
  Mode = "edit"
  MaxLen = 0
SPECIFICATION Spec
INVARIANTS CanonOK Emit
CHECK_DEADLOCK FALSE
