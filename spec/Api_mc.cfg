\* exhaustive: every program of at most 4 operations
CONSTANTS
  L = 6
  MaxH = 3
  MaxK = 2
  Depth = 4
  Ops <- AllOps
SPECIFICATION Spec
INVARIANTS TypeOK OnePerInput Emit
PROPERTY Independent
CHECK_DEADLOCK FALSE
