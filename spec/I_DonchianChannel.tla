----------------------------- MODULE I_DonchianChannel -----------------------------
(* DonchianChannel(period n): lower = lowest low, upper = highest high of the last n candles, middle = their mean.   *)
(* Values [lower, middle, upper] (the doc comment attaches the range of `high` to the lower and of `low` to the      *)
(* upper bound: swapped).  S0 = [high >= upper] - [low <= lower]: full buy when the high hits the upper bound, full  *)
(* sell when the low hits the lower bound, none when both or neither -- evaluated on the logged bounds.              *)
\* SPEC: values signals
EXTENDS IndLib

DonchianChannel_Init(cfg, c) == [hw |-> WFill(cfg.period, c.h), lw |-> WFill(cfg.period, c.l)]
DonchianChannel_Step(cfg, st, c, P, V) ==
    LET hw == WPush(st.hw, c.h)  lw == WPush(st.lw, c.l)
        hi == Hi(hw)  lo == Lo(lw)
    IN  [st |-> [hw |-> hw, lw |-> lw],
         vals |-> <<Ex(lo, P), Ex(FxDivInt(FxAdd(hi, lo), 2), P), Ex(hi, P)>>]

DonchianChannel_SigInit(cfg, c) == <<>>
DonchianChannel_Sig(cfg, sg, c, v) ==
    {[sg |-> sg, sigs |-> <<{Act(B2I(FxGe(c.h, v[3].x)) - B2I(FxLe(c.l, v[1].x)))}>>]}
=============================================================================
