------------------------------- MODULE Reversal -------------------------------
(***************************************************************************)
(* UpperReversalSignal, LowerReversalSignal, ReversalSignal                 *)
(* (src/methods/reversal.rs) over tokens.                                   *)
(*                                                                           *)
(* Implementation-shaped: a window of left+right+1 values, the value and    *)
(* the absolute stream position (a PeriodType counter!) of the current      *)
(* extremum, and the position counter `index` that is advanced with         *)
(* saturating_add.  dir = 1: upper (pivot high), dir = -1: lower.           *)
(*                                                                           *)
(* Definition: the detector fires at step t (0-based count of inputs) iff   *)
(* t >= right and, inside the last left+right+1 inputs (the construction    *)
(* value standing in before the stream), the element `right` steps back is  *)
(* >= (<=) every older element and > (<) every newer one.                   *)
(***************************************************************************)
EXTENDS Tok, Period


CONSTANT REV_REBASE

RevParamsOk(l, r) == ~(l = 0 \/ r = 0 \/ SatAdd(l, r) = PMAX)

RevInit(l, r, v) ==
    [left |-> l, right |-> r, ext_value |-> v, ext_index |-> 0, index |-> 0,
     win |-> Fill(l + r + 1, v)]

\* for_each over window.iter_rev().zip(first_index..).skip(1): positions are PeriodType values;
\* the range `first_index..` steps with +1 (it is only advanced as far as the zip needs it)
RECURSIVE RescanFold(_, _, _, _, _)
RescanFold(win, j, pos, acc, dir) ==       \* acc = <<ext_index, ext_value>>, j = 1-based slot in win (oldest first)
    IF j > Len(win) THEN acc
    ELSE RescanFold(win, j + 1, PAdd(pos, 1),
                    IF dir * win[j][1] >= dir * acc[2][1] THEN <<pos, win[j]>> ELSE acc, dir)

RevNext(st, x, dir) ==
    LET win2  == Push(st.win, x)
        n     == Len(st.win)
        first == SatSub(SatAdd(st.index, 1), n)
        upd   == IF st.ext_index < first
                 THEN RescanFold(win2, 2, PAdd(first, 1), <<first, win2[1]>>, dir)
                 ELSE IF dir * x[1] >= dir * st.ext_value[1] THEN <<st.index, x>>
                 ELSE <<st.ext_index, st.ext_value>>
        fire  == st.index >= st.right /\ upd[1] = SatSub(st.index, st.right)
        \* advance the position counter; when it reaches PeriodType::MAX, renumber the positions so that
        \* the oldest element of the window becomes position 0 (REV_REBASE = FALSE: the code before the
        \* C07/C14 fix, where the counter saturates and the detector goes blind)
        idx1  == SatAdd(st.index, 1)
        shift == IF REV_REBASE /\ idx1 = PMAX THEN idx1 - n ELSE 0
    IN  [st  |-> [st EXCEPT !.win = win2, !.ext_index = upd[1] - shift, !.ext_value = upd[2],
                            !.index = idx1 - shift],
         out |-> IF fire THEN 1 ELSE 0]

UpperNext(st, x) == LET r == RevNext(st, x, 1)  IN {[st |-> r.st, out |-> <<r.out>>]}
LowerNext(st, x) == LET r == RevNext(st, x, -1) IN {[st |-> r.st, out |-> <<r.out>>]}
\* ReversalSignal = low.next(v) - high.next(v); both report BUY_ALL when they fire
BothInit(l, r, v) == [high |-> RevInit(l, r, v), low |-> RevInit(l, r, v)]
BothNext(st, x) == LET h == RevNext(st.high, x, 1)
                       w == RevNext(st.low, x, -1)
                   IN  {[st |-> [high |-> h.st, low |-> w.st], out |-> <<w.out - h.out>>]}

----------------------------------------------------------------------------
(* definition: abstract state = the last left+right+1 inputs and min(t, right) *)
AbsInit(l, r, v) == [h |-> Fill(l + r + 1, v), t |-> 0]
PivotAt(h, r, dir) ==       \* is the element `r` steps back a pivot of window h?
    LET n == Len(h)
        c == n - r           \* its 1-based slot
    IN  /\ \A j \in 1..(c - 1) : dir * h[c][1] >= dir * h[j][1]
        /\ \A j \in (c + 1)..n : dir * h[c][1] >  dir * h[j][1]
AbsNext(a, r, x, dir) ==
    LET h2 == Push(a.h, x)
    IN  [st |-> [h |-> h2, t |-> IF a.t < r THEN a.t + 1 ELSE a.t],
         out |-> IF a.t >= r /\ PivotAt(h2, r, dir) THEN 1 ELSE 0]
=============================================================================
