-------------------------------- MODULE Cross --------------------------------
(***************************************************************************)
(* CrossAbove, CrossUnder, Cross (src/methods/cross.rs).                    *)
(*                                                                           *)
(* Input: a pair of tokens (value, base).  The only state is the SIGN of    *)
(* the previous difference value - base: floating-point subtraction of      *)
(* finite values is exact in sign (and zero iff the operands are equal),    *)
(* so sign(delta) = sign(rank(value) - rank(base)).                         *)
(* Outputs are signed unit actions: 1 = BUY_ALL, -1 = SELL_ALL, 0 = None.   *)
(***************************************************************************)
EXTENDS Tok

Sgn(i) == IF i > 0 THEN 1 ELSE IF i < 0 THEN -1 ELSE 0
Delta(p) == Sgn(p[1][1] - p[2][1])          \* p = <<value token, base token>>

\* implementation-shaped: last_delta, binary()
CrossInit(p) == [last |-> Delta(p)]
AboveBinary(st, p) == st.last < 0 /\ Delta(p) >= 0
UnderBinary(st, p) == st.last > 0 /\ Delta(p) <= 0
B2I(b) == IF b THEN 1 ELSE 0

AboveNext(st, p) == {[st |-> [last |-> Delta(p)], out |-> <<B2I(AboveBinary(st, p))>>]}
UnderNext(st, p) == {[st |-> [last |-> Delta(p)], out |-> <<B2I(UnderBinary(st, p))>>]}
\* Cross holds one detector of each kind and returns up - down
CrossNext(st, p) == {[st |-> [last |-> Delta(p)], out |-> <<B2I(AboveBinary(st, p)) - B2I(UnderBinary(st, p))>>]}

\* definitions over the previous and the current pair
AboveDef(prev, cur) == <<B2I(prev[1][1] < prev[2][1] /\ cur[1][1] >= cur[2][1])>>
UnderDef(prev, cur) == <<B2I(prev[1][1] > prev[2][1] /\ cur[1][1] <= cur[2][1])>>
CrossDef(prev, cur) == <<AboveDef(prev, cur)[1] - UnderDef(prev, cur)[1]>>
Swap(p) == <<p[2], p[1]>>
=============================================================================
