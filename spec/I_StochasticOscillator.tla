--------------------------- MODULE I_StochasticOscillator ---------------------------
(* StochasticOscillator(period p, ma, signal, zone): k = (close - L)/(H - L) with H, L the highest high and lowest    *)
(* low of the last p candles, 0.5 when H = L; main = ma(k), signal line = signal(main), both averages seeded with     *)
(* the first candle's own k = (close - low)/(high - low) (0.5 on a zero range).  Values [main, line].                 *)
(* S0 = buy when main crosses the lower bound `zone` upwards, sell when it crosses the upper bound 1 - zone           *)
(* downwards; S1 = the same for the line; S2 = main crosses line (+ upwards).  Detectors start from default().        *)
(* The upper bound 1 - zone is computed in floating point: near it both outcomes of the comparison are admitted.      *)
\* SPEC: values signals
EXTENDS IndLib

StochasticOscillator_K(cl, hi, lo) == IF FxEq(hi, lo) THEN FxDivInt(FxOne, 2) ELSE FxDiv(FxSub(cl, lo), FxSub(hi, lo))
StochasticOscillator_Init(cfg, c) ==
    LET k0 == StochasticOscillator_K(c.c, c.h, c.l)
    IN  [hw |-> WFill(cfg.period, c.h), lw |-> WFill(cfg.period, c.l), m1 |-> MInit(cfg.ma, k0), m2 |-> MInit(cfg.signal, k0)]
StochasticOscillator_Step(cfg, st, c, P, V) ==
    LET hw == WPush(st.hw, c.h)  lw == WPush(st.lw, c.l)
        k  == StochasticOscillator_K(c.c, Hi(hw), Lo(lw))
        a  == MStep(cfg.ma, st.m1, k)
        b  == MStep(cfg.signal, st.m2, a.out)
    IN  [st |-> [hw |-> hw, lw |-> lw, m1 |-> a.st, m2 |-> b.st],
         vals |-> <<Ex(a.out, FxFromInt(4)), Ex(b.out, FxFromInt(8))>>]

\* admissible signs of (a - z): z a configured float (exact), resp. a bound computed in floating point (near: any)
StochasticOscillator_Sgn(a, z) ==
    IF FxIsZero(z) THEN {FCmp(a, ZeroV)}
    ELSE IF FxGe(FxAbs(z), FxShr(FxOne, 1)) \/ ~NearEq(a.x, z) THEN {FxCmp(a.x, z)}
    ELSE {-1, 0, 1}
StochasticOscillator_SgnF(a, z) == IF NearEq(a.x, z) THEN {-1, 0, 1} ELSE {FxCmp(a.x, z)}
\* Action - Action for two unit detectors: Buy - Buy = Buy(0)
StochasticOscillator_Sub(u, a) == IF u = 1 /\ a = 1 THEN 0 ELSE Act(u - a)

StochasticOscillator_SigInit(cfg, c) == [a1 |-> 0, u1 |-> 0, a2 |-> 0, u2 |-> 0, x |-> 0]
StochasticOscillator_Sig(cfg, sg, c, v) ==
    LET upper == FxSub(FxOne, cfg.zone)
    IN  {[sg |-> [a1 |-> da1, u1 |-> du1, a2 |-> da2, u2 |-> du2, x |-> CrossLast(v[1], v[2])],
          sigs |-> <<{StochasticOscillator_Sub(B2I(sg.a1 < 0 /\ da1 >= 0), B2I(sg.u1 > 0 /\ du1 <= 0))},
                     {StochasticOscillator_Sub(B2I(sg.a2 < 0 /\ da2 >= 0), B2I(sg.u2 > 0 /\ du2 <= 0))},
                     {Act(CrossOut(sg.x, v[1], v[2]))}>>]
         : da1 \in StochasticOscillator_Sgn(v[1], cfg.zone), du1 \in StochasticOscillator_SgnF(v[1], upper),
           da2 \in StochasticOscillator_Sgn(v[2], cfg.zone), du2 \in StochasticOscillator_SgnF(v[2], upper)}
=============================================================================
