CONSTANTS
  PMAX = 255
  SMM_TOTAL_ORDER = TRUE
  REV_REBASE = TRUE
SPECIFICATION Spec
POSTCONDITION TraceAccepted
CHECK_DEADLOCK FALSE
