CONSTANTS
  PMAX = 255
SPECIFICATION Spec
INVARIANT CapOK
POSTCONDITION TraceAccepted
CHECK_DEADLOCK FALSE
