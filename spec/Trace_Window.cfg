CONSTANTS
  PMAX = 255
SPECIFICATION Spec
INVARIANTS CapOK NotDone
POSTCONDITION TraceAccepted
CHECK_DEADLOCK FALSE
