------------------------------ MODULE Trace_Laws ------------------------------
(***************************************************************************)
(* C15: moving averages are averages.  Relational trace validation: the     *)
(* harness runs related instances of the real methods side by side and logs *)
(* their outputs; this spec checks the algebraic laws between them in exact *)
(* fixed point (no evaluation of the average itself is needed, so the check *)
(* is independent of C02/C03):                                              *)
(*   affine : MA(a x + b) = a MA(x) + b          (all kinds, any a incl. < 0)*)
(*   range  : min(inputs so far) <= MA(x) <= max (non-negative weights)     *)
(*   super  : MA(x + z) = MA(x) + MA(z)          (linear kinds)             *)
(*   const  : a constant stream is reproduced                               *)
(*   impulse: started at 0 and fed one unit then zeros, a linear kind       *)
(*            returns its documented weight profile -- for EVERY length     *)
(***************************************************************************)
EXTENDS NumSubjects, TLC, Json, IOUtils

Rec == ndJsonDeserialize(IOEnv.TRACE)
VARIABLES l, law, kind, n, a, b, t, M, lo, hi, ema, ws
vars == <<l, law, kind, n, a, b, t, M, lo, hi, ema, ws>>
E == Rec[l]
Fx(j) == FxFromJson(j)
Near(x, y, tol) == FxLe(FxAbs(FxSub(x, y)), tol)

\* documented weight of the input j steps back (0 = newest) as a rational num/den; FIR kinds
Profile(k, len, j) ==
    CASE k = "SMA"    -> [num |-> IF j < len THEN 1 ELSE 0, den |-> len]
      [] k = "WMA"    -> [num |-> IF j < len THEN len - j ELSE 0, den |-> (len * (len + 1)) \div 2]
      [] k = "SWMA"   -> [num |-> IF j < len THEN SWMAw(len, j + 1) ELSE 0,
                          den |-> LET p == (len + 1) \div 2  q == len \div 2 IN (p * (p + 1)) \div 2 + (q * (q + 1)) \div 2]
      [] k = "TRIMA"  -> [num |-> IF j < 2 * len - 1 THEN (IF j < len THEN j + 1 ELSE 2 * len - 1 - j) ELSE 0, den |-> len * len]
      [] k = "LinReg" -> [num |-> IF j < len THEN 2 * (2 * len - 1 - 3 * j) ELSE 0, den |-> len * (len + 1)]
FIR == {"SMA", "WMA", "SWMA", "TRIMA", "LinReg"}
\* recursive kinds: the impulse response is carried as the recurrence itself (alpha = num/den)
Alpha(k, len) == IF k = "RMA" THEN <<1, len>> ELSE IF k = "WSMA" THEN <<1, len>> ELSE <<2, len + 1>>

Init == l = 1 /\ law = "" /\ kind = "" /\ n = 0 /\ a = FxZero /\ b = FxZero /\ t = 0 /\ M = FxZero /\ lo = FxZero /\ hi = FxZero /\ ema = <<>> /\ ws = <<>>

TNew == /\ E.ev = "law_new"
        /\ law' = E.law /\ kind' = E.kind /\ n' = E.n /\ a' = Fx(E.a) /\ b' = Fx(E.b)
        /\ t' = 0 /\ M' = FxAbs(Fx(E.init)) /\ lo' = Fx(E.init) /\ hi' = Fx(E.init)
        \* (for Vidya programs `ema` carries the exact recurrence, used for the conditioning of its factor)
        /\ ema' = IF E.kind = "Vidya" /\ E.law \in {"affine", "range"} THEN [vs |-> VidyaInit(E.n, Fx(E.init)), mute |-> FALSE]
                  ELSE <<FxZero, FxZero, FxZero>>
        /\ ws' = IF "w" \in DOMAIN E THEN [i \in 1..Len(E.w) |-> Fx(E.w[i])] ELSE <<>>

\* allowance for a relation between runs: each run is within A of the truth
TolRel == Allow(4 * n + 16, 8, t + 1, FxAdd(FxMul(FxAdd(FxAbs(a), FxOne), M), FxAbs(b)))

TStep == /\ E.ev = "law_step"
         /\ LET x  == Fx(E.x)
                m2 == FxMax(M, FxMax(FxAbs(x), IF "z" \in DOMAIN E THEN FxAbs(Fx(E.z)) ELSE FxZero))
                lo2 == FxMin(lo, x)
                hi2 == FxMax(hi, x)
                tol0 == Allow(4 * n + 16, 8, t + 1, FxAdd(FxMul(FxAdd(FxAbs(a), FxOne), m2), FxAbs(b)))
                \* Vidya's factor |up - dn| / (up + dn) is a quotient of running sums (quotient rule, as in NumSubjects): its
                \* conditioning is accumulated along the exact recurrence and added to the allowance; once the sums are within
                \* rounding of 0 without being 0 the factor -- and with it the rest of this program -- is not determined
                isV  == kind = "Vidya" /\ law \in {"affine", "range"}
                aq   == Allow(n, 8, t + 1, FxMulInt(m2, 2 * n))
                q    == IF isV THEN VidyaStep(n, ema.vs, x, aq) ELSE <<>>
                mut  == isV /\ (ema.mute \/ (~FxIsZero(q.tot) /\ FxLe(q.tot, FxMulInt(aq, 8))))
                tol  == IF isV THEN FxAdd(tol0, FxMul(FxAdd(FxAbs(a), FxOne), q.st.eacc)) ELSE tol0
            IN  /\ \/ mut
                   \/ CASE law = "affine" -> Near(Fx(E.y2), FxAdd(FxMul(a, Fx(E.y1)), b), FxMulInt(tol, 2))
                        [] law = "range"  -> FxGe(Fx(E.y1), FxSub(lo2, tol)) /\ FxLe(Fx(E.y1), FxAdd(hi2, tol))
                        [] law = "super"  -> Near(Fx(E.y3), FxAdd(Fx(E.y1), Fx(E.y2)), FxMulInt(tol, 3))
                        \* (a volume-weighted average of a constant price is a quotient of two running sums of inexact products: its
                        \* numerator drifts with t and is divided by a total volume that may be 50 times smaller than the largest one)
                        [] law = "const"  -> IF kind = "VWMA" THEN Near(Fx(E.y1), x, Allow(4 * n + 16, 8, t + 1, FxMulInt(FxAbs(x), 64)))
                                             ELSE Near(Fx(E.y1), x, Allow(4 * n + 16, 0, 1, FxAbs(x)))
                /\ ema' = IF isV THEN [vs |-> q.st, mute |-> mut] ELSE ema
                /\ M' = m2 /\ lo' = lo2 /\ hi' = hi2
         /\ t' = t + 1 /\ UNCHANGED <<law, kind, n, a, b, ws>>

\* impulse response: E.j = steps since the unit input; y = the output
TImpulse ==
    /\ E.ev = "impulse"
    /\ IF kind = "Conv"      \* the weights themselves, the LAST one on the newest input
       THEN LET len == Len(ws)
                w == IF E.j < len THEN ws[len - E.j] ELSE FxZero
                tot == FxSum(ws)
            IN  /\ Near(FxMul(Fx(E.y), tot), w, Allow(4 * len + 16, 0, 1, FxAdd(FxOne, FxSum([i \in 1..len |-> FxAbs(ws[i])]))))
                /\ ema' = ema
       ELSE IF kind \in FIR
       THEN LET p == Profile(kind, n, E.j)
            IN  /\ Near(FxMulInt(Fx(E.y), p.den), FxFromInt(p.num), FxMulInt(Allow(4 * n + 16, 8, E.j + 1 + t, FxOne), p.den))
                /\ ema' = ema
       ELSE LET al == Alpha(kind, n)
                x  == IF E.j = 0 THEN FxOne ELSE FxZero
                e1 == Smooth(ema[1], x, al[1], al[2])
                e2 == Smooth(ema[2], e1, al[1], al[2])
                e3 == Smooth(ema[3], e2, al[1], al[2])
                v  == CASE kind \in {"EMA", "RMA", "WSMA"} -> e1
                        [] kind = "DMA" -> e2 [] kind = "TMA" -> e3
                        [] kind = "DEMA" -> FxSub(FxMulInt(e1, 2), e2)
                        [] kind = "TEMA" -> FxAdd(FxMulInt(FxSub(e1, e2), 3), e3)
            IN  /\ Near(Fx(E.y), v, Allow(16 * n + 16, 0, 1, FxMulInt(FxOne, 7)))
                /\ ema' = <<e1, e2, e3>>
    /\ UNCHANGED <<law, kind, n, a, b, t, M, lo, hi, ws>>

\* a late impulse: the instance (started at 0) is first fed zeros -- the output stays 0 -- so that the unit input arrives
\* at an arbitrary position of the stream (time invariance of the weight profile; t counts the quiet steps)
TQuiet == /\ E.ev = "impulse_pre"
          /\ law = "impulse" /\ FxIsZero(Fx(E.y))
          /\ t' = t + 1 /\ UNCHANGED <<law, kind, n, a, b, M, lo, hi, ema, ws>>

Next == l <= Len(Rec) /\ (TNew \/ TStep \/ TImpulse \/ TQuiet) /\ l' = l + 1
Spec == Init /\ [][Next]_vars

\* reaching the end of the trace ends the search at once (reported by TLC as a violation of NotDone = accepted);
\* otherwise the postcondition reports the longest matched prefix
NotDone == l <= Len(Rec)
Matched == TLCGet("stats").diameter - 1
TraceAccepted ==
    \/ Matched = Len(Rec)
    \/ /\ PrintT(<<"FAIL", ToJson([matched |-> Matched, total |-> Len(Rec), event |-> Rec[Matched + 1]])>>)
       /\ FALSE
=============================================================================
