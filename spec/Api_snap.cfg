\* C13: snapshot / clone at every position
CONSTANTS
  L = 12
  MaxH = 4
  MaxK = 3
  Depth = 10
  Ops <- SnapOps
SPECIFICATION Spec
INVARIANTS TypeOK OnePerInput Emit
PROPERTY Independent
CHECK_DEADLOCK FALSE
