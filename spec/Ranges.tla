--------------------------------- MODULE Ranges ---------------------------------
(***************************************************************************)
(* C12: documented value ranges and ordering invariants, evaluated on the   *)
(* LOGGED values of every step of every recorded execution (indicator       *)
(* traces in Trace_Ind, numeric-method traces in Trace_Num).                *)
(*  - bounded oscillators inside their interval (Aroon, RSI, MFI,           *)
(*    Stochastic: [0,1] -- for averaging kinds that cannot overshoot;       *)
(*    Chande momentum, Chaikin money flow, TSI-based: [-1,1]);              *)
(*  - bands ordered upper >= middle >= lower; Donchian / price channels     *)
(*    contain the highs and lows they are built from;                       *)
(*  - the parabolic SAR on the side of the price opposite to its trend;     *)
(*  - every output finite wherever its formula is defined.                  *)
(* Up to the rounding allowance RTOL (relative to the quantity's scale).    *)
(***************************************************************************)
EXTENDS Big, Sequences

RNum(j) == "s" \in DOMAIN j
RFx(j) == FxFromJson(j)
RTOL == [s |-> 1, m |-> <<0, 0, 0, 1000>>]      \* 1e-9: rounding residue of running sums after a drop of the price scale (quotient rule of DESIGN section 4)
One == [s |-> 1, m |-> <<0, 0, 0, 0, 0, 0, 1>>]
In01(j) == RNum(j) /\ FxGe(RFx(j), FxNeg(RTOL)) /\ FxLe(RFx(j), FxAdd(One, RTOL))
In11(j) == RNum(j) /\ FxGe(RFx(j), FxNeg(FxAdd(One, RTOL))) /\ FxLe(RFx(j), FxAdd(One, RTOL))
In22(j) == RNum(j) /\ FxGe(RFx(j), FxNeg(FxAdd(FxAdd(One, One), RTOL))) /\ FxLe(RFx(j), FxAdd(FxAdd(One, One), RTOL))
\* a >= b up to the allowance relative to their magnitude
GeR(a, b) == RNum(a) /\ RNum(b) /\ FxGe(FxAdd(RFx(a), FxMul(RTOL, FxAdd(One, FxMax(FxAbs(RFx(a)), FxAbs(RFx(b)))))), RFx(b))

\* averaging kinds whose weights are non-negative (cannot overshoot the range of their inputs)
NonNegKinds == {"sma", "wma", "swma", "trima", "ema", "dma", "tma", "rma", "wsma", "smm", "vidya"}
AllNonNeg(kinds) == \A i \in 1..Len(kinds) : kinds[i] \in NonNegKinds

\* v: logged values (JSON), c: the candle (Fx record), kinds: the MA kinds of the configuration
\* volume-normalised quantities: the range is asserted where the exact denominator of the values specification (total volume /
\* total money flow of the window) is at least a thousandth of its scale -- below that the code divides rounding residues
RangeNeedsSpec == {"MoneyFlowIndex", "ChaikinMoneyFlow"}
Defined(e) == e.kind = "abs" \/ (e.kind \in {"quot", "guard"} /\ FxGt(FxMulInt(e.den, 1000), e.sd))
RangeOKDefined(name, v, exps) ==
    CASE name = "MoneyFlowIndex" -> Defined(exps[2]) => In01(v[2])
      [] name = "ChaikinMoneyFlow" -> Defined(exps[1]) => In11(v[1])
      [] OTHER -> TRUE
\* dry: how many bars in a row (this one included) had zero volume: a window of n bars holds volume iff dry < n
RangeOK(name, cfg, c, v, kinds, dry) ==
    CASE name = "Aroon" -> In01(v[1]) /\ In01(v[2])
      [] name = "RelativeStrengthIndex" -> AllNonNeg(kinds) => In01(v[1])
      [] name = "MoneyFlowIndex" -> TRUE              \* (RangeOKDefined)
      [] name = "StochasticOscillator" -> AllNonNeg(kinds) => (In01(v[1]) /\ In01(v[2]))
      \* volume-normalised quantities are undefined (0/0) on zero total volume; relative changes need positive inputs
      [] name = "ChaikinMoneyFlow" -> TRUE            \* (RangeOKDefined)
      [] name = "ChandeMomentumOscillator" -> In11(v[1])
      \* the signal lines are averages of the main value with a non-overshooting kind (EMA for TrueStrengthIndex; configurable for
      \* SMIErgodicIndicator, whose third value is main - signal)
      [] name = "TrueStrengthIndex" -> In11(v[1]) /\ In11(v[2])
      [] name = "SMIErgodicIndicator" -> In11(v[1]) /\ (AllNonNeg(kinds) => (In11(v[2]) /\ In22(v[3])))
      [] name = "BollingerBands" -> GeR(v[1], v[2]) /\ GeR(v[2], v[3])
      [] name = "KeltnerChannel" -> GeR(v[2], v[3])                         \* [source, upper, lower]
      [] name = "Envelopes" -> (cfg.k.s >= 0 /\ RNum(v[1]) /\ RFx(v[1]).s >= 0) => GeR(v[1], v[2])
      [] name = "PriceChannelStrategy" -> GeR(v[1], v[2])
      [] name = "DonchianChannel" -> /\ GeR(v[3], v[2]) /\ GeR(v[2], v[1])
                                     /\ RNum(v[3]) /\ FxGe(RFx(v[3]), c.h) /\ RNum(v[1]) /\ FxLe(RFx(v[1]), c.l)
      \* values [sar, trend]: a rising trend keeps the SAR at or below the bar's low, a falling one at or above its high
      [] name = "ParabolicSAR" -> /\ RNum(v[1]) /\ RNum(v[2])
                                  /\ (RFx(v[2]).s > 0 => FxLe(RFx(v[1]), FxAdd(c.l, FxMul(RTOL, FxAbs(c.l)))))
                                  /\ (RFx(v[2]).s < 0 => FxGe(RFx(v[1]), FxSub(c.h, FxMul(RTOL, FxAbs(c.h)))))
      [] OTHER -> TRUE
=============================================================================
