---------------------------- MODULE I_TrueStrengthIndex ----------------------------
(* TrueStrengthIndex(period1 long, period2 short, period3, zone, source): m = src - previous src;                    *)
(* main = EMA(short)(EMA(long)(m)) / EMA(short)(EMA(long)(|m|)) (all four averages seeded 0; 0 when the denominator  *)
(* is not positive); signal line = EMA(period3)(main), seeded 0.  Values [main, line].                               *)
(* S0 = [main crosses -zone downwards] - [main crosses +zone upwards]  (sell at the upper zone, buy at the lower);   *)
(* S1 = main crosses 0 (+ upwards); S2 = main crosses line (+ upwards).  All detectors start from Cross::default().  *)
(* -zone is an exact negation and the sign of a floating-point difference is exact, so the zone comparisons are      *)
(* decided exactly on the logged value (the key against 0; fixed point resolves distinct floats of size >= 10^-4).   *)
\* SPEC: values signals
EXTENDS IndLib

TrueStrengthIndex_Init(cfg, c) == [tsi |-> TSIInit(<<cfg.period2, cfg.period1>>, Src(c, cfg.source)), line |-> FxZero]
TrueStrengthIndex_Step(cfg, st, c, P, V) ==
    LET S   == SrcScale(cfg.source, P, V)
        q   == TSIStep(<<cfg.period2, cfg.period1>>, st.tsi, Src(c, cfg.source))
        tsi == IF q.den.s > 0 THEN FxDiv(q.num, q.den) ELSE FxZero
        l   == EMAStep(cfg.period3, st.line, tsi)
    IN  [st |-> [tsi |-> q.st, line |-> l.st],
         vals |-> <<Gx(q.num, q.den, FxMulInt(S, 2), FxMulInt(S, 2), FxZero), Ex(l.out, FxOne)>>]

\* admissible signs of (a - z) for a logged float a and a configured threshold z (z = +-zone, negation is exact)
TrueStrengthIndex_Sgn(a, z) ==
    IF FxIsZero(z) THEN {FCmp(a, ZeroV)}
    ELSE IF FxGe(FxAbs(z), FxShr(FxOne, 1)) \/ ~NearEq(a.x, z) THEN {FxCmp(a.x, z)}
    ELSE {-1, 0, 1}
\* Action - Action for two unit detectors: Buy - Buy = Buy(0)
TrueStrengthIndex_Sub(u, a) == IF u = 1 /\ a = 1 THEN 0 ELSE Act(u - a)

TrueStrengthIndex_SigInit(cfg, c) == [lu |-> 0, la |-> 0, x1 |-> 0, x2 |-> 0]
TrueStrengthIndex_Sig(cfg, sg, c, v) ==
    {[sg |-> [lu |-> du, la |-> da, x1 |-> CrossLast(v[1], ZeroV), x2 |-> CrossLast(v[1], v[2])],
      sigs |-> <<{TrueStrengthIndex_Sub(B2I(sg.lu > 0 /\ du <= 0), B2I(sg.la < 0 /\ da >= 0))},
                 {Act(CrossOut(sg.x1, v[1], ZeroV))},
                 {Act(CrossOut(sg.x2, v[1], v[2]))}>>]
     : du \in TrueStrengthIndex_Sgn(v[1], FxNeg(cfg.zone)), da \in TrueStrengthIndex_Sgn(v[1], cfg.zone)}
=============================================================================
