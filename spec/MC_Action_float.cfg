CONSTANTS
  Mode = "float"
SPECIFICATION Spec
INVARIANTS Unary Pairs Triples Reported Float EmitFloat
CHECK_DEADLOCK FALSE
