SPECIFICATION Spec
INVARIANT Emit
CHECK_DEADLOCK FALSE
