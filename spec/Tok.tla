--------------------------------- MODULE Tok ---------------------------------
(***************************************************************************)
(* Ordered tokens: the value domain for every algorithm of the crate that   *)
(* only COMPARES floats and tests them for bit-equality (extremum caches,   *)
(* sorted-slice median, crossing and reversal detectors).  Their behaviour  *)
(* is a function of the order pattern of the inputs and of bit identity,    *)
(* so a token <<rank, bits>> stands for every float of that rank:           *)
(*   rank : Int      the numeric order (IEEE comparison = comparison of     *)
(*                   ranks);                                                *)
(*   bits : 0 | 1    distinguishes +0.0 (<<0,0>>) from -0.0 (<<0,1>>),      *)
(*                   which compare equal but are not bit-equal; for every   *)
(*                   other rank bits = 0.                                   *)
(* The harness maps tokens to floats through several order-preserving       *)
(* embeddings and maps results back.                                        *)
(***************************************************************************)
EXTENDS Integers, Sequences, FiniteSets

Rank(t) == t[1]
IsTok(t) == /\ t \in Int \X {0, 1} /\ (t[2] = 1 => t[1] = 0)

Ge(a, b) == a[1] >= b[1]          \* a >= b
Gt(a, b) == a[1] >  b[1]
Le(a, b) == a[1] <= b[1]
Lt(a, b) == a[1] <  b[1]
BitEq(a, b) == a = b              \* a.to_bits() == b.to_bits()

\* f64::total_cmp restricted to finite values: numeric order, then -0.0 < +0.0
TotGt(a, b) == a[1] > b[1] \/ (a[1] = b[1] /\ a[2] < b[2])

\* f64::max / f64::min: on a (+0,-0) tie IEEE leaves the choice open => both
MaxSet(a, b) == IF a[1] > b[1] THEN {a} ELSE IF b[1] > a[1] THEN {b} ELSE {a, b}
MinSet(a, b) == IF a[1] < b[1] THEN {a} ELSE IF b[1] < a[1] THEN {b} ELSE {a, b}

\* iter().fold(init, |a, b| a.max(b)) over seq s (in the given order); result: set of possible values
RECURSIVE FoldMax(_, _, _), FoldMin(_, _, _)
FoldMax(s, i, acc) == IF i > Len(s) THEN acc
                      ELSE FoldMax(s, i + 1, UNION {MaxSet(a, s[i]) : a \in acc})
FoldMin(s, i, acc) == IF i > Len(s) THEN acc
                      ELSE FoldMin(s, i + 1, UNION {MinSet(a, s[i]) : a \in acc})

\* the methods' internal Window, read abstractly (C01): oldest first
Push(win, x) == Append(Tail(win), x)
Left(win)    == Head(win)
Fill(n, v)   == [i \in 1..n |-> v]

Rev(s) == [j \in 1..Len(s) |-> s[Len(s) + 1 - j]]

\* definitional helpers on a window h (oldest first)
MaxRank(h) == CHOOSE r \in {h[i][1] : i \in 1..Len(h)} : \A j \in 1..Len(h) : h[j][1] <= r
MinRank(h) == CHOOSE r \in {h[i][1] : i \in 1..Len(h)} : \A j \in 1..Len(h) : h[j][1] >= r
\* age (0 = newest) of the newest element of rank r
NewestAge(h, r) == CHOOSE a \in 0..(Len(h) - 1) :
                      /\ h[Len(h) - a][1] = r
                      /\ \A b \in 0..(a - 1) : h[Len(h) - b][1] # r
\* k-th smallest rank (1-based) of h
KthRank(h, k) == CHOOSE r \in {h[i][1] : i \in 1..Len(h)} :
                    /\ Cardinality({i \in 1..Len(h) : h[i][1] < r}) < k
                    /\ Cardinality({i \in 1..Len(h) : h[i][1] <= r}) >= k

RemoveAt(s, i) == [j \in 1..(Len(s) - 1) |-> IF j < i THEN s[j] ELSE s[j + 1]]           \* 1-based i
InsertAt(s, i, x) == [j \in 1..(Len(s) + 1) |-> IF j < i THEN s[j] ELSE IF j = i THEN x ELSE s[j - 1]]

BagOf(s) == [t \in {s[i] : i \in 1..Len(s)} |-> Cardinality({i \in 1..Len(s) : s[i] = t})]
=============================================================================
