----------------------------- MODULE I_MomentumIndex -----------------------------
(* MomentumIndex(period1 > period2 >= 1, source): values [slow, fast] = [src - src period1 bars ago, src - src      *)
(* period2 bars ago] (the bars before the stream all equal the first source value).  S0 = full buy when both        *)
(* momentums are > 0, full sell when both are < 0, otherwise none.                                                  *)
\* SPEC: values signals
EXTENDS IndLib

MomentumIndex_Init(cfg, c) == [w |-> WFill(cfg.period1 + 1, Src(c, cfg.source))]
MomentumIndex_Step(cfg, st, c, P, V) ==
    LET w == WPush(st.w, Src(c, cfg.source))
        S == SrcScale(cfg.source, P, V)
    IN  [st |-> [w |-> w],
         vals |-> <<Ex(MomentumDef(cfg.period1, w), FxMulInt(S, 2)), Ex(MomentumDef(cfg.period2, w), FxMulInt(S, 2))>>]

MomentumIndex_SigInit(cfg, c) == <<>>
MomentumIndex_Sig(cfg, sg, c, v) ==
    {[sg |-> sg, sigs |-> <<{Act(B2I(FGt(v[1], ZeroV) /\ FGt(v[2], ZeroV)) - B2I(FLt(v[1], ZeroV) /\ FLt(v[2], ZeroV)))}>>]}
=============================================================================
