------------------------------ MODULE Selection ------------------------------
(***************************************************************************)
(* Highest, Lowest, HighestLowestDelta (src/methods/highest_lowest.rs),     *)
(* HighestIndex, LowestIndex (highest_lowest_index.rs), SMM (smm.rs) and    *)
(* the median inside MedianAbsDev — implementation-shaped machines over     *)
(* tokens, next to their definitions.                                       *)
(*                                                                           *)
(* The methods' internal Window is used through its abstract reading (a     *)
(* sequence, oldest first; push returns the head; iter() is newest->oldest),*)
(* which C01 establishes for the real ring buffer.                          *)
(*                                                                           *)
(* Each Next operator returns a SET of [st, out] records: the set has more  *)
(* than one element only where IEEE leaves a choice (max/min of +0 and -0). *)
(***************************************************************************)
EXTENDS Tok, Period


----------------------------------------------------------------------------
(* Highest / Lowest: cached extremum, rescan when the cached element leaves *)

HighestInit(n, v) == [win |-> Fill(n, v), value |-> v]
HighestNext(st, x) ==
    LET win2 == Push(st.win, x)
        vals == IF Ge(x, st.value) THEN {x}
                ELSE IF BitEq(Left(st.win), st.value) THEN FoldMax(Rev(win2), 1, {x})
                ELSE {st.value}
    IN  {[st |-> [win |-> win2, value |-> v], out |-> <<v[1]>>] : v \in vals}

LowestInit(n, v) == [win |-> Fill(n, v), value |-> v]
LowestNext(st, x) ==
    LET win2 == Push(st.win, x)
        vals == IF Le(x, st.value) THEN {x}
                ELSE IF BitEq(Left(st.win), st.value) THEN FoldMin(Rev(win2), 1, {x})
                ELSE {st.value}
    IN  {[st |-> [win |-> win2, value |-> v], out |-> <<v[1]>>] : v \in vals}

\* HighestLowestDelta: both caches, one shared rescan
DeltaInit(n, v) == [win |-> Fill(n, v), highest |-> v, lowest |-> v]
DeltaNext(st, x) ==
    LET win2   == Push(st.win, x)
        left   == Left(st.win)
        hiSet  == Ge(x, st.highest)
        hiScan == ~hiSet /\ BitEq(left, st.highest)
        h1     == IF hiSet THEN x ELSE st.highest
        loSet2 == Le(x, st.lowest)
        loScan == ~loSet2 /\ BitEq(left, st.lowest)
        l1     == IF loSet2 THEN x ELSE st.lowest
        search == hiScan \/ loScan
        pairs  == IF search
                  THEN FoldMax(Rev(win2), 1, {x}) \X FoldMin(Rev(win2), 1, {x})
                  ELSE {<<h1, l1>>}
    IN  {[st |-> [win |-> win2, highest |-> p[1], lowest |-> p[2]], out |-> <<p[1][1], p[2][1]>>] : p \in pairs}

\* definitions
HighestDef(h) == <<MaxRank(h)>>
LowestDef(h)  == <<MinRank(h)>>
DeltaDef(h)   == <<MaxRank(h), MinRank(h)>>

----------------------------------------------------------------------------
(* HighestIndex / LowestIndex: age of the newest extremum; rescan when the  *)
(* age reaches the window length                                            *)

HIdxInit(n, v) == [win |-> Fill(n, v), index |-> 0, value |-> v]

\* fold over iter().enumerate(): (0, x) initially, replaced by a strictly better element
RECURSIVE IdxFold(_, _, _, _)
IdxFold(s, i, acc, dir) ==        \* s = newest->oldest; enumerate index = i - 1; acc = <<index, value>>
    IF i > Len(s) THEN acc
    ELSE IdxFold(s, i + 1, IF dir * s[i][1] > dir * acc[2][1] THEN <<i - 1, s[i]>> ELSE acc, dir)

IdxNext(st, x, dir) ==
    LET win2 == Push(st.win, x)
        idx1 == PAdd(st.index, 1)
        n    == Len(st.win)
    IN  IF idx1 = OVF THEN {[st |-> st, out |-> <<OVF>>]}
        ELSE IF dir * x[1] >= dir * st.value[1]
             THEN {[st |-> [win |-> win2, index |-> 0, value |-> x], out |-> <<0>>]}
        ELSE IF idx1 = n
             THEN LET f == IdxFold(Rev(win2), 1, <<0, x>>, dir)
                  IN  {[st |-> [win |-> win2, index |-> Cast(f[1]), value |-> f[2]], out |-> <<Cast(f[1])>>]}
        ELSE {[st |-> [win |-> win2, index |-> idx1, value |-> st.value], out |-> <<idx1>>]}

HIdxNext(st, x) == IdxNext(st, x, 1)
LIdxNext(st, x) == IdxNext(st, x, -1)
HIdxDef(h) == <<NewestAge(h, MaxRank(h))>>
LIdxDef(h) == <<NewestAge(h, MinRank(h))>>

----------------------------------------------------------------------------
(* SMM: window + sorted slice, two binary searches, one shifted range       *)

CONSTANT SMM_TOTAL_ORDER     \* TRUE: searches order -0.0 before +0.0 (f64::total_cmp);
                             \* FALSE: plain `>` (the code before the C04 fix: loses elements when both zeros are present)

SmmGt(a, b) == IF SMM_TOTAL_ORDER THEN TotGt(a, b) ELSE Gt(a, b)

RECURSIVE FindIndex(_, _, _), FindInsert(_, _, _)
\* fn find_index(value, slice, padding) -> usize
FindIndex(v, s, pad) ==
    IF Len(s) < 2 THEN pad + 1 - Len(s)
    ELSE LET half == Len(s) \div 2
             mid  == s[half + 1]
         IN  IF BitEq(v, mid) THEN pad + half
             ELSE IF SmmGt(v, mid) THEN FindIndex(v, SubSeq(s, half + 2, Len(s)), pad + half + 1)
             ELSE FindIndex(v, SubSeq(s, 1, half), pad)
\* fn find_insert_index(value, slice, padding) -> usize
FindInsert(v, s, pad) ==
    IF Len(s) = 0 THEN pad
    ELSE LET half == Len(s) \div 2
             mid  == s[half + 1]
         IN  IF BitEq(v, mid) THEN pad + half
             ELSE IF SmmGt(v, mid) THEN FindInsert(v, SubSeq(s, half + 2, Len(s)), pad + half + 1)
             ELSE FindInsert(v, SubSeq(s, 1, half), pad)

SmmInit(n, v) == [win |-> Fill(n, v), slice |-> Fill(n, v),
                  half |-> n \div 2,
                  half_m1 |-> SatSub(n \div 2, IF n % 2 = 0 THEN 1 ELSE 0)]

SmmOldIndex(st)    == FindIndex(Left(st.win), st.slice, 0)
SmmInsIndex(st, x) == LET i0 == FindInsert(x, st.slice, 0)
                      IN  i0 - (IF SmmOldIndex(st) < i0 THEN 1 ELSE 0)
\* every slice access of next() is inside the slice (the get_unchecked / ptr::copy sites)
SmmInBounds(st, x) == /\ SmmOldIndex(st) \in 0..(Len(st.slice) - 1)
                      /\ SmmInsIndex(st, x) \in 0..(Len(st.slice) - 1)
SmmPeek(st) == <<st.slice[st.half_m1 + 1][1], st.slice[st.half + 1][1]>>
SmmNext(st, x) ==
    IF ~SmmInBounds(st, x) THEN {[st |-> st, out |-> <<"panic">>]}
    ELSE LET st2 == [st EXCEPT !.win = Push(st.win, x),
                               !.slice = InsertAt(RemoveAt(st.slice, SmmOldIndex(st) + 1), SmmInsIndex(st, x) + 1, x)]
         IN  {[st |-> st2, out |-> SmmPeek(st2)]}

\* the two middle order statistics (equal for odd n)
SmmDef(h) == LET n == Len(h) IN <<KthRank(h, (n + 1) \div 2), KthRank(h, n \div 2 + 1)>>

SmmSorted(st) == \A i \in 1..(Len(st.slice) - 1) : st.slice[i][1] <= st.slice[i + 1][1]
SmmPerm(st)   == BagOf(st.slice) = BagOf(st.win)

\* Deserialize: the slice is rebuilt by sorting the window; with plain partial_cmp the relative
\* order of +0/-0 is arbitrary, with total_cmp it is fixed
SortedPerms(h) == {s \in [1..Len(h) -> {h[i] : i \in 1..Len(h)}] :
                      /\ BagOf(s) = BagOf(h)
                      /\ \A i \in 1..(Len(h) - 1) :
                            IF SMM_TOTAL_ORDER THEN ~TotGt(s[i], s[i + 1]) ELSE s[i][1] <= s[i + 1][1]}
SmmRestore(st) == {[st EXCEPT !.slice = s] : s \in SortedPerms(st.win)}
=============================================================================
