-------------------------- MODULE I_PriceChannelStrategy --------------------------
(* PriceChannelStrategy(period n, sigma in (0,1]): H = highest high, L = lowest low of the last n candles,          *)
(* middle = (H + L)/2, delta = H - middle; values [upper, lower] = [middle + sigma delta, middle - sigma delta].     *)
(* S0 = [high >= upper] - [low <= lower] (buy when the high touches the upper bound, sell when the low touches the   *)
(* lower bound, none on both or neither) -- evaluated on the logged bounds.                                          *)
\* SPEC: values signals
EXTENDS IndLib

PriceChannelStrategy_Init(cfg, c) == [hw |-> WFill(cfg.period, c.h), lw |-> WFill(cfg.period, c.l)]
PriceChannelStrategy_Step(cfg, st, c, P, V) ==
    LET hw == WPush(st.hw, c.h)  lw == WPush(st.lw, c.l)
        mid == FxDivInt(FxAdd(Hi(hw), Lo(lw)), 2)
        sd  == FxMul(FxSub(Hi(hw), mid), cfg.sigma)
    IN  [st |-> [hw |-> hw, lw |-> lw],
         vals |-> <<Ex(FxAdd(mid, sd), FxMulInt(P, 4)), Ex(FxSub(mid, sd), FxMulInt(P, 4))>>]

PriceChannelStrategy_SigInit(cfg, c) == <<>>
PriceChannelStrategy_Sig(cfg, sg, c, v) ==
    {[sg |-> sg, sigs |-> <<{Act(B2I(FxGe(c.h, v[1].x)) - B2I(FxLe(c.l, v[2].x)))}>>]}
=============================================================================
