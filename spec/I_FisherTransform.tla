------------------------------ MODULE I_FisherTransform ------------------------------
(* FisherTransform(period1 n, zone, signal ma, source): H, L = highest / lowest source of the last n candles;          *)
(* x = 2 (src - L)/(H - L) - 1 clamped to [-0.999, 0.999]; ft = atanh(x) = 1/2 ln((1 + x)/(1 - x)), 0 when H = L;      *)
(* main = ft + main[previous]/2 (seed 0); signal line = ma(main) seeded 0.  Values [main, line].                       *)
(* atanh is transcendental: it is evaluated here to about 10^-22 (ln by halving the argument into [1, 2) and the       *)
(* series 2 sum z^(2j+1)/(2j+1), z = (m-1)/(m+1) <= 1/3, 25 terms, remainder < 10^-24), which is far below the          *)
(* rounding allowance, so the value is specified with Ex.  Its tolerance scale is the condition number of the step:    *)
(* |ft| + (1 + amp)/(1 - x^2), where 1/(1 - x^2) <= 500.25 is atanh' and amp = max(|H|, |L|)/(H - L) is the            *)
(* cancellation factor of (src - L)/(H - L) for sources the code computes with rounding (hl2, tp, volumed_price);      *)
(* the scale follows the recurrence (halved each step).                                                                *)
(* Signals, from the logged values: rev = main crosses its own previous value (direction change);                      *)
(* S0 = Action(main/zone) when (main < 0 and rev up) or (main > 0 and rev down), else Action(+-0.0) = Buy(0) / Sell(0)  *)
(* by the sign of main (the code never returns Action::None here);  S1 = Action(line/zone) when (line < 0, the last     *)
(* direction change was upwards, main crosses line upwards) or mirrored, else Buy(0) / Sell(0) by the sign of line.     *)
(* The doc comment says "Signal 1 appears when main value crosses zero line": the code has no zero-crossing test.       *)
\* SPEC: values signals
EXTENDS IndLib

RECURSIVE FisherTransform_Ser(_, _, _, _), FisherTransform_Red(_, _)
\* sum_{j = i}^{24} z^(2j+1) / (2j+1), pw = z^(2i+1)
FisherTransform_Ser(z2, pw, j, acc) ==
    IF j > 24 THEN acc ELSE FisherTransform_Ser(z2, FxMul(pw, z2), j + 1, FxAdd(acc, FxDivInt(pw, 2 * j + 1)))
\* r >= 1 as m 2^k with m in [1, 2)
FisherTransform_Red(r, k) == IF FxLt(r, FxFromInt(2)) THEN <<r, k>> ELSE FisherTransform_Red(FxDivInt(r, 2), k + 1)
\* ln m for m in [1, 2]
FisherTransform_LnM(m) == LET z == FxDiv(FxSub(m, FxOne), FxAdd(m, FxOne))
                          IN  FxMulInt(FisherTransform_Ser(FxSqr(z), z, 0, FxZero), 2)
FisherTransform_Atanh(x) ==           \* |x| < 1
    LET ax  == FxAbs(x)
        red == FisherTransform_Red(FxDiv(FxAdd(FxOne, ax), FxSub(FxOne, ax)), 0)
        ln  == FxAdd(FxMulInt(FisherTransform_LnM(FxFromInt(2)), red[2]), FisherTransform_LnM(red[1]))
    IN  IF x.s = 0 THEN FxZero ELSE FxMk(x.s, FxDivInt(ln, 2).m)

FisherTransform_Init(cfg, c) ==
    [w |-> WFill(cfg.period1, Src(c, cfg.source)), prev |-> FxZero, m |-> MInit(cfg.signal, FxZero),
     sc |-> FxZero, mx |-> FxZero]
FisherTransform_Step(cfg, st, c, P, V) ==
    LET src == Src(c, cfg.source)
        w   == WPush(st.w, src)
        H   == Hi(w)  L == Lo(w)
        B   == FxFromRat(999, 1000)
        flat == FxEq(H, L)
        x0  == FxSub(FxMulInt(FxDiv(FxSub(src, L), FxSub(H, L)), 2), FxOne)
        x   == IF FxGt(x0, B) THEN B ELSE IF FxLt(x0, FxNeg(B)) THEN FxNeg(B) ELSE x0
        ft  == IF flat THEN FxZero ELSE FisherTransform_Atanh(x)
        amp == IF cfg.source \in {"hl2", "tp", "volumed_price"} THEN FxDiv(FxMax(FxAbs(H), FxAbs(L)), FxSub(H, L)) ELSE FxZero
        cond == IF flat THEN FxZero
                ELSE FxAdd(FxAbs(ft), FxDiv(FxAdd(FxOne, amp), FxSub(FxOne, FxSqr(x))))
        main == FxAdd(ft, FxDivInt(st.prev, 2))
        sc  == FxAdd(cond, FxDivInt(st.sc, 2))
        mx  == FxMax(st.mx, sc)
        a   == MStep(cfg.signal, st.m, main)
    IN  [st |-> [w |-> w, prev |-> main, m |-> a.st, sc |-> sc, mx |-> mx],
         vals |-> <<Ex(main, sc), Ex(a.out, FxMulInt(mx, 4))>>]

FisherTransform_SigInit(cfg, c) == [x |-> 0, prev |-> ZeroV, xm |-> 0, lr |-> 0]
\* Action::from(+-0.0): Buy(0) = 0 or Sell(0) = -1 by the sign bit of the product value * 0.0
FisherTransform_Zero(v) == IF v.o[1] < 0 THEN {-1} ELSE IF v.o[1] > 0 THEN {0} ELSE {0, -1}
FisherTransform_Sig(cfg, sg, c, v) ==
    LET rev == CrossOut(sg.x, v[1], sg.prev)
        cm  == CrossOut(sg.xm, v[1], v[2])
        lr  == IF rev # 0 THEN rev ELSE sg.lr
        s1  == v[1].o[1]   s2 == v[2].o[1]                   \* signs of the logged main value and line
        f1  == (s1 < 0 /\ rev > 0) \/ (s1 > 0 /\ rev < 0)
        f2  == (s2 < 0 /\ lr > 0 /\ cm > 0) \/ (s2 > 0 /\ lr < 0 /\ cm < 0)
    IN  {[sg |-> [x |-> CrossLast(v[1], sg.prev), prev |-> v[1], xm |-> CrossLast(v[1], v[2]), lr |-> lr],
          sigs |-> <<IF f1 THEN ActFSet(FxDiv(v[1].x, cfg.zone)) ELSE FisherTransform_Zero(v[1]),
                     IF f2 THEN ActFSet(FxDiv(v[2].x, cfg.zone)) ELSE FisherTransform_Zero(v[2])>>]}
=============================================================================
