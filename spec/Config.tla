--------------------------------- MODULE Config ---------------------------------
(***************************************************************************)
(* The IndicatorConfig contract (C11): set(name, text).                     *)
(*                                                                           *)
(* The catalogue (indicator -> public fields with their types; produced     *)
(* from the struct definitions by `yv ind-catalog`) instantiates the model. *)
(* set(name, text) must change EXACTLY the named public parameter to the    *)
(* value the text denotes for that parameter's type, and must return an     *)
(* error, leaving the configuration unchanged, for unknown names or text    *)
(* that does not parse as that type.  TLC enumerates, per indicator, every  *)
(* (name, text) over the public fields, foreign names and a table of texts, *)
(* and two-step sequences; the harness replays them on the static and the   *)
(* dynamically dispatched configuration, observing the configuration        *)
(* through its public Serialize impl.                                       *)
(***************************************************************************)
EXTENDS Integers, Sequences, TLC, Json, IOUtils

Cat == JsonDeserialize(IOEnv.CATALOG)          \* sequence of [name, fields: seq of [f, t], ...]

\* texts and what they denote per parameter type ("int": PeriodType / u8; "float"; "ma"; "source"; "bool")
Texts == <<"7", "0", "255", "256", "-1", "+3", "0.25", "1e-3", "2", "abc", "", " 7", "wma-9", "ema-0", "sma", "ema-300", "high", "HLC3", "volumed_price", "true", "false", "nan">>
Bad == [ok |-> FALSE]
IntV(v) == [ok |-> TRUE, as |-> "int", v |-> v]
Flt(n, d) == [ok |-> TRUE, as |-> "float", num |-> n, den |-> d]
Denote(type, text) ==
    CASE type = "int" -> (CASE text = "7" -> IntV(7) [] text = "0" -> IntV(0) [] text = "255" -> IntV(255) [] text = "+3" -> IntV(3)
                            [] text = "2" -> IntV(2) [] OTHER -> Bad)
      [] type = "float" -> (CASE text = "7" -> Flt(7, 1) [] text = "0" -> Flt(0, 1) [] text = "255" -> Flt(255, 1) [] text = "256" -> Flt(256, 1)
                              [] text = "-1" -> Flt(-1, 1) [] text = "+3" -> Flt(3, 1) [] text = "0.25" -> Flt(1, 4) [] text = "1e-3" -> Flt(1, 1000)
                              [] text = "2" -> Flt(2, 1) [] text = "nan" -> [ok |-> TRUE, as |-> "nan"] [] OTHER -> Bad)
      [] type = "ma" -> (CASE text = "wma-9" -> [ok |-> TRUE, as |-> "ma", kind |-> "wma", n |-> 9]
                           [] text = "ema-0" -> [ok |-> TRUE, as |-> "ma", kind |-> "ema", n |-> 0] [] OTHER -> Bad)
      [] type = "source" -> (CASE text = "high" -> [ok |-> TRUE, as |-> "source", v |-> "high"]
                               [] text = "HLC3" -> [ok |-> TRUE, as |-> "source", v |-> "tp"]
                               [] text = "volumed_price" -> [ok |-> TRUE, as |-> "source", v |-> "volumed_price"] [] OTHER -> Bad)
      [] type = "bool" -> (CASE text = "true" -> [ok |-> TRUE, as |-> "bool", v |-> TRUE] [] text = "false" -> [ok |-> TRUE, as |-> "bool", v |-> FALSE]
                             [] OTHER -> Bad)

Foreign == <<"", "unknown", "Period", "ma 1", "zone2">>

VARIABLES ind, sets
vars == <<ind, sets>>
Fields(i) == Cat[i].fields
TypeOf(i, f) == LET k == CHOOSE k \in 1..Len(Fields(i)) : Fields(i)[k].f = f IN Fields(i)[k].t
IsField(i, f) == \E k \in 1..Len(Fields(i)) : Fields(i)[k].f = f
Names(i) == {Fields(i)[k].f : k \in 1..Len(Fields(i))} \cup {Foreign[k] : k \in 1..Len(Foreign)}

OneSet(i, f, text) == [field |-> f, text |-> text, known_field |-> IsField(i, f),
                       exp |-> IF IsField(i, f) THEN Denote(TypeOf(i, f), text) ELSE Bad]

Init == ind \in 1..Len(Cat) /\ sets = <<>>
Next == /\ Len(sets) < 2
        /\ \E f \in Names(ind) : \E t \in 1..Len(Texts) :
              \* second steps only after a successful first one, with a small text table (independence of parameters)
              /\ Len(sets) = 1 => (sets[1].exp.ok /\ Texts[t] \in {"2", "abc", "wma-9", "high"})
              /\ sets' = Append(sets, OneSet(ind, f, Texts[t]))
        /\ UNCHANGED ind
Spec == Init /\ [][Next]_vars

\* the model's own claim: an accepted set names a public field and the text denotes a value of its type
Sound == \A k \in 1..Len(sets) : sets[k].exp.ok => sets[k].known_field
Emit == Len(sets) > 0 => PrintT(<<"REPLAY", ToJson([ind |-> Cat[ind].name, sets |-> sets])>>)
=============================================================================
